SPECIFICATION Spec
CONSTANTS MaxW = 3  MaxH = 2
INVARIANTS FillClipInv BlitClipInv Involutions NothingOutside
