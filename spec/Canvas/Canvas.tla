------------------------------- MODULE Canvas -------------------------------
(***************************************************************************)
(* Per-pixel reference model of phosg::Image canvas operations (C07), for  *)
(* 8-bit channels.  A canvas is [w, h, alpha, px] with px the row-major    *)
(* sequence of pixels <<r, g, b, a>>; a canvas without an alpha channel    *)
(* reads (and is stored here) with a = 255.  Every operation is defined    *)
(* per destination pixel: a pixel changes iff it lies in the destination   *)
(* rectangle clipped against both canvases, and then receives the          *)
(* operation's colour rule; nothing else changes and nothing throws for    *)
(* being out of range - only direct pixel access does.                     *)
(***************************************************************************)
EXTENDS Integers, Sequences, FiniteSets

Idx(c, X, Y) == Y * c.w + X + 1
In(c, X, Y) == X >= 0 /\ X < c.w /\ Y >= 0 /\ Y < c.h
At(c, X, Y) == c.px[Idx(c, X, Y)]
XOf(c, i) == (i - 1) % c.w
YOf(c, i) == (i - 1) \div c.w
Store(c, p) == IF c.alpha THEN p ELSE <<p[1], p[2], p[3], 255>>
Rgb(p) == <<p[1], p[2], p[3]>>
Abs(x) == IF x < 0 THEN 0 - x ELSE x
Min(a, b) == IF a < b THEN a ELSE b

(* blend with 8-bit alpha a: every channel (including alpha) moves towards the source *)
Blend255(s, d, a) == <<(a * s[1] + (255 - a) * d[1]) \div 255, (a * s[2] + (255 - a) * d[2]) \div 255,
                       (a * s[3] + (255 - a) * d[3]) \div 255, (a * a + (255 - a) * d[4]) \div 255>>

(* the generic blit: rule(d, s, SX, SY) gives the new destination pixel *)
BlitWith(dst, src, x, y, w0, h0, sx, sy, Rule(_, _, _, _)) ==
  LET w == IF w0 < 0 THEN src.w ELSE w0
      h == IF h0 < 0 THEN src.h ELSE h0 IN
  [dst EXCEPT !.px = [i \in DOMAIN dst.px |->
     LET X == XOf(dst, i) Y == YOf(dst, i) xx == X - x yy == Y - y IN
     IF xx >= 0 /\ xx < w /\ yy >= 0 /\ yy < h /\ In(src, sx + xx, sy + yy)
       THEN Store(dst, Rule(dst.px[i], At(src, sx + xx, sy + yy), sx + xx, sy + yy))
       ELSE dst.px[i]]]
(* source coordinates touched by a blit (for the mask-coverage precondition) *)
Touched(dst, src, x, y, w0, h0, sx, sy) ==
  LET w == IF w0 < 0 THEN src.w ELSE w0
      h == IF h0 < 0 THEN src.h ELSE h0 IN
  {<<sx + (XOf(dst, i) - x), sy + (YOf(dst, i) - y)>> : i \in {j \in DOMAIN dst.px :
      LET xx == XOf(dst, j) - x yy == YOf(dst, j) - y IN xx >= 0 /\ xx < w /\ yy >= 0 /\ yy < h /\ In(src, sx + xx, sy + yy)}}

RBlit(d, s, SX, SY) == IF s[4] = 0 THEN d ELSE IF s[4] = 255 THEN s ELSE Blend255(s, d, s[4])
RBlend(d, s, SX, SY) == IF s[4] = 255 THEN s ELSE IF s[4] = 0 THEN d
                        ELSE <<(s[1] * s[4] + d[1] * (255 - s[4])) \div 255, (s[2] * s[4] + d[2] * (255 - s[4])) \div 255,
                               (s[3] * s[4] + d[3] * (255 - s[4])) \div 255, (s[4] * s[4] + d[4] * (255 - s[4])) \div 255>>
RBlendA(A, d, s) == LET ea == (A * s[4]) \div 255 IN
                    IF ea = 255 THEN <<s[1], s[2], s[3], ea>> ELSE IF ea = 0 THEN d
                    ELSE <<(s[1] * ea + d[1] * (255 - ea)) \div 255, (s[2] * ea + d[2] * (255 - ea)) \div 255,
                           (s[3] * ea + d[3] * (255 - ea)) \div 255, d[4]>>
(* the fixed per-pixel function the harness passes to custom_blit *)
RCustom(d, s, SX, SY) == <<(d[1] + s[1]) % 256, s[2], d[3], 255 - s[4]>>

FillRect(c, x, y, w, h, col) ==
  [c EXCEPT !.px = [i \in DOMAIN c.px |->
     LET X == XOf(c, i) Y == YOf(c, i) IN
     IF X - x >= 0 /\ X - x < w /\ Y - y >= 0 /\ Y - y < h
       THEN Store(c, IF col[4] = 255 THEN col ELSE Blend255(col, c.px[i], col[4]))
       ELSE c.px[i]]]

(* dashed axis-aligned lines: pixels are visited from the first coordinate upwards, dashes skip every other run of
   `dash` coordinates (C++ truncating division), and drawing stops at the first visited pixel outside the canvas *)
TruncDiv(a, b) == IF a >= 0 THEN a \div b ELSE 0 - ((0 - a) \div b)
Skipped(v, dash) == dash # 0 /\ TruncDiv(v, dash) % 2 # 0
DashLine(c, horizontal, a1, a2, fixed, dash, col) ==
  LET inC(v) == IF horizontal THEN In(c, v, fixed) ELSE In(c, fixed, v)
      drawn == {v \in a1..a2 : ~Skipped(v, dash) /\ inC(v) /\ \A u \in a1..(v - 1) : Skipped(u, dash) \/ inC(u)} IN
  [c EXCEPT !.px = [i \in DOMAIN c.px |->
     LET X == XOf(c, i) Y == YOf(c, i) IN
     IF (IF horizontal THEN Y = fixed /\ X \in drawn ELSE X = fixed /\ Y \in drawn) THEN Store(c, col) ELSE c.px[i]]]

(* line law (relational).  A pixel is "on" the ideal segment if it is within half a pixel of it along the minor axis *)
OnSegment(X, Y, x0, y0, x1, y1) ==
  LET dx == x1 - x0 dy == y1 - y0 IN
  IF Abs(dx) >= Abs(dy)
    THEN (IF dx = 0 THEN X = x0 /\ Y = y0
          ELSE X >= Min(x0, x1) /\ X <= (IF x0 > x1 THEN x0 ELSE x1) /\ Abs(2 * (Y - y0) * dx - 2 * (X - x0) * dy) <= Abs(dx))
    ELSE Y >= Min(y0, y1) /\ Y <= (IF y0 > y1 THEN y0 ELSE y1) /\ Abs(2 * (X - x0) * dy - 2 * (Y - y0) * dx) <= Abs(dy)
LineOk(before, after, x0, y0, x1, y1, col) ==
  LET changed == {i \in DOMAIN before.px : after.px[i] # before.px[i]}
      steep == Abs(y1 - y0) > Abs(x1 - x0)
      major(i) == IF steep THEN YOf(before, i) ELSE XOf(before, i) IN
  /\ \A i \in changed : after.px[i] = Store(before, col) /\ OnSegment(XOf(before, i), YOf(before, i), x0, y0, x1, y1)
  /\ (In(before, x0, y0) /\ In(before, x1, y1)) =>
        /\ Cardinality(changed) = (IF steep THEN Abs(y1 - y0) ELSE Abs(x1 - x0)) + 1
        /\ Idx(before, x0, y0) \in changed /\ Idx(before, x1, y1) \in changed
        /\ \A i, j \in changed : i # j => major(i) # major(j)                 \* exactly one pixel per major-axis step

ReverseH(c) == [c EXCEPT !.px = [i \in DOMAIN c.px |-> At(c, c.w - 1 - XOf(c, i), YOf(c, i))]]
ReverseV(c) == [c EXCEPT !.px = [i \in DOMAIN c.px |-> At(c, XOf(c, i), c.h - 1 - YOf(c, i))]]
Invert(c) == [c EXCEPT !.px = [i \in DOMAIN c.px |-> Store(c, <<255 - c.px[i][1], 255 - c.px[i][2], 255 - c.px[i][3], 255 - c.px[i][4]>>)]]
(* crop of a larger canvas (margin m on every side) *)
Crop(big, m, w, h) == [j \in 1..(w * h) |-> big.px[((j - 1) \div w + m) * big.w + ((j - 1) % w) + m + 1]]
=============================================================================
