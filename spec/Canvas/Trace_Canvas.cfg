SPECIFICATION Spec
INVARIANT Done
