---------------------------- MODULE Trace_Bitmap ----------------------------
(* Trace validation for the extension area X03: every recorded call on two real phosg::BitmapImage objects
   (harness/drv_bitmap.cc) must be the step spec/Canvas/Bitmap allows from the bitmaps reached so far. *)
EXTENDS Bitmap, TLC, Json, IOUtils
Tr == ndJsonDeserialize(IOEnv.TRACE)
VARIABLES l, bms
Bad(why) == PrintT("BAD " \o ToJson([l |-> l, why |-> why]))
Chk(cond, why) == IF cond THEN TRUE ELSE Bad(why)
Init == l = 1 /\ bms = <<Null, Null>>
Norm(o) == [w |-> o.w, h |-> o.h, null |-> o.null, d |-> o.d]
Same(model, obs) == model = Norm(obs) /\ obs.size = model.h * RowBytes(model.w)
Big == 1000                                         \* the driver logs -1 for a coordinate far outside every bitmap
Co(c) == IF c < 0 THEN Big ELSE c
Padded(bytes, n) == [k \in 1..n |-> IF k <= Len(bytes) THEN bytes[k] ELSE 0]
Op(ev) ==
  LET i == ev.i
      j == ev.j
      t == bms[i]
      x == Co(ev.x)
      y == Co(ev.y)
      need == ev.y * RowBytes(ev.x)
      r == CASE ev.op = "new" -> Res("ok", New(ev.x, ev.y), 0)
             [] ev.op = "copy" -> Res("ok", CopyOf(bms[j]), 0)
             [] ev.op = "move" -> Res("ok", bms[j], 0)
             [] ev.op = "load" -> IF Len(ev.bytes) >= need
                                    THEN Res("ok", [New(ev.x, ev.y) EXCEPT !.d = SubSeq(ev.bytes, 1, need)], 0)
                                    ELSE Res("io_error", t, 0)
             [] ev.op = "eq" -> Res("ok", t, IF Equal(t, bms[j]) THEN 1 ELSE 0)
             [] ev.op = "write" -> WritePixel(t, x, y, ev.v)
             [] ev.op = "read" -> ReadPixel(t, x, y)
             [] ev.op = "clear" -> ClearTo(t, ev.v)
             [] ev.op = "invert" -> Invert(t)
             [] ev.op = "row" -> WriteRow(t, y, ev.bytes, ev.bits)
             [] ev.op = "color" -> Res("ok", t, 1)
      other == IF ev.op = "move" /\ r.out = "ok" THEN Null ELSE bms[j]
      exp == [bms EXCEPT ![i] = r.val, ![j] = other] IN
  /\ Chk(IF r.out = "io_error" THEN ev.out \notin {"ok", "out_of_range"} ELSE ev.out = r.out,
         ev.op \o ": outcome (ok / out_of_range outside the bitmap / an error when the file is too short)")
  /\ Chk(ev.out # "ok" \/ ev.op \in {"new", "copy", "move", "load", "write", "clear", "invert", "row"} \/ ev.ret = r.ret,
         ev.op \o ": returned value")
  /\ Chk(ev.op # "eq" \/ ev.v = 1 - ev.ret, "operator!= is not the negation of operator==")
  /\ Chk(ev.op # "color" \/ ev.out # "ok" \/
           (/\ Len(ev.px) = t.w * t.h
            /\ \A yy \in 0..(t.h - 1) : \A xx \in 0..(t.w - 1) :
                 ev.px[yy * t.w + xx + 1] = ColorAt(t, xx, yy, ev.fc, ev.tc, ev.alpha)),
         "to_color: a pixel is not the colour its bit selects (alpha 255 without an alpha channel)")
  /\ Chk(Same(exp[1], ev.bms[1]) /\ Same(exp[2], ev.bms[2]),
         ev.op \o ": the bitmaps afterwards (width, height, empty, packed rows incl. padding bits) are not the ones defined")

Step(ev) ==
  CASE ev.e = "Reset" -> bms' = <<Norm(ev.bms[1]), Norm(ev.bms[2])>>
    [] ev.e = "op" -> Op(ev) /\ bms' = <<Norm(ev.bms[1]), Norm(ev.bms[2])>>
    [] OTHER -> Bad("no specification action for event " \o ev.e) /\ UNCHANGED bms
Next == l <= Len(Tr) /\ l' = l + 1 /\ Step(Tr[l])
Spec == Init /\ [][Next]_<<l, bms>>
Done == (l = Len(Tr) + 1) => PrintT("TRACE-DONE " \o ToString(Len(Tr)))
=============================================================================
