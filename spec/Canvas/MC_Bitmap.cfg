SPECIFICATION Spec
CONSTANTS Widths = {0, 1, 3, 9}  MaxH = 1  NB = 1
INVARIANTS Shape Pixels Bulk Rows EqLaw
