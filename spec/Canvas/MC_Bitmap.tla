----------------------------- MODULE MC_Bitmap -----------------------------
(* Bounded model of two BitmapImage objects: every value reachable from the default-constructed state by the modelled
   operations is well shaped and satisfies the pixel, bulk and row laws of Bitmap.tla. *)
EXTENDS Bitmap, TLC
CONSTANTS Widths, MaxH, NB
RowBytesPool == {<<>>, <<165>>, <<255, 90>>}
VARIABLE bm
B == 1..NB
Init == bm = [i \in B |-> Null]
Set(i, v) == bm' = [bm EXCEPT ![i] = v]
Next ==
  \E i \in B :
    \/ \E w \in Widths, h \in 0..MaxH : Set(i, New(w, h))
    \/ \E x \in 0..bm[i].w, y \in 0..bm[i].h, v \in {0, 1} : Set(i, WritePixel(bm[i], x, y, v).val)
    \/ \E v \in {0, 1} : Set(i, ClearTo(bm[i], v).val)
    \/ Set(i, Invert(bm[i]).val)
    \/ \E y \in 0..bm[i].h, bytes \in RowBytesPool, bits \in {0, 1, 8, 9, 16} :
         Len(bytes) >= RowBytes(bits) /\ Set(i, WriteRow(bm[i], y, bytes, bits).val)
    \/ \E j \in B : j # i /\ Set(i, CopyOf(bm[j]))                                      \* copy assignment
    \/ \E j \in B : j # i /\ bm' = [bm EXCEPT ![i] = bm[j], ![j] = Null]                \* move assignment
Spec == Init /\ [][Next]_bm
Shape == \A i \in B : WellShaped(bm[i])
Pixels == \A i \in B : PixelLaws(bm[i])
Bulk == \A i \in B : BulkLaws(bm[i])
Rows == \A i \in B : \A bytes \in RowBytesPool : RowLaws(bm[i], bytes)
EqLaw == \A i \in B, j \in B :
           /\ (Equal(bm[i], bm[j]) <=> (bm[i].w = bm[j].w /\ bm[i].h = bm[j].h /\
                  \A k \in 1..Len(bm[i].d) : Len(bm[j].d) = Len(bm[i].d) /\ bm[i].d[k] = bm[j].d[k]))
           /\ (Equal(bm[i], bm[j]) => \A c \in Coords(bm[i]) : Pixel(bm[i], c[1], c[2]) = Pixel(bm[j], c[1], c[2]))
=============================================================================
