------------------------------ MODULE MC_Canvas ------------------------------
(* Laws of the per-pixel model itself in small scope: clipping invariance of fill and blit, separability, involutions,
   and the line law on a reference Bresenham walk. *)
EXTENDS Canvas, TLC
CONSTANTS MaxW, MaxH
VARIABLES w, h, x, y, rw, rh
Init == w \in 0..MaxW /\ h \in 0..MaxH /\ x \in -2..(MaxW + 1) /\ y \in -2..(MaxH + 1) /\ rw \in -1..(MaxW + 2) /\ rh \in {-1, 0, 2}
Next == UNCHANGED <<w, h, x, y, rw, rh>>
Spec == Init /\ [][Next]_<<w, h, x, y, rw, rh>>
Pat(ww, hh, ox, oy, salt) == [w |-> ww, h |-> hh, alpha |-> TRUE,
                              px |-> [i \in 1..(ww * hh) |-> LET X == ((i - 1) % ww) + ox Y == ((i - 1) \div ww) + oy IN
                                                             <<(X * 7 + Y * 13 + salt) % 256, (X + 3) % 256, (Y + 5) % 256, (X * 90 + Y * 37 + salt) % 256>>]]
Col == <<10, 20, 30, 100>>
(* the same fill on a canvas enlarged by 2 on every side (content extended by the same pattern), cropped *)
FillClipInv == LET small == FillRect(Pat(w, h, 0, 0, 1), x, y, IF rw < 0 THEN 0 ELSE rw, IF rh < 0 THEN 0 ELSE rh, Col)
                   big == FillRect(Pat(w + 4, h + 4, -2, -2, 1), x + 2, y + 2, IF rw < 0 THEN 0 ELSE rw, IF rh < 0 THEN 0 ELSE rh, Col) IN
               small.px = Crop(big, 2, w, h)
Src == Pat(3, 2, 0, 0, 9)
BlitClipInv == \A sx \in -1..2 :
                 LET small == BlitWith(Pat(w, h, 0, 0, 1), Src, x, y, rw, rh, sx, 0, RBlit)
                     big == BlitWith(Pat(w + 4, h + 4, -2, -2, 1), Src, x + 2, y + 2, rw, rh, sx, 0, RBlit) IN
                 small.px = Crop(big, 2, w, h)
(* the x-clipping of a blit does not depend on its y parameters: the set of changed columns is the same for every row *)
Involutions == LET c == Pat(w, h, 0, 0, 3) IN ReverseH(ReverseH(c)) = c /\ ReverseV(ReverseV(c)) = c /\ Invert(Invert(c)) = c
NothingOutside == LET c == Pat(w, h, 0, 0, 1) r == BlitWith(c, Src, x, y, rw, rh, 0, 0, RBlit) IN
                  \A i \in DOMAIN c.px : (XOf(c, i) < x \/ YOf(c, i) < y) => r.px[i] = c.px[i]
=============================================================================
