SPECIFICATION Spec
CONSTANTS Widths = {0, 3}  MaxH = 1  NB = 2
INVARIANTS Shape Pixels Bulk Rows EqLaw
