------------------------------- MODULE Bitmap -------------------------------
(* Extension area X03 (not a listed property): phosg::BitmapImage, the one-bit-per-pixel canvas of Image.hh.
   The value is modelled at the level the class exposes: width, height, the packed rows returned by get_data()
   (row_bytes = ceil(width / 8) bytes per row, pixel x of a row in bit 7 - (x mod 8) of byte x div 8, MSB first) and
   whether the object owns storage at all (a default-constructed or moved-from bitmap does not: empty()).
   The padding bits of the last byte of every row are part of the value because operator== and get_data() show them:
   clear(true) and invert() set / flip them, write_pixel never touches them.                                         *)
EXTENDS Naturals, Sequences

RowBytes(w) == (w + 7) \div 8
Pow2(k) == CASE k = 0 -> 1 [] k = 1 -> 2 [] k = 2 -> 4 [] k = 3 -> 8 [] k = 4 -> 16 [] k = 5 -> 32 [] k = 6 -> 64 [] k = 7 -> 128
Bit(byte, k) == (byte \div Pow2(k)) % 2
SetBit(byte, k, v) == byte - Bit(byte, k) * Pow2(k) + v * Pow2(k)

Null == [w |-> 0, h |-> 0, null |-> TRUE, d |-> <<>>]                 \* default-constructed / moved-from
New(w, h) == [w |-> w, h |-> h, null |-> FALSE, d |-> [i \in 1..(h * RowBytes(w)) |-> 0]]
WellShaped(b) == /\ Len(b.d) = b.h * RowBytes(b.w)
                 /\ \A i \in 1..Len(b.d) : b.d[i] \in 0..255
                 /\ (b.null => b.w = 0 /\ b.h = 0)

Idx(b, x, y) == y * RowBytes(b.w) + (x \div 8) + 1
InRange(b, x, y) == x < b.w /\ y < b.h
Pixel(b, x, y) == Bit(b.d[Idx(b, x, y)], 7 - (x % 8))

Res(out, val, ret) == [out |-> out, val |-> val, ret |-> ret]
ReadPixel(b, x, y) == IF InRange(b, x, y) THEN Res("ok", b, Pixel(b, x, y)) ELSE Res("out_of_range", b, 0)
WritePixel(b, x, y, v) ==
  IF InRange(b, x, y)
    THEN Res("ok", [b EXCEPT !.d[Idx(b, x, y)] = SetBit(@, 7 - (x % 8), v)], 0)
    ELSE Res("out_of_range", b, 0)
ClearTo(b, v) == Res("ok", [b EXCEPT !.d = [i \in 1..Len(b.d) |-> IF v = 1 THEN 255 ELSE 0]], 0)
Invert(b) == Res("ok", [b EXCEPT !.d = [i \in 1..Len(b.d) |-> 255 - b.d[i]]], 0)
Min(a, c) == IF a < c THEN a ELSE c
(* write_row(y, data, size_bits): whole bytes, at most one row; the caller supplies ceil(size_bits / 8) bytes *)
WriteRow(b, y, bytes, bits) ==
  IF y >= b.h THEN Res("out_of_range", b, 0)
  ELSE LET n == Min(RowBytes(bits), RowBytes(b.w))
           base == y * RowBytes(b.w) IN
       Res("ok", [b EXCEPT !.d = [i \in 1..Len(b.d) |-> IF i > base /\ i <= base + n THEN bytes[i - base] ELSE b.d[i]]], 0)
(* copies always own storage, even copies of a bitmap that owns none *)
CopyOf(b) == [b EXCEPT !.null = FALSE]
Equal(a, b) == a.w = b.w /\ a.h = b.h /\ a.d = b.d
(* to_color: one colour per pixel; without alpha the canvas reports alpha 255 *)
ColorAt(b, x, y, fc, tc, alpha) ==
  LET c == IF Pixel(b, x, y) = 1 THEN tc ELSE fc IN <<c[1], c[2], c[3], IF alpha = 1 THEN c[4] ELSE 255>>

(* ---- laws (checked on every reachable bitmap by MC_Bitmap) ---- *)
Coords(b) == (0..(b.w - 1)) \X (0..(b.h - 1))
PixelLaws(b) ==
  \A c \in Coords(b) : \A v \in {0, 1} :
    LET b2 == WritePixel(b, c[1], c[2], v).val IN
    /\ Pixel(b2, c[1], c[2]) = v                                                      \* write then read
    /\ \A o \in Coords(b) : o # c => Pixel(b2, o[1], o[2]) = Pixel(b, o[1], o[2])     \* nothing else moves
    /\ WellShaped(b2)
    /\ (Pixel(b, c[1], c[2]) = v => b2 = b)                                           \* idempotent, padding untouched
    /\ \A i \in 1..Len(b.d) : i # Idx(b, c[1], c[2]) => b2.d[i] = b.d[i]
BulkLaws(b) ==
  /\ Invert(Invert(b).val).val = b
  /\ \A c \in Coords(b) : Pixel(Invert(b).val, c[1], c[2]) = 1 - Pixel(b, c[1], c[2])
  /\ \A v \in {0, 1} : \A c \in Coords(b) : Pixel(ClearTo(b, v).val, c[1], c[2]) = v
  /\ Invert(ClearTo(b, 0).val).val = ClearTo(b, 1).val
  /\ Equal(b, CopyOf(b))
  /\ ReadPixel(b, b.w, 0).out = "out_of_range" /\ ReadPixel(b, 0, b.h).out = "out_of_range"
  /\ WritePixel(b, b.w, 0, 1).val = b /\ WritePixel(b, 0, b.h, 1).val = b
RowLaws(b, bytes) ==
  \A y \in 0..b.h : \A bits \in 0..(8 * Len(bytes)) :
    Len(bytes) >= RowBytes(bits) =>
      LET r == WriteRow(b, y, bytes, bits) IN
      /\ WellShaped(r.val)
      /\ (y = b.h => r.out = "out_of_range" /\ r.val = b)
      /\ (y < b.h => /\ \A o \in Coords(b) : o[2] # y => Pixel(r.val, o[1], o[2]) = Pixel(b, o[1], o[2])
                     /\ \A x \in 0..(b.w - 1) : x < 8 * Min(RowBytes(bits), RowBytes(b.w)) =>
                          Pixel(r.val, x, y) = Bit(bytes[(x \div 8) + 1], 7 - (x % 8)))
=============================================================================
