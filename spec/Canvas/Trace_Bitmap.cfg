SPECIFICATION Spec
INVARIANT Done
