---------------------------- MODULE Trace_Canvas ----------------------------
(* Trace validation for C07: every recorded canvas operation must be the step the per-pixel model allows from the
   canvases reached so far (the whole pixel buffer is logged after each call). *)
EXTENDS Canvas, TLC, Json, IOUtils
Tr == ndJsonDeserialize(IOEnv.TRACE)
VARIABLES l, dst, src, msk
vars == <<l, dst, src, msk>>
Bad(why) == PrintT("BAD " \o ToJson([l |-> l, why |-> why]))
Chk(cond, why) == IF cond THEN TRUE ELSE Bad(why)
Empty == [w |-> 0, h |-> 0, alpha |-> FALSE, px |-> <<>>]
Init == l = 1 /\ dst = Empty /\ src = Empty /\ msk = Empty
Mk(ev) == [w |-> ev.w, h |-> ev.h, alpha |-> ev.alpha = 1, px |-> ev.px]
Keep == UNCHANGED <<src, msk>>
Ok(ev) == ev.out = "ok"

(* an operation on dst whose result the model predicts *)
Expect(ev, exp, why) ==
  /\ Chk(Ok(ev), why \o ": threw " \o ev.out)
  /\ Chk(ev.px = exp.px, why \o ": pixels differ from the per-pixel model")
  /\ dst' = [dst EXCEPT !.px = ev.px] /\ Keep

Step(ev) ==
  CASE ev.e = "Reset" -> dst' = Empty /\ src' = Empty /\ msk' = Empty
    [] ev.e = "new" -> (CASE ev.which = "dst" -> dst' = Mk(ev) /\ Keep
                          [] ev.which = "src" -> src' = Mk(ev) /\ UNCHANGED <<dst, msk>>
                          [] ev.which = "mask" -> msk' = Mk(ev) /\ UNCHANGED <<dst, src>>)
    [] ev.e = "write" ->
         IF In(dst, ev.x, ev.y)
           THEN Expect(ev, [dst EXCEPT !.px[Idx(dst, ev.x, ev.y)] = Store(dst, ev.c)], "write_pixel")
           ELSE /\ Chk(ev.out = "out_of_range" /\ ev.px = dst.px, "write_pixel outside the canvas must throw out_of_range and change nothing")
                /\ dst' = [dst EXCEPT !.px = ev.px] /\ Keep
    [] ev.e = "read" ->
         /\ IF In(dst, ev.x, ev.y) THEN Chk(Ok(ev) /\ ev.c = At(dst, ev.x, ev.y), "read_pixel")
            ELSE Chk(ev.out = "out_of_range", "read_pixel outside the canvas must throw out_of_range")
         /\ UNCHANGED <<dst, src, msk>>
    [] ev.e = "fill" -> Expect(ev, FillRect(dst, ev.x, ev.y, ev.w, ev.h, ev.c), "fill_rect")
    [] ev.e = "textbg" ->     \* text without glyph cells: exactly the 1 x 9 background column closing each of its lines
         LET RECURSIVE Cols(_, _)
             Cols(cv, k) == IF k = 0 THEN cv ELSE FillRect(Cols(cv, k - 1), ev.x - 1, ev.y - 1 + 8 * (k - 1), 1, 9, ev.c) IN
         Expect(ev, Cols(dst, ev.lines), "draw_text of a text without glyphs (background columns)")
    [] ev.e = "blit" ->
         LET a == ev.a
             exp == CASE ev.op = "blit" -> BlitWith(dst, src, a[1], a[2], a[3], a[4], a[5], a[6], RBlit)
                      [] ev.op = "blend" -> BlitWith(dst, src, a[1], a[2], a[3], a[4], a[5], a[6], RBlend)
                      [] ev.op = "blenda" -> BlitWith(dst, src, a[1], a[2], a[3], a[4], a[5], a[6], LAMBDA d, s, SX, SY : RBlendA(ev.alpha, d, s))
                      [] ev.op = "custom" -> BlitWith(dst, src, a[1], a[2], a[3], a[4], a[5], a[6], RCustom)
                      [] ev.op = "maskc" -> BlitWith(dst, src, a[1], a[2], a[3], a[4], a[5], a[6], LAMBDA d, s, SX, SY : IF Rgb(s) # ev.c THEN s ELSE d)
                      [] ev.op = "maskd" -> BlitWith(dst, src, a[1], a[2], a[3], a[4], a[5], a[6], LAMBDA d, s, SX, SY : IF Rgb(d) = ev.c THEN s ELSE d)
                      [] ev.op = "maski" -> BlitWith(dst, src, a[1], a[2], a[3], a[4], a[5], a[6],
                                                     LAMBDA d, s, SX, SY : IF In(msk, SX, SY) /\ Rgb(At(msk, SX, SY)) = <<255, 255, 255>> THEN d ELSE s) IN
         IF ev.op = "maski" /\ \E p \in Touched(dst, src, a[1], a[2], a[3], a[4], a[5], a[6]) : ~In(msk, p[1], p[2])
           THEN /\ Chk(ev.out = "runtime_error" /\ ev.px = dst.px, "mask_blit with a mask that does not cover the copied area must refuse without drawing")
                /\ dst' = [dst EXCEPT !.px = ev.px] /\ Keep
           ELSE Expect(ev, exp, ev.op)
    [] ev.e = "dash" -> Expect(ev, DashLine(dst, ev.horizontal = 1, ev.a1, ev.a2, ev.fixed, ev.dash, ev.c), "dashed line")
    [] ev.e = "line" ->
         /\ Chk(Ok(ev), "draw_line threw")
         /\ Chk(LineOk(dst, [dst EXCEPT !.px = ev.px], ev.x0, ev.y0, ev.x1, ev.y1, ev.c),
                "draw_line: not a connected path of max(|dx|,|dy|)+1 pixels through both ends, or a pixel off the ideal segment")
         /\ dst' = [dst EXCEPT !.px = ev.px] /\ Keep
    [] ev.e = "xform" ->
         (CASE ev.op = "reverse_h" -> Expect(ev, ReverseH(dst), "reverse_horizontal")
            [] ev.op = "reverse_v" -> Expect(ev, ReverseV(dst), "reverse_vertical")
            [] ev.op = "invert" -> Expect(ev, Invert(dst), "invert")
            [] ev.op = "identity" -> Expect(ev, dst, ev.what)     \* mirror twice, invert twice, add-then-drop alpha, widen-then-narrow, copy
            [] ev.op = "add_alpha" -> /\ Chk(Ok(ev) /\ ev.px = dst.px, "set_has_alpha(true) must keep colours and make every pixel opaque")
                                      /\ dst' = [dst EXCEPT !.px = ev.px, !.alpha = TRUE] /\ Keep
            [] ev.op = "drop_alpha" -> /\ Chk(Ok(ev) /\ ev.px = [i \in DOMAIN dst.px |-> <<dst.px[i][1], dst.px[i][2], dst.px[i][3], 255>>],
                                              "set_has_alpha(false) must keep colours")
                                       /\ dst' = [dst EXCEPT !.px = ev.px, !.alpha = FALSE] /\ Keep
            [] ev.op = "widen16" -> /\ Chk(Ok(ev) /\ ev.px = [i \in DOMAIN dst.px |-> [k \in 1..4 |-> dst.px[i][k] * 257]],
                                           "set_channel_width(16) must replicate each 8-bit channel into both bytes")
                                    /\ UNCHANGED <<dst, src, msk>>)
    [] ev.e = "clipinv" ->     \* drawing on the canvas equals drawing on a canvas enlarged by m on every side and cropping
         /\ Chk(Ok(ev), ev.op \o " threw")
         /\ Chk(ev.small = Crop([w |-> ev.w + 2 * ev.m, h |-> ev.h + 2 * ev.m, px |-> ev.big], ev.m, ev.w, ev.h),
                ev.op \o " is not clipping-invariant")
         /\ UNCHANGED <<dst, src, msk>>
    [] OTHER -> Bad("no specification action for event " \o ev.e) /\ UNCHANGED <<dst, src, msk>>
Next == l <= Len(Tr) /\ l' = l + 1 /\ Step(Tr[l])
Spec == Init /\ [][Next]_vars
Done == (l = Len(Tr) + 1) => PrintT("TRACE-DONE " \o ToString(Len(Tr)))
=============================================================================
