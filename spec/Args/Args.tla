-------------------------------- MODULE Args --------------------------------
(***************************************************************************)
(* Command-line argument classification and typed getters of                *)
(* phosg::Arguments (property C17).  Tokens, names and texts are byte       *)
(* sequences.  Integer magnitudes are unbounded naturals represented as     *)
(* base-256 digit sequences (most significant first, no leading zeros), so  *)
(* "fits the requested type" is decided without any wrap-around.            *)
(***************************************************************************)
EXTENDS Integers, Sequences

(* ---- classification ------------------------------------------------------ *)
DASH == 45
EQ == 61
RECURSIVE IndexOf(_, _, _)
IndexOf(s, b, from) == IF from > Len(s) THEN 0 ELSE IF s[from] = b THEN from ELSE IndexOf(s, b, from + 1)

(* one token -> <<positionals, named items>>; a named item is <<name, value>> *)
ClassifyToken(t) ==
  IF t = <<>> \/ t[1] # DASH \/ Len(t) = 1 THEN [pos |-> <<t>>, named |-> <<>>]
  ELSE IF t[2] = DASH
    THEN IF Len(t) = 2 THEN [pos |-> <<t>>, named |-> <<>>]
         ELSE LET e == IndexOf(t, EQ, 3) IN
              IF e = 0 THEN [pos |-> <<>>, named |-> << <<SubSeq(t, 3, Len(t)), <<>>>> >>]
              ELSE [pos |-> <<>>, named |-> << <<SubSeq(t, 3, e - 1), SubSeq(t, e + 1, Len(t))>> >>]
    ELSE [pos |-> <<>>, named |-> [i \in 1..(Len(t) - 1) |-> << <<t[i + 1]>>, <<>> >>]]

RECURSIVE Classify(_)
Classify(tokens) ==
  IF tokens = <<>> THEN [pos |-> <<>>, named |-> <<>>]
  ELSE LET a == ClassifyToken(Head(tokens)) b == Classify(Tail(tokens))
       IN  [pos |-> a.pos \o b.pos, named |-> a.named \o b.named]

ValuesOf(named, name) == LET sel == SelectSeq(named, LAMBDA it : it[1] = name) IN [i \in DOMAIN sel |-> sel[i][2]]
IndicesOf(named, name) == {i \in DOMAIN named : named[i][1] = name}

(* ---- integer numerals ------------------------------------------------------ *)
IsSpace(b) == b \in {32, 9, 10, 11, 12, 13}
DigitVal(b) == IF b >= 48 /\ b <= 57 THEN b - 48
               ELSE IF b >= 97 /\ b <= 122 THEN b - 87
               ELSE IF b >= 65 /\ b <= 90 THEN b - 55 ELSE 99
RECURSIVE SkipSpaces(_, _)
SkipSpaces(s, i) == IF i <= Len(s) /\ IsSpace(s[i]) THEN SkipSpaces(s, i + 1) ELSE i

(* magnitude arithmetic on base-256 digit sequences *)
RECURSIVE MulAddLE(_, _, _)
MulAddLE(le, m, carry) ==     \* little-endian digits * m + carry
  IF le = <<>> THEN (IF carry = 0 THEN <<>> ELSE <<carry % 256>> \o MulAddLE(<<>>, m, carry \div 256))
  ELSE LET x == Head(le) * m + carry IN <<x % 256>> \o MulAddLE(Tail(le), m, x \div 256)
Rev(s) == [i \in 1..Len(s) |-> s[Len(s) + 1 - i]]
MulAdd(mag, m, a) == Rev(MulAddLE(Rev(mag), m, a))
RECURSIVE Accumulate(_, _, _, _)
Accumulate(s, i, base, mag) ==   \* consume digits valid in `base` from position i; returns <<mag, next index>>
  IF i <= Len(s) /\ DigitVal(s[i]) < base THEN Accumulate(s, i + 1, base, MulAdd(mag, base, DigitVal(s[i])))
  ELSE <<mag, i>>

(* fmt: "default" (C prefixes), "hex", "dec", "oct".  Result: [ok, neg, mag] ; ok = complete numeral *)
ParseNumeral(text, fmt) ==
  LET i0 == SkipSpaces(text, 1)
      hasSign == i0 <= Len(text) /\ text[i0] \in {43, 45}
      neg == hasSign /\ text[i0] = 45
      i1 == IF hasSign THEN i0 + 1 ELSE i0
      has0x == i1 + 2 <= Len(text) /\ text[i1] = 48 /\ text[i1 + 1] \in {120, 88} /\ DigitVal(text[i1 + 2]) < 16
      base == CASE fmt = "hex" -> 16 [] fmt = "dec" -> 10 [] fmt = "oct" -> 8
                [] OTHER -> IF has0x THEN 16 ELSE IF i1 <= Len(text) /\ text[i1] = 48 THEN 8 ELSE 10
      i2 == IF base = 16 /\ has0x THEN i1 + 2 ELSE i1
      acc == Accumulate(text, i2, base, <<>>)
  IN  [ok |-> acc[2] > i2 /\ acc[2] = Len(text) + 1, neg |-> neg, mag |-> acc[1]]

Zeros(k) == [i \in 1..k |-> 0]
(* does +-mag fit an integer type of `bits` bits? *)
FitsType(bits, signed, neg, mag) ==
  LET n == bits \div 8 IN
  IF ~signed THEN (neg => mag = <<>>) /\ Len(mag) <= n
  ELSE \/ Len(mag) < n
       \/ Len(mag) = n /\ mag[1] < 128
       \/ neg /\ Len(mag) = n /\ mag = <<128>> \o Zeros(n - 1)
Below2p63(mag) == Len(mag) < 8 \/ (Len(mag) = 8 /\ mag[1] < 128)

(* two's complement pattern of +-mag in n bytes (mag shorter than or equal to n bytes) *)
Pad(mag, n) == Zeros(n - Len(mag)) \o mag
RECURSIVE IncLE(_)
IncLE(le) == IF le = <<>> THEN <<>> ELSE IF Head(le) = 255 THEN <<0>> \o IncLE(Tail(le)) ELSE <<Head(le) + 1>> \o Tail(le)
Negate(bytes) == Rev(IncLE(Rev([i \in DOMAIN bytes |-> 255 - bytes[i]])))
Pattern(neg, mag, n) == IF neg /\ mag # <<>> THEN Negate(Pad(mag, n)) ELSE Pad(mag, n)

(* outcome of an integer getter on a present argument: "value" with the pattern, "invalid_argument",
   or "any" where the property leaves 64-bit targets unconstrained (magnitude >= 2^63) *)
IntOutcome(text, fmt, bits, signed) ==
  LET p == ParseNumeral(text, fmt) IN
  IF ~p.ok THEN [kind |-> "invalid_argument", pat |-> <<>>]
  ELSE IF bits = 64
    THEN IF Below2p63(p.mag) THEN [kind |-> "value", pat |-> Pattern(p.neg, p.mag, 8)] ELSE [kind |-> "any", pat |-> <<>>]
    ELSE IF FitsType(bits, signed, p.neg, p.mag) THEN [kind |-> "value", pat |-> Pattern(p.neg, p.mag, bits \div 8)]
    ELSE [kind |-> "invalid_argument", pat |-> <<>>]

(* ---- floating literals (decimal grammar; value to 9 significant digits) ---------- *)
IsDigit(b) == b >= 48 /\ b <= 57
RECURSIVE DigitsFrom(_, _)
DigitsFrom(s, i) == IF i <= Len(s) /\ IsDigit(s[i]) THEN <<s[i] - 48>> \o DigitsFrom(s, i + 1) ELSE <<>>
Lower(b) == IF b >= 65 /\ b <= 90 THEN b + 32 ELSE b
LowerSeq(s) == [i \in DOMAIN s |-> Lower(s[i])]
RECURSIVE StripLeadingZeros(_)
StripLeadingZeros(d) == IF d # <<>> /\ Head(d) = 0 THEN StripLeadingZeros(Tail(d)) ELSE d
RECURSIVE ToInt(_, _)
ToInt(d, acc) == IF d = <<>> THEN acc ELSE ToInt(Tail(d), IF acc > 100000 THEN acc ELSE acc * 10 + Head(d))

(* [ok, special, neg, digits(9), exp10] *)
ParseFloat(text) ==
  LET i0 == SkipSpaces(text, 1)
      hasSign == i0 <= Len(text) /\ text[i0] \in {43, 45}
      neg == hasSign /\ text[i0] = 45
      i1 == IF hasSign THEN i0 + 1 ELSE i0
      rest == LowerSeq(SubSeq(text, i1, Len(text)))
      ip == DigitsFrom(text, i1)
      i2 == i1 + Len(ip)
      hasDot == i2 <= Len(text) /\ text[i2] = 46
      fp == IF hasDot THEN DigitsFrom(text, i2 + 1) ELSE <<>>
      i3 == IF hasDot THEN i2 + 1 + Len(fp) ELSE i2
      mantOk == Len(ip) + Len(fp) > 0
      hasE == mantOk /\ i3 <= Len(text) /\ text[i3] \in {101, 69}
      eSign == hasE /\ i3 + 1 <= Len(text) /\ text[i3 + 1] \in {43, 45}
      i4 == IF eSign THEN i3 + 2 ELSE i3 + 1
      ed == IF hasE THEN DigitsFrom(text, i4) ELSE <<>>
      expOk == hasE /\ ed # <<>>
      endIdx == IF expOk THEN i4 + Len(ed) ELSE i3      \* "1e" : the exponent is not consumed
      e == IF expOk THEN (IF eSign /\ text[i3 + 1] = 45 THEN 0 - ToInt(ed, 0) ELSE ToInt(ed, 0)) ELSE 0
      all == ip \o fp
      sig == StripLeadingZeros(all)
      lead == Len(all) - Len(sig)
      d9 == [i \in 1..9 |-> IF i <= Len(sig) THEN sig[i] ELSE 0]
  IN  IF rest \in {<<105, 110, 102>>, <<105, 110, 102, 105, 110, 105, 116, 121>>, <<110, 97, 110>>}
        THEN [ok |-> TRUE, special |-> TRUE, neg |-> neg, digits |-> <<>>, exp |-> 0, exact |-> FALSE]
      ELSE IF ~mantOk \/ endIdx # Len(text) + 1
        THEN [ok |-> FALSE, special |-> FALSE, neg |-> neg, digits |-> <<>>, exp |-> 0, exact |-> FALSE]
      ELSE [ok |-> TRUE, special |-> FALSE, neg |-> neg, digits |-> d9,
            exp |-> IF sig = <<>> THEN 0 ELSE e + Len(ip) - 1 - lead,
            exact |-> Len(sig) <= 9]     \* value checked only when 9 digits represent the literal exactly
=============================================================================
