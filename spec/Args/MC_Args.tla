------------------------------ MODULE MC_Args ------------------------------
(* Laws of the reference definitions of C17 in small scope. *)
EXTENDS Args, TLC, FiniteSets
CONSTANTS MaxLen, NMax
Tokens == {<<45>>, <<45,45>>, <<45,45,97>>, <<45,45,97,61,49>>, <<45,97,98>>, <<120>>, <<>>, <<45,45,61,122>>, <<45,118,118>>}
VARIABLES toks, n
vars == <<toks, n>>
Init == toks = <<>> /\ n = 0 - NMax
Next == \/ Len(toks) < MaxLen /\ \E t \in Tokens : toks' = Append(toks, t) /\ n' = n
        \/ n < NMax /\ n' = n + 1 /\ toks' = toks
Spec == Init /\ [][Next]_vars

IsPosShape(t) == t = <<>> \/ t[1] # DASH \/ t = <<DASH>> \/ t = <<DASH, DASH>>
NamedCount(t) == IF IsPosShape(t) THEN 0 ELSE IF t[2] = DASH THEN 1 ELSE Len(t) - 1
RECURSIVE SumNamed(_)
SumNamed(ts) == IF ts = <<>> THEN 0 ELSE NamedCount(Head(ts)) + SumNamed(Tail(ts))
(* every token is classified exactly once and in order *)
EachTokenOnce == LET c == Classify(toks) IN
                   /\ c.pos = SelectSeq(toks, IsPosShape)
                   /\ Len(c.named) = SumNamed(toks)
                   /\ \A i \in DOMAIN c.named : c.named[i][1] # <<DASH>> \/ TRUE

(* numerals: rendering n in a base and parsing it back gives n iff it fits *)
RECURSIVE DigitsOf(_, _)
DigitsOf(m, base) == IF m < base THEN <<m>> ELSE DigitsOf(m \div base, base) \o <<m % base>>
Ch(d) == IF d < 10 THEN 48 + d ELSE 87 + d
Render(m, base) == LET a == IF m < 0 THEN 0 - m ELSE m
                       ds == DigitsOf(a, base) IN
                   (IF m < 0 THEN <<45>> ELSE <<>>) \o
                   (IF base = 16 THEN <<48, 120>> ELSE IF base = 8 THEN <<48>> ELSE <<>>) \o [i \in DOMAIN ds |-> Ch(ds[i])]
Pat16(m) == LET u == IF m < 0 THEN 65536 + m ELSE m IN <<u \div 256, u % 256>>
Pat8(m) == LET u == IF m < 0 THEN 256 + m ELSE m IN <<u>>
NumeralLaw == \A base \in {8, 10, 16} :
   LET t == Render(n, base)
       o8s == IntOutcome(t, "default", 8, TRUE) o8u == IntOutcome(t, "default", 8, FALSE)
       o16s == IntOutcome(t, "default", 16, TRUE) o16u == IntOutcome(t, "default", 16, FALSE) IN
   /\ IF n >= -128 /\ n <= 127 THEN o8s.kind = "value" /\ o8s.pat = Pat8(n) ELSE o8s.kind = "invalid_argument"
   /\ IF n >= 0 /\ n <= 255 THEN o8u.kind = "value" /\ o8u.pat = Pat8(n) ELSE o8u.kind = "invalid_argument"
   /\ o16s.kind = "value" /\ o16s.pat = Pat16(n)
   /\ IF n >= 0 THEN o16u.kind = "value" /\ o16u.pat = Pat16(n) ELSE o16u.kind = "invalid_argument"
   /\ IntOutcome(t \o <<32>>, "default", 16, TRUE).kind = "invalid_argument"      \* trailing garbage
   /\ IntOutcome(<<32>> \o t, "default", 16, TRUE).kind = "value"                 \* leading blanks belong to the numeral
FloatLaw == /\ ParseFloat(<<49, 46, 53>>).ok /\ ParseFloat(<<49, 46, 53>>).digits = <<1, 5, 0, 0, 0, 0, 0, 0, 0>>
            /\ ParseFloat(<<49, 101>>).ok = FALSE /\ ParseFloat(<<46>>).ok = FALSE /\ ParseFloat(<<>>).ok = FALSE
            /\ ParseFloat(<<50, 46, 53, 101, 51>>).exp = 3 /\ ParseFloat(<<48, 46, 48, 53>>).exp = -2
            /\ ParseFloat(<<45, 105, 110, 102>>).special
=============================================================================
