SPECIFICATION Spec
INVARIANT Done
