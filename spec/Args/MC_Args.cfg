SPECIFICATION Spec
CONSTANTS
  MaxLen = 3
  NMax = 300
INVARIANTS EachTokenOnce NumeralLaw FloatLaw
