----------------------------- MODULE Trace_Args -----------------------------
(* Trace validation for C17: classification of token lists, typed getters, used-flag bookkeeping. *)
EXTENDS Args, TLC, Json, IOUtils, FiniteSets
Tr == ndJsonDeserialize(IOEnv.TRACE)
VARIABLES l, pos, named      \* pos: seq of [text, used]; named: seq of [name, text, used] in command-line order
vars == <<l, pos, named>>
Bad(why) == PrintT("BAD " \o ToJson([l |-> l, why |-> why]))
Chk(cond, why) == IF cond THEN TRUE ELSE Bad(why)
ChkAll(S, P(_), why) == LET f == {i \in S : ~P(i)} IN IF f = {} THEN TRUE ELSE Bad(why \o " [failing indices " \o ToString(f) \o "]")
Init == l = 1 /\ pos = <<>> /\ named = <<>>

ToSet(s) == {s[i] : i \in DOMAIN s}
Idx(name) == {i \in DOMAIN named : named[i].name = name}
Vals(name) == LET sel == SelectSeq(named, LAMBDA it : it.name = name) IN [i \in DOMAIN sel |-> sel[i].text]
MarkNamed(S) == [i \in DOMAIN named |-> IF i \in S THEN [named[i] EXCEPT !.used = TRUE] ELSE named[i]]
MarkPos(k) == [i \in DOMAIN pos |-> IF i = k THEN [pos[i] EXCEPT !.used = TRUE] ELSE pos[i]]
(* the first k occurrences of a name *)
FirstK(name, k) == {i \in Idx(name) : Cardinality({j \in Idx(name) : j <= i}) <= k}

(* observed used flags: upos = [0/1...], unamed = [[name, [flags...]]...] *)
FlagsOk(ev, p, n) ==
  /\ ev.upos = [i \in DOMAIN p |-> IF p[i].used THEN 1 ELSE 0]
  /\ \A i \in DOMAIN ev.unamed :
        LET sel == SelectSeq(n, LAMBDA it : it.name = ev.unamed[i][1]) IN
        ev.unamed[i][2] = [j \in DOMAIN sel |-> IF sel[j].used THEN 1 ELSE 0]

New(ev) ==
  LET c == Classify(ev.tokens) IN
  /\ Chk(ev.pos = c.pos, "positional arguments are not the tokens of positional shape, in order")
  /\ Chk(/\ {ev.named[i][1] : i \in DOMAIN ev.named} = {c.named[i][1] : i \in DOMAIN c.named}
         /\ \A i \in DOMAIN ev.named : ev.named[i][2] = ValuesOf(c.named, ev.named[i][1]),
         "options/flags are not classified exactly once and in order")
  /\ pos' = [i \in DOMAIN c.pos |-> [text |-> c.pos[i], used |-> FALSE]]
  /\ named' = [i \in DOMAIN c.named |-> [name |-> c.named[i][1], text |-> c.named[i][2], used |-> FALSE]]

(* the single present argument a getter refers to: [present, text, pos', named'] *)
Lookup(ev) ==
  IF ev.by = "name"
    THEN IF Cardinality(Idx(ev.name)) = 1
           THEN [present |-> TRUE, text |-> Vals(ev.name)[1], p |-> pos, n |-> MarkNamed(Idx(ev.name))]
           ELSE [present |-> FALSE, text |-> <<>>, p |-> pos, n |-> named]
    ELSE IF ev.pos + 1 \in DOMAIN pos
           THEN [present |-> TRUE, text |-> pos[ev.pos + 1].text, p |-> MarkPos(ev.pos + 1), n |-> named]
           ELSE [present |-> FALSE, text |-> <<>>, p |-> pos, n |-> named]

Finish(ev, p, n) == Chk(FlagsOk(ev, p, n), "used flags after the call") /\ pos' = p /\ named' = n

GetStr(ev) ==
  LET k == Lookup(ev) IN
  /\ IF k.present THEN Chk(ev.out = "ok" /\ ev.ret = k.text, "string getter: value of the supplied argument")
     ELSE IF ev.throw = 1 THEN Chk(ev.out = "out_of_range", "string getter: absent argument must throw out_of_range")
     ELSE Chk(ev.out = "ok" /\ ev.ret = <<>>, "string getter: absent argument yields the empty default")
  /\ Finish(ev, k.p, k.n)
GetBool(ev) ==
  LET k == Lookup(ev) IN
  Chk(ev.out = "ok" /\ ev.ret = (IF k.present THEN 1 ELSE 0), "bool getter") /\ Finish(ev, k.p, k.n)
GetInt(ev) ==
  LET k == Lookup(ev)
      o == IntOutcome(k.text, ev.fmt, ev.bits, ev.signed = 1) IN
  /\ IF k.present
       THEN CASE o.kind = "value" -> Chk(ev.out = "ok" /\ ev.ret = o.pat,
                                         "integer getter: complete numeral that fits must return its value")
              [] o.kind = "invalid_argument" -> Chk(ev.out = "invalid_argument",
                                         "integer getter: incomplete numeral or value outside the type must throw invalid_argument")
              [] OTHER -> TRUE
       ELSE IF ev.hasdef = 1 THEN Chk(ev.out = "ok" /\ ev.ret = ev.def, "integer getter: absent argument yields the supplied default")
       ELSE Chk(ev.out = "out_of_range", "integer getter: absent argument must throw out_of_range")
  /\ Finish(ev, k.p, k.n)
(* decimal literals with their correctly rounded double (IEEE 754 bit pattern, most significant byte first), derived
   with exact rational arithmetic: the first three lie just past the midpoint of two adjacent doubles, the fourth exactly
   on one (ties to even) - a conversion that rounds twice (through a wider or narrower type) gets them wrong *)
ExactDoubles == <<
  <<<<57, 48, 48, 55, 49, 57, 57, 50, 53, 52, 55, 52, 48, 57, 57, 51, 46, 48, 48, 48, 49>>, <<67, 64, 0, 0, 0, 0, 0, 1>>>>,
  <<<<49, 56, 52, 52, 54, 55, 52, 52, 48, 55, 51, 55, 48, 57, 53, 53, 51, 54, 54, 53>>, <<67, 240, 0, 0, 0, 0, 0, 1>>>>,
  <<<<49, 46, 48, 48, 48, 48, 48, 48, 48, 48, 48, 48, 48, 48, 48, 48, 48, 49, 49, 49, 48, 50, 50, 51, 48, 50, 52, 54, 50, 53, 49, 53, 54, 53, 52, 48, 52, 50, 51, 54, 51, 49, 54, 54, 56, 48, 57, 48, 56, 50, 48, 51, 49, 50, 54>>, <<63, 240, 0, 0, 0, 0, 0, 1>>>>,
  <<<<57, 48, 48, 55, 49, 57, 57, 50, 53, 52, 55, 52, 48, 57, 57, 51>>, <<67, 64, 0, 0, 0, 0, 0, 0>>>>,
  <<<<48, 46, 49>>, <<63, 185, 153, 153, 153, 153, 153, 154>>>>,
  <<<<49, 46, 53>>, <<63, 248, 0, 0, 0, 0, 0, 0>>>>,
  <<<<49, 101, 53>>, <<64, 248, 106, 0, 0, 0, 0, 0>>>> >>
ExactBitsOk(ev, text) ==
  LET S == {i \in DOMAIN ExactDoubles : ExactDoubles[i][1] = text} IN
  S = {} \/ ev.dbl = 0 \/ ev.fbits = ExactDoubles[CHOOSE i \in S : TRUE][2]
FloatValueOk(ev, f) ==
  IF f.special \/ ~f.exact \/ ev.dbl = 0 \/ f.exp > 300 \/ f.exp < -300 THEN TRUE      \* outside the normal double range only the outcome is fixed
  ELSE /\ ev.fneg = (IF f.neg THEN 1 ELSE 0)
       /\ ev.fdigits = f.digits
       /\ (f.digits # [i \in 1..9 |-> 0] => ev.fexp = f.exp)
GetFloat(ev) ==
  LET k == Lookup(ev)
      f == ParseFloat(k.text) IN
  /\ IF k.present
       THEN IF f.ok THEN /\ Chk(ev.out = "ok" /\ FloatValueOk(ev, f), "float getter: complete literal must return its value")
                         /\ Chk(ev.out # "ok" \/ ExactBitsOk(ev, k.text), "float getter: not the double nearest to the decimal literal")
            ELSE Chk(ev.out = "invalid_argument" \/ ev.hexfloat = 1, "float getter: incomplete literal must throw invalid_argument")
       ELSE IF ev.hasdef = 1 THEN Chk(ev.out = "ok" /\ ev.isdef = 1, "float getter: absent argument yields the default")
       ELSE Chk(ev.out = "out_of_range", "float getter: absent argument must throw out_of_range")
  /\ Finish(ev, k.p, k.n)
MultiStr(ev) ==
  /\ Chk(ev.out = "ok" /\ ev.ret = Vals(ev.name), "get_multi<string>: all values in order")
  /\ Finish(ev, pos, MarkNamed(Idx(ev.name)))
RECURSIVE FirstBad(_, _, _, _, _)
FirstBad(vals, i, fmt, bits, signed) ==     \* index of the first value whose integer outcome is a rejection, or 0
  IF i > Len(vals) THEN 0
  ELSE IF IntOutcome(vals[i], fmt, bits, signed).kind = "invalid_argument" THEN i
  ELSE FirstBad(vals, i + 1, fmt, bits, signed)
MultiInt(ev) ==
  LET vals == Vals(ev.name)
      fb == FirstBad(vals, 1, ev.fmt, ev.bits, ev.signed = 1) IN
  IF fb = 0
    THEN /\ Chk(ev.out = "ok" /\ Len(ev.ret) = Len(vals)
                /\ \A i \in DOMAIN vals : LET o == IntOutcome(vals[i], ev.fmt, ev.bits, ev.signed = 1) IN
                                            o.kind = "value" => ev.ret[i] = o.pat,
                "get_multi<int>: all values in order")
         /\ Finish(ev, pos, MarkNamed(Idx(ev.name)))
    ELSE /\ Chk(ev.out = "invalid_argument", "get_multi<int>: a bad value must throw invalid_argument")
         /\ Finish(ev, pos, MarkNamed(FirstK(ev.name, fb - 1)))
Unused(ev) ==
  LET all == (\A i \in DOMAIN pos : pos[i].used) /\ (\A i \in DOMAIN named : named[i].used) IN
  /\ Chk(ev.out = (IF all THEN "ok" ELSE "invalid_argument"),
         "assert_none_unused must throw iff some supplied argument was never read")
  /\ UNCHANGED <<pos, named>>

(* batch of integer texts against one (fmt, bits, signed) *)
Ints(ev) ==
  LET Good(i) == LET o == IntOutcome(ev.texts[i], ev.fmt, ev.bits, ev.signed = 1) IN
                 CASE o.kind = "value" -> ev.outs[i] = 0 /\ ev.rets[i] = o.pat
                   [] o.kind = "invalid_argument" -> ev.outs[i] = 1
                   [] OTHER -> TRUE IN
  /\ ChkAll(DOMAIN ev.texts, Good,
            "integer texts: value iff complete numeral of the base that fits the type, else invalid_argument")
  /\ UNCHANGED <<pos, named>>

Step(ev) ==
  CASE ev.e = "Reset" -> pos' = <<>> /\ named' = <<>>
    [] ev.e = "new" -> New(ev)
    [] ev.e = "str" -> GetStr(ev)
    [] ev.e = "bool" -> GetBool(ev)
    [] ev.e = "int" -> GetInt(ev)
    [] ev.e = "float" -> GetFloat(ev)
    [] ev.e = "mstr" -> MultiStr(ev)
    [] ev.e = "mint" -> MultiInt(ev)
    [] ev.e = "unused" -> Unused(ev)
    [] ev.e = "ints" -> Ints(ev)
    [] OTHER -> Bad("no specification action for event " \o ev.e) /\ UNCHANGED <<pos, named>>
Next == l <= Len(Tr) /\ l' = l + 1 /\ Step(Tr[l])
Spec == Init /\ [][Next]_vars
Done == (l = Len(Tr) + 1) => PrintT("TRACE-DONE " \o ToString(Len(Tr)))
=============================================================================
