---------------------------- MODULE Trace_ByteIO ----------------------------
(***************************************************************************)
(* Trace validation for C01 / C02: each recorded call on the real          *)
(* StringWriter / BufferWriter / BitWriter / StringReader / BitReader       *)
(* (harness/drv_byteio.cc) must be the step the reference semantics of     *)
(* ByteIO allow from the state reached so far.  The specification is the   *)
(* "independent decoder" of C01: values are decoded from the logged bytes  *)
(* by Dec/Extend, never by the C++ code.                                   *)
(***************************************************************************)
EXTENDS ByteIO, TLC, Json, IOUtils

Tr == ndJsonDeserialize(IOEnv.TRACE)
VARIABLES l, host, sw, bw, bits, rd, brd
vars == <<l, host, sw, bw, bits, rd, brd>>
Bad(why) == PrintT("BAD " \o ToJson([l |-> l, why |-> why]))
Chk(cond, why) == IF cond THEN TRUE ELSE Bad(why)

NoReader == [data |-> <<>>, n |-> 0, cur |-> Dig8(0)]
Init == /\ l = 1 /\ host = TRUE /\ sw = <<>> /\ bw = [buf |-> <<>>, cur |-> 0] /\ bits = <<>>
        /\ rd = NoReader /\ brd = [data |-> <<>>, cur |-> 0]

N == rd.n
Cur == rd.cur
Adv(k) == Dig8(Val(Cur) + k)
OK(ev) == ev.out = "ok"
OOR(ev) == ev.out = "out_of_range"

(* ---- writers ------------------------------------------------------------ *)
Put(ev) ==
  LET nb == sw \o Enc(ev.ord, host, ev.v) IN
  /\ Chk(ev.bytes = nb, "append: buffer is not the old buffer followed by the value's encoding in the named order")
  /\ sw' = ev.bytes /\ UNCHANGED <<host, bw, bits, rd, brd>>
PPut(ev) ==
  /\ IF Small(ev.off)
       THEN LET nb == Overwrite(sw, Val(ev.off), Enc(ev.ord, host, ev.v)) IN
            Chk(OK(ev) /\ ev.bytes = nb,
                "positional write: buffer is not zero-extended / overwritten at the offset with the value's encoding")
       ELSE Chk(~OK(ev) /\ ev.bytes = sw, "positional write at an unreachable offset must throw and leave the buffer unchanged")
  /\ sw' = ev.bytes /\ UNCHANGED <<host, bw, bits, rd, brd>>
SWrite(ev) ==
  /\ Chk(ev.bytes = sw \o ev.data, "write: raw block not appended verbatim")
  /\ sw' = ev.bytes /\ UNCHANGED <<host, bw, bits, rd, brd>>
SReset(ev) == Chk(ev.bytes = <<>>, "reset") /\ sw' = <<>> /\ UNCHANGED <<host, bw, bits, rd, brd>>

(* fixed-buffer writer: stores inside its buffer or throws (any exception), buffer untouched when it throws *)
BWStore(ev, off, bytes, moves) ==
  LET cap == Len(bw.buf) IN
  IF Fits(off, Dig8(Len(bytes)), cap)
    THEN /\ Chk(OK(ev) /\ ev.bytes = Overwrite(bw.buf, Val(off), bytes), "fixed-buffer write stored wrong bytes")
         /\ Chk(ev.cur = (IF moves THEN bw.cur + Len(bytes) ELSE bw.cur), "fixed-buffer write: cursor")
    ELSE /\ Chk(~OK(ev), "fixed-buffer write beyond the buffer did not throw")
         /\ Chk(ev.bytes = bw.buf, "fixed-buffer write beyond the buffer modified the buffer")
BWStep(ev) ==
  /\ CASE ev.e = "bwnew"   -> TRUE
       [] ev.e = "bput"    -> BWStore(ev, Dig8(bw.cur), Enc(ev.ord, host, ev.v), TRUE)
       [] ev.e = "bpput"   -> BWStore(ev, ev.off, Enc(ev.ord, host, ev.v), FALSE)
       [] ev.e = "bwrite"  -> BWStore(ev, Dig8(bw.cur), ev.data, TRUE)
       [] ev.e = "bpwrite" -> BWStore(ev, ev.off, ev.data, FALSE)
  /\ bw' = [buf |-> ev.bytes, cur |-> ev.cur] /\ UNCHANGED <<host, sw, bits, rd, brd>>

BitStep(ev) ==
  LET nb == CASE ev.e = "bit" -> Append(bits, ev.b)
              [] ev.e = "bittrunc" -> IF ev.n <= Len(bits) THEN SubSeq(bits, 1, ev.n) ELSE bits
              [] ev.e = "bitreset" -> <<>> IN
  /\ Chk(ev.e = "bittrunc" /\ ev.n > Len(bits) => ~OK(ev), "BitWriter::truncate beyond the end must throw")
  /\ Chk(ev.bytes = PackBits(nb), "bit writer: bytes are not the bits packed MSB-first with zero fill")
  /\ Chk(ev.size = Len(nb), "bit writer: size()")
  /\ bits' = nb /\ UNCHANGED <<host, sw, bw, rd, brd>>

(* ---- reader -------------------------------------------------------------- *)
RNew(ev) ==
  /\ Chk(ev.src = "sw" => ev.data = sw, "reader created over the writer's buffer sees different bytes")
  /\ Chk(ev.src = "bits" => ev.data = PackBits(bits), "reader over the bit writer's buffer")
  /\ rd' = [data |-> ev.data, n |-> Len(ev.data), cur |-> Dig8(0)]
  /\ UNCHANGED <<host, sw, bw, bits, brd>>

(* buffers too large to log: byte i (0-based) = (i * a + (i \div 256) * b + c) mod 256, evaluated here *)
GenData(ev) == [i \in 1..ev.n |-> ((i - 1) * ev.a + ((i - 1) \div 256) * ev.b + ev.c) % 256]
RNewGen(ev) == rd' = [data |-> GenData(ev), n |-> ev.n, cur |-> Dig8(0)] /\ UNCHANGED <<host, sw, bw, bits, brd>>
SwGen(ev) == Chk(ev.size = ev.n, "write of a large block: size()") /\ sw' = GenData(ev) /\ UNCHANGED <<host, bw, bits, rd, brd>>
(* positional write into a large buffer: the logged window around the offset and the size are checked against the
   specification's buffer; ev.same = 1 is the driver's statement that no byte outside the window changed *)
PPutW(ev) ==
  LET nb == Overwrite(sw, ev.off, Enc(ev.ord, host, ev.v)) IN
  /\ Chk(OK(ev), "positional write inside a large buffer threw")
  /\ Chk(ev.size = Len(nb), "positional write inside a large buffer: size()")
  /\ Chk(ev.lo + Len(ev.win) <= Len(nb) /\ ev.win = Slice(nb, ev.lo, Len(ev.win)),
         "positional write at a large offset: the bytes around the offset are not the old bytes overwritten with the value's encoding")
  /\ Chk(ev.same = 1, "positional write at a large offset changed bytes far away from the offset")
  /\ sw' = nb /\ UNCHANGED <<host, bw, bits, rd, brd>>

(* get_line on a buffer too large to log (one fill byte, newlines at ev.nl, possibly a CR at ev.cr right before the first
   newline): the line runs from the cursor to the next newline (or the end), a final CR is not part of the result, the
   cursor moves behind the newline (never behind the end) *)
LineBig(ev) ==
  LET ahead == {p \in {ev.nl[i] : i \in DOMAIN ev.nl} : p >= ev.cur}
      stop == IF ahead = {} THEN ev.n ELSE CHOOSE p \in ahead : \A q \in ahead : p <= q
      raw == stop - ev.cur
      exp == IF raw > 0 /\ ev.cr = stop - 1 THEN raw - 1 ELSE raw
      newcur == IF ev.adv = 1 THEN (IF stop + 1 > ev.n THEN ev.n ELSE stop + 1) ELSE ev.cur IN
  /\ Chk(ev.out = "ok", "get_line inside the data threw")
  /\ Chk(ev.retlen = exp /\ ev.allfill = 1, "get_line: a long line came back truncated, padded or altered")
  /\ Chk(ev.where = newcur, "get_line: cursor after a long line")
  /\ UNCHANGED <<host, sw, bw, bits, rd, brd>>

RdKeep(ev, newcur) ==
  /\ Chk(ev.where = newcur, "cursor after the call")
  /\ rd' = [rd EXCEPT !.cur = ev.where] /\ UNCHANGED <<host, sw, bw, bits, brd>>

Get(ev) ==
  IF Fits(Cur, Dig8(ev.w), N)
    THEN /\ Chk(OK(ev), "in-range typed read threw")
         /\ Chk(ev.ret = Extend(Dec(ev.ord, host, Slice(rd.data, Val(Cur), ev.w)), ev.rw, ev.sx = 1),
                "typed read: value is not the named-order decoding of the bytes at the cursor")
         /\ RdKeep(ev, IF ev.adv = 1 THEN Adv(ev.w) ELSE Cur)
    ELSE Chk(OOR(ev), "typed read beyond the end must throw out_of_range") /\ RdKeep(ev, Cur)
PGet(ev) ==
  /\ IF Fits(ev.off, Dig8(ev.w), N)
       THEN /\ Chk(OK(ev), "in-range positional read threw")
            /\ Chk(ev.ret = Extend(Dec(ev.ord, host, Slice(rd.data, Val(ev.off), ev.w)), ev.rw, ev.sx = 1),
                   "positional read: value is not the named-order decoding of the bytes at the offset")
       ELSE Chk(OOR(ev), "positional read beyond the end must throw out_of_range")
  /\ RdKeep(ev, Cur)

(* get<T>(advance, size) / pget<T>(offset, size) with an explicit span size >= sizeof(T): the value is decoded from the first
   sizeof(T) bytes, the whole span must lie inside the data, the cursor moves over the whole span *)
GSpan(ev) ==
  LET off == IF ev.pos = 1 THEN ev.off ELSE Cur IN
  IF Fits(off, ev.size, N)
    THEN /\ Chk(OK(ev), "in-range read of a span threw")
         /\ Chk(ev.ret = Dec(ev.ord, host, Slice(rd.data, Val(off), ev.w)), "span read: value is not the decoding of the first bytes of the span")
         /\ RdKeep(ev, IF ev.pos = 0 /\ ev.adv = 1 THEN Dig8(Val(Cur) + Val(ev.size)) ELSE Cur)
    ELSE Chk(OOR(ev), "a span that does not lie inside the data must throw out_of_range") /\ RdKeep(ev, Cur)

Read(ev) ==
  LET k == ev.kind
      off == IF k \in {"pread", "preadx", "preadv", "preadxv"} THEN ev.off ELSE Cur
      positional == k \in {"pread", "preadx", "preadv", "preadxv"}
      throwing == k \in {"readx", "preadx", "readxv", "preadxv"}
      quirk == k \in {"readxv", "preadxv"} /\ Small(ev.size) /\ Val(ev.size) = 0   \* void* x-forms reject offset = length
  IN
  IF throwing
    THEN IF Fits(off, ev.size, N)
           THEN /\ Chk((OK(ev) /\ ev.ret = Slice(rd.data, Val(off), Val(ev.size))) \/ (quirk /\ OOR(ev)),
                       "exact read: not exactly the requested slice")
                /\ RdKeep(ev, IF ~positional /\ ev.adv = 1 /\ OK(ev) THEN Adv(Val(ev.size)) ELSE Cur)
           ELSE Chk(OOR(ev), "exact read beyond the end must throw out_of_range") /\ RdKeep(ev, Cur)
    ELSE LET exp == ClampSlice(rd.data, N, off, ev.size) IN
         /\ Chk(OK(ev) /\ ev.ret = exp, "clamping read: not the in-range prefix of the requested slice")
         /\ RdKeep(ev, IF ~positional /\ ev.adv = 1 /\ Len(exp) > 0 THEN Adv(Len(exp)) ELSE Cur)

Skip(ev) ==
  IF Fits(Cur, ev.size, N) THEN Chk(OK(ev), "skip within the data threw") /\ RdKeep(ev, Adv(Val(ev.size)))
  ELSE Chk(OOR(ev), "skip beyond the end must throw out_of_range") /\ RdKeep(ev, Dig8(N))
Go(ev) == RdKeep(ev, ev.off)

CStr(ev) ==
  LET off == IF ev.e = "pcstr" THEN ev.off ELSE Cur
      p == IF Small(off) THEN FindByte(rd.data, N, Val(off) + 1, 0) ELSE 0 IN
  IF p = 0 THEN Chk(OOR(ev), "get_cstr without a terminator must throw out_of_range") /\ RdKeep(ev, Cur)
  ELSE /\ Chk(OK(ev) /\ ev.ret = SubSeq(rd.data, Val(off) + 1, p - 1), "get_cstr: bytes up to the NUL")
       /\ RdKeep(ev, IF ev.e = "cstr" /\ ev.adv = 1 THEN Dig8(p) ELSE Cur)

Line(ev) ==
  IF ~(Small(Cur) /\ Val(Cur) < N) THEN Chk(OOR(ev), "get_line at the end must throw out_of_range") /\ RdKeep(ev, Cur)
  ELSE LET p == FindByte(rd.data, N, Val(Cur) + 1, 10)
           raw == IF p = 0 THEN SubSeq(rd.data, Val(Cur) + 1, N) ELSE SubSeq(rd.data, Val(Cur) + 1, p - 1)
           line == IF raw # <<>> /\ raw[Len(raw)] = 13 THEN SubSeq(raw, 1, Len(raw) - 1) ELSE raw IN
       /\ Chk(OK(ev) /\ ev.ret = line, "get_line: bytes up to the newline (one trailing CR removed)")
       /\ RdKeep(ev, IF ev.adv = 1 THEN Dig8(Min(N, Val(Cur) + Len(raw) + 1)) ELSE Cur)

SkipIf(ev) ==
  IF Within(Cur, N)
    THEN LET k == Len(ev.data)
             hit == N - Val(Cur) >= k /\ Slice(rd.data, Val(Cur), k) = ev.data IN
         /\ Chk(OK(ev) /\ ev.ret = (IF hit THEN 1 ELSE 0), "skip_if result")
         /\ RdKeep(ev, IF hit THEN Adv(k) ELSE Cur)
    ELSE Chk(OOR(ev) \/ (OK(ev) /\ ev.ret = 0), "skip_if with the cursor beyond the end") /\ RdKeep(ev, Cur)

Peek(ev) ==
  /\ IF Fits(Cur, ev.size, N) THEN Chk(OK(ev) /\ ev.ret = Slice(rd.data, Val(Cur), Val(ev.size)), "peek: requested slice")
     ELSE Chk(OOR(ev), "peek beyond the end must throw out_of_range")
  /\ RdKeep(ev, Cur)

Eof(ev) ==
  /\ Chk(ev.ret = (IF Small(Cur) /\ Val(Cur) < N THEN 0 ELSE 1), "eof()")
  /\ Chk(Within(Cur, N) => ev.rem = Dig8(N - Val(Cur)), "remaining()")
  /\ Chk(ev.size = Dig8(N), "size()")
  /\ RdKeep(ev, Cur)

Sub(ev) ==
  LET exp == CASE ev.kind = "sub1"  -> IF Within(ev.off, N) THEN [ok |-> TRUE, d |-> Slice(rd.data, Val(ev.off), N - Val(ev.off))]
                                        ELSE [ok |-> TRUE, d |-> <<>>]
               [] ev.kind = "sub2"  -> [ok |-> TRUE, d |-> ClampSlice(rd.data, N, ev.off, ev.size)]
               [] ev.kind = "subx1" -> IF Within(ev.off, N) THEN [ok |-> TRUE, d |-> Slice(rd.data, Val(ev.off), N - Val(ev.off))]
                                        ELSE [ok |-> FALSE, d |-> <<>>]
               [] ev.kind = "subx2" -> IF Fits(ev.off, ev.size, N) THEN [ok |-> TRUE, d |-> Slice(rd.data, Val(ev.off), Val(ev.size))]
                                        ELSE [ok |-> FALSE, d |-> <<>>] IN
  /\ IF exp.ok
       THEN /\ Chk(OK(ev), "sub-reader within the parent threw")
            /\ Chk(ev.csize = Dig8(Len(exp.d)), "sub-reader size: extends beyond its parent or is not the requested slice")
            /\ Chk(ev.data = exp.d, "sub-reader contents are not the requested slice of the parent")
            /\ Chk(Len(exp.d) > 0 => ev.delta = Val(ev.off), "sub-reader does not start at the requested offset inside the parent")
       ELSE Chk(OOR(ev), "sub-reader beyond the parent must throw out_of_range")
  /\ RdKeep(ev, Cur)

Trunc(ev) ==
  /\ IF Within(ev.n, N) THEN Chk(OK(ev), "truncate to a smaller size threw")
     ELSE Chk(ev.out = "invalid_argument", "truncate cannot extend")
  /\ rd' = [rd EXCEPT !.n = IF Within(ev.n, N) THEN Val(ev.n) ELSE N]
  /\ UNCHANGED <<host, sw, bw, bits, brd>>

(* ---- bit reader ---------------------------------------------------------- *)
BRNew(ev) == brd' = [data |-> ev.data, cur |-> 0] /\ UNCHANGED <<host, sw, bw, bits, rd>>
BRead(ev) ==
  LET off == IF ev.e = "bpread" THEN ev.off ELSE brd.cur IN
  /\ Chk(ev.ret = [i \in 1..ev.size |-> BitOf(brd.data, off + i - 1)], "bit read: bits are not those at the position, MSB first")
  /\ Chk(ev.where = (IF ev.e = "bread" /\ ev.adv = 1 THEN brd.cur + ev.size ELSE brd.cur), "bit read: cursor")
  /\ brd' = [brd EXCEPT !.cur = ev.where] /\ UNCHANGED <<host, sw, bw, bits, rd>>

Step(ev) ==
  CASE ev.e = "Reset" -> /\ host' = (ev.host = "l") /\ sw' = <<>> /\ bw' = [buf |-> <<>>, cur |-> 0] /\ bits' = <<>>
                         /\ rd' = NoReader /\ brd' = [data |-> <<>>, cur |-> 0]
    [] ev.e = "put" -> Put(ev)
    [] ev.e = "pput" -> PPut(ev)
    [] ev.e = "swrite" -> SWrite(ev)
    [] ev.e = "sreset" -> SReset(ev)
    [] ev.e \in {"bwnew", "bput", "bpput", "bwrite", "bpwrite"} -> BWStep(ev)
    [] ev.e \in {"bit", "bittrunc", "bitreset"} -> BitStep(ev)
    [] ev.e = "rnew" -> RNew(ev)
    [] ev.e = "rnewgen" -> RNewGen(ev)
    [] ev.e = "swgen" -> SwGen(ev)
    [] ev.e = "pputw" -> PPutW(ev)
    [] ev.e = "get" -> Get(ev)
    [] ev.e = "pget" -> PGet(ev)
    [] ev.e = "gspan" -> GSpan(ev)
    [] ev.e = "read" -> Read(ev)
    [] ev.e = "skip" -> Skip(ev)
    [] ev.e = "go" -> Go(ev)
    [] ev.e \in {"cstr", "pcstr"} -> CStr(ev)
    [] ev.e = "line" -> Line(ev)
    [] ev.e = "linebig" -> LineBig(ev)
    [] ev.e = "skipif" -> SkipIf(ev)
    [] ev.e = "peek" -> Peek(ev)
    [] ev.e = "eof" -> Eof(ev)
    [] ev.e = "sub" -> Sub(ev)
    [] ev.e = "trunc" -> Trunc(ev)
    [] ev.e = "brnew" -> BRNew(ev)
    [] ev.e \in {"bread", "bpread"} -> BRead(ev)
    [] OTHER -> Bad("no specification action for event " \o ev.e) /\ UNCHANGED <<host, sw, bw, bits, rd, brd>>

Next == l <= Len(Tr) /\ l' = l + 1 /\ Step(Tr[l])
Spec == Init /\ [][Next]_vars
Done == (l = Len(Tr) + 1) => PrintT("TRACE-DONE " \o ToString(Len(Tr)))
=============================================================================
