----------------------------- MODULE MC_ByteIO -----------------------------
(* Small-scope laws of the reference semantics (C01 round trip, C02 bounds):
   a writer history of <= MaxOps typed appends / positional writes over a few
   kinds and byte values, then the laws are evaluated in every state. *)
EXTENDS ByteIO, TLC, FiniteSets
CONSTANTS MaxOps, ByteVals
VARIABLES nops, buf, written    \* written: sequence of <<ord, digits>> appended in order (cleared by a positional write)
vars == <<nops, buf, written>>
Ords == {"b", "l", "n", "r"}
Widths == {1, 2}
Vals(w) == [1..w -> ByteVals]
Init == nops = 0 /\ buf = <<>> /\ written = <<>>
Put(ord, d) == /\ nops < MaxOps /\ nops' = nops + 1
               /\ buf' = buf \o Enc(ord, TRUE, d) /\ written' = Append(written, <<ord, d>>)
PPut(off, ord, d) == /\ nops < MaxOps /\ nops' = nops + 1
                     /\ buf' = Overwrite(buf, off, Enc(ord, TRUE, d)) /\ written' = <<>>
Next == \E w \in Widths, ord \in Ords : \E d \in Vals(w) :
           Put(ord, d) \/ (\E off \in 0..(Len(buf) + 2) : PPut(off, ord, d))
Spec == Init /\ [][Next]_vars

RECURSIVE ReadAll(_, _, _)
ReadAll(b, pos, ws) ==     \* decode the appended values in order; returns <<values, final cursor>>
  IF ws = <<>> THEN <<<<>>, pos>>
  ELSE LET w == Len(ws[1][2])
           v == Dec(ws[1][1], TRUE, Slice(b, pos, w))
           rest == ReadAll(b, pos + w, Tail(ws))
       IN  <<<<v>> \o rest[1], rest[2]>>
RECURSIVE SumW(_)
SumW(ws) == IF ws = <<>> THEN 0 ELSE Len(ws[1][2]) + SumW(Tail(ws))
(* C01: reading the appended kinds in order returns the values, cursor advances by the widths *)
RoundTrip == written # <<>> /\ Len(buf) = SumW(written) =>
               LET r == ReadAll(buf, 0, written) IN
               r[1] = [i \in 1..Len(written) |-> written[i][2]] /\ r[2] = Len(buf)
DecEnc == \A ord \in Ords, hl \in BOOLEAN : \A d \in Vals(2) \cup Vals(3) : Dec(ord, hl, Enc(ord, hl, d)) = d
BigIsRevLittle == \A d \in Vals(3) : Enc("b", TRUE, d) = Rev(Enc("l", TRUE, d)) /\ Enc("n", TRUE, d) = Enc("l", TRUE, d)
                                    /\ Enc("r", TRUE, d) = Enc("b", TRUE, d) /\ Enc("n", FALSE, d) = Enc("b", FALSE, d)
SignExt == \A d \in Vals(3) : LET e == Extend(d, 4, TRUE) IN
              SubSeq(e, 2, 4) = d /\ e[1] = (IF d[1] >= 128 THEN 255 ELSE 0) /\ Extend(d, 4, FALSE)[1] = 0
(* C02: every slice the reference hands out lies inside the data; huge operands never fit *)
Boundary == {Dig8(0), Dig8(1), Dig8(Len(buf)), Dig8(Len(buf) + 1), <<128, 0, 0, 0, 0, 0, 0, 0>>,
             <<255, 255, 255, 255, 255, 255, 255, 255>>, <<255, 255, 255, 255, 255, 255, 255, 254>>,
             <<0, 0, 0, 1, 0, 0, 0, 0>>, <<0, 0, 0, 0, 128, 0, 0, 0>>}
InBounds == \A off \in Boundary, size \in Boundary :
              LET c == ClampSlice(buf, Len(buf), off, size) IN
              /\ Len(c) <= Len(buf)
              /\ (c # <<>> => Small(off) /\ Val(off) + Len(c) <= Len(buf) /\ c = SubSeq(buf, Val(off) + 1, Val(off) + Len(c)))
              /\ (Fits(off, size, Len(buf)) => Small(off) /\ Small(size) /\ Val(off) + Val(size) <= Len(buf))
              /\ (~Small(off) \/ ~Small(size) => ~Fits(off, size, Len(buf)))
PackLaw == \A b \in [1..3 -> {0, 1}] : LET p == PackBits(b) IN Len(p) = 1 /\ \A i \in 0..2 : BitOf(p, i) = b[i + 1]
=============================================================================
