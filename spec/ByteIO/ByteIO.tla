------------------------------- MODULE ByteIO -------------------------------
(***************************************************************************)
(* Reference semantics of phosg's typed binary writers and readers         *)
(* (StringWriter, BufferWriter, BitWriter, StringReader, BitReader):       *)
(* properties C01 (round trip, exact byte layout) and C02 (bounds).        *)
(*                                                                         *)
(* Representation.  A byte string is a sequence over 0..255.  A scalar of  *)
(* w bytes is the sequence of its bytes most significant first (two's      *)
(* complement / IEEE-754 bit pattern): the "digits".  A size_t (offset,    *)
(* size, cursor) is an 8-digit sequence; since every buffer in the model   *)
(* is shorter than 2^30, a size_t with any of its top 34 bits set is       *)
(* "huge" and a sum involving a huge term exceeds every buffer length -    *)
(* that is the mathematical (non-wrapping) meaning of offset + size.       *)
(***************************************************************************)
EXTENDS Integers, Sequences

Rev(s) == [i \in 1..Len(s) |-> s[Len(s) + 1 - i]]
Zeros(k) == [i \in 1..k |-> 0]
Fill(k, b) == [i \in 1..k |-> b]
Min(a, b) == IF a < b THEN a ELSE b
Max(a, b) == IF a > b THEN a ELSE b

(* ---- size_t values ------------------------------------------------------ *)
Small(d) == d[1] = 0 /\ d[2] = 0 /\ d[3] = 0 /\ d[4] = 0 /\ d[5] < 64
Val(d) == d[5] * 16777216 + d[6] * 65536 + d[7] * 256 + d[8]
Dig8(n) == <<0, 0, 0, 0, n \div 16777216, (n \div 65536) % 256, (n \div 256) % 256, n % 256>>
(* off + size <= n in unbounded arithmetic *)
Fits(off, size, n) == Small(off) /\ Small(size) /\ Val(off) + Val(size) <= n
(* off <= n *)
Within(off, n) == Small(off) /\ Val(off) <= n

(* ---- scalar encodings --------------------------------------------------- *)
(* ord: "b" big-endian, "l" little-endian, "n" native (host order), "r" reverse of host *)
IsLittle(ord, hostLittle) == ord = "l" \/ (ord = "n" /\ hostLittle) \/ (ord = "r" /\ ~hostLittle)
Enc(ord, hostLittle, digits) == IF IsLittle(ord, hostLittle) THEN Rev(digits) ELSE digits
Dec(ord, hostLittle, bytes) == IF IsLittle(ord, hostLittle) THEN Rev(bytes) ELSE bytes
(* widening of a w-byte value to rw bytes: sign-extending replicates the top bit *)
Extend(digits, rw, signed) ==
  LET pad == IF signed /\ digits[1] >= 128 THEN 255 ELSE 0
  IN  Fill(rw - Len(digits), pad) \o digits

(* ---- growable writer (StringWriter) ------------------------------------- *)
Overwrite(buf, off, bytes) ==     \* off is a plain integer here; zero-extends when landing past the end
  LET need == off + Len(bytes)
      base == IF need > Len(buf) THEN buf \o Zeros(need - Len(buf)) ELSE buf
  IN  [i \in 1..Len(base) |-> IF i > off /\ i <= need THEN bytes[i - off] ELSE base[i]]

(* ---- reader -------------------------------------------------------------- *)
Slice(data, off, size) == SubSeq(data, off + 1, off + size)       \* off, size integers, in range
(* clamping forms: the in-range prefix *)
ClampSlice(data, n, off, size) ==
  IF ~Within(off, n) \/ Val(off) >= n THEN <<>>
  ELSE IF Fits(off, size, n) THEN Slice(data, Val(off), Val(size))
  ELSE Slice(data, Val(off), n - Val(off))
(* first index >= from (1-based) holding byte b, or 0 *)
RECURSIVE FindByte(_, _, _, _)
FindByte(data, n, from, b) ==
  IF from > n THEN 0 ELSE IF data[from] = b THEN from ELSE FindByte(data, n, from + 1, b)

(* ---- bits ---------------------------------------------------------------- *)
RECURSIVE PackBits(_)
PackBits(bits) ==      \* MSB-first, last byte zero-filled
  IF bits = <<>> THEN <<>>
  ELSE LET k == Min(8, Len(bits))
           b == [i \in 1..8 |-> IF i <= k THEN bits[i] ELSE 0]
       IN  <<b[1] * 128 + b[2] * 64 + b[3] * 32 + b[4] * 16 + b[5] * 8 + b[6] * 4 + b[7] * 2 + b[8]>>
             \o PackBits(SubSeq(bits, k + 1, Len(bits)))
BitOf(bytes, i) ==     \* i-th bit (0-based) of a byte string, MSB first
  (bytes[(i \div 8) + 1] \div (2 ^ (7 - (i % 8)))) % 2
=============================================================================
