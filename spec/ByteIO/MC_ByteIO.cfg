SPECIFICATION Spec
CONSTANTS MaxOps = 2  ByteVals = {0, 128, 255}
INVARIANTS RoundTrip DecEnc BigIsRevLittle SignExt InBounds PackLaw
