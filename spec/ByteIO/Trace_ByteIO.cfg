SPECIFICATION Spec
INVARIANT Done
