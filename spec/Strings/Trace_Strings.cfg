SPECIFICATION Spec
INVARIANT Done
