SPECIFICATION Spec
CONSTANTS Alphabet = {44, 97, 32, 40, 41, 34, 92}  MaxLen = 5
INVARIANTS SplitJoin ContextLaws StripLaws ReplaceLaws ArgLaws CaseLaws
