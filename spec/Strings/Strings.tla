------------------------------ MODULE Strings ------------------------------
(***************************************************************************)
(* Plain reference definitions of phosg's string helpers (property C08):   *)
(* split / split_context / split_args / join, the strip_* family,          *)
(* starts_with / ends_with, toupper / tolower, str_replace_all, skip_*,    *)
(* strip_multiline_comments and string_printf (restricted directive set).  *)
(* Strings are byte sequences (0..255); embedded NUL bytes are ordinary.   *)
(***************************************************************************)
EXTENDS Integers, Sequences, SequencesExt, FiniteSets

(* All scans are written as left folds (SequencesExt!FoldLeft is evaluated iteratively by TLC), never as
   recursion over the string, so that 4 KiB inputs are cheap. *)
Idxs(s) == [i \in 1..Len(s) |-> i]
SetMin(S) == CHOOSE x \in S : \A y \in S : x <= y
SetMax(S) == CHOOSE x \in S : \A y \in S : x >= y
IndexOfByte(s, b, from) == LET S == {i \in from..Len(s) : s[i] = b} IN IF S = {} THEN 0 ELSE SetMin(S)
Concat(ss) == FoldLeft(LAMBDA acc, x : acc \o x, <<>>, ss)

(* ---- split / join -------------------------------------------------------- *)
(* cut s at the given ascending 1-based positions (the byte at each position is dropped) *)
CutAt(s, cuts) ==
  [k \in 1..(Len(cuts) + 1) |->
     SubSeq(s, IF k = 1 THEN 1 ELSE cuts[k - 1] + 1, IF k > Len(cuts) THEN Len(s) ELSE cuts[k] - 1)]
Positions(s, d) == SelectSeq(Idxs(s), LAMBDA i : s[i] = d)
FirstN(seq, n) == IF n = 0 \/ n >= Len(seq) THEN seq ELSE SubSeq(seq, 1, n)
Split(s, d, max) == CutAt(s, FirstN(Positions(s, d), max))

Join(items, d) == IF items = <<>> THEN <<>>
                  ELSE FoldLeft(LAMBDA acc, x : acc \o d \o x, items[1], Tail(items))

(* ---- bracket / quote aware split ----------------------------------------- *)
Closer(ch) == CASE ch = 40 -> 41 [] ch = 91 -> 93 [] ch = 123 -> 125 [] ch = 60 -> 62 [] ch = 39 -> 39 [] ch = 34 -> 34
                [] OTHER -> 0
(* positions of the top-level delimiters (in order) and whether brackets/quotes balance.
   State: z (index), stack of expected closers, esc (previous byte was an unescaped backslash inside quotes) *)
TopStep(d, max, a, ch) ==
  LET z == a.z + 1 IN
  IF ~a.esc /\ a.stack # <<>> /\ ch = Last(a.stack) THEN [a EXCEPT !.z = z, !.stack = Front(a.stack)]
  ELSE LET inq == a.stack # <<>> /\ Last(a.stack) \in {39, 34}
           esc2 == IF a.esc THEN FALSE ELSE inq /\ ch = 92 IN
       IF inq THEN [a EXCEPT !.z = z, !.esc = esc2]
       ELSE IF Closer(ch) # 0 THEN [a EXCEPT !.z = z, !.esc = esc2, !.stack = Append(a.stack, Closer(ch))]
       ELSE IF a.stack = <<>> /\ ch = d /\ (max = 0 \/ Len(a.cuts) < max)
              THEN [a EXCEPT !.z = z, !.esc = esc2, !.cuts = Append(a.cuts, z)]
       ELSE [a EXCEPT !.z = z, !.esc = esc2]
TopScan(s, d, max) ==
  LET r == FoldLeft(LAMBDA a, ch : TopStep(d, max, a, ch), [z |-> 0, stack |-> <<>>, esc |-> FALSE, cuts |-> <<>>], s)
  IN  [ok |-> r.stack = <<>>, cuts |-> r.cuts]
SplitContext(s, d, max) ==
  LET r == TopScan(s, d, max) IN
  IF r.ok THEN [ok |-> TRUE, pieces |-> CutAt(s, r.cuts)] ELSE [ok |-> FALSE, pieces |-> <<>>]
TopLevelDelims(s, d) == TopScan(s, d, 0)

(* ---- shell-style argument splitting (phosg's dialect) ---------------------- *)
(* backslash escapes the next byte inside and outside quotes; quotes group; blanks (space, tab) outside quotes
   separate; a token exists once a byte has been written to it (an empty quoted string yields no token);
   NUL bytes are dropped.  Result: [ok, toks] with ok = FALSE for an unterminated quote or dangling backslash. *)
IsBlank(b) == b = 32 \/ b = 9
Emit(a, w, sep) ==       \* write byte w (0 = nothing) to the token list
  IF w = 0 THEN a
  ELSE IF sep THEN [a EXCEPT !.inSpace = TRUE]
  ELSE IF a.inSpace THEN [a EXCEPT !.inSpace = FALSE, !.toks = Append(a.toks, <<w>>)]
  ELSE [a EXCEPT !.toks = [a.toks EXCEPT ![Len(a.toks)] = Append(@, w)]]
ArgStep(a, ch) ==
  IF a.pend THEN Emit([a EXCEPT !.pend = FALSE], ch, FALSE)                 \* byte after a backslash: literal
  ELSE IF a.quote # 0 /\ ch = a.quote THEN [a EXCEPT !.quote = 0]
  ELSE IF ch = 92 THEN [a EXCEPT !.pend = TRUE]
  ELSE IF a.quote = 0 /\ ch \in {34, 39} THEN [a EXCEPT !.quote = ch]
  ELSE Emit(a, ch, a.quote = 0 /\ IsBlank(ch))
SplitArgs(s) ==
  LET r == FoldLeft(ArgStep, [quote |-> 0, inSpace |-> TRUE, toks |-> <<>>, pend |-> FALSE], s)
  IN  [ok |-> r.quote = 0 /\ ~r.pend, toks |-> r.toks]

(* ---- trimming --------------------------------------------------------------- *)
WS == {32, 9, 13, 10}
DropTrailing(s, set) == LET K == {i \in DOMAIN s : s[i] \notin set} IN IF K = {} THEN <<>> ELSE SubSeq(s, 1, SetMax(K))
DropLeading(s, set) == LET K == {i \in DOMAIN s : s[i] \notin set} IN IF K = {} THEN <<>> ELSE SubSeq(s, SetMin(K), Len(s))
StripTrailingZeroes(s) == DropTrailing(s, {0})
StripTrailingWhitespace(s) == DropTrailing(s, WS)
StripLeadingWhitespace(s) == DropLeading(s, WS)
StripWhitespace(s) == DropLeading(DropTrailing(s, WS), WS)

StartsWith(s, p) == Len(s) >= Len(p) /\ SubSeq(s, 1, Len(p)) = p
EndsWith(s, p) == Len(s) >= Len(p) /\ SubSeq(s, Len(s) - Len(p) + 1, Len(s)) = p
ToUpper(s) == [i \in DOMAIN s |-> IF s[i] >= 97 /\ s[i] <= 122 THEN s[i] - 32 ELSE s[i]]
ToLower(s) == [i \in DOMAIN s |-> IF s[i] >= 65 /\ s[i] <= 90 THEN s[i] + 32 ELSE s[i]]

(* leftmost, non-overlapping replacement of a non-empty target: fold over positions with a skip counter *)
StrReplaceAll(s, t, r) ==
  LET step(a, i) ==
        IF a.skip > 0 THEN [a EXCEPT !.skip = @ - 1]
        ELSE IF i + Len(t) - 1 <= Len(s) /\ SubSeq(s, i, i + Len(t) - 1) = t
               THEN [out |-> a.out \o r, skip |-> Len(t) - 1]
        ELSE [out |-> Append(a.out, s[i]), skip |-> 0]
  IN  FoldLeft(step, [out |-> <<>>, skip |-> 0], Idxs(s)).out

(* offsets are 0-based as in the C++ API *)
SkipWhile(s, off, set, want) ==
  LET Stop == {k \in off..Len(s) : k = Len(s) \/ ((s[k + 1] \in set) # want)} IN
  IF off >= Len(s) THEN off ELSE SetMin(Stop)
SkipWhitespace(s, off) == SkipWhile(s, off, WS, TRUE)
SkipNonWhitespace(s, off) == SkipWhile(s, off, WS, FALSE)
SkipWord(s, off) == SkipWhitespace(s, SkipNonWhitespace(s, off))

(* /* ... */ comments removed, newlines inside them kept.  State: inC, skip (second byte of a 2-byte marker) *)
StripMultilineComments(s) ==
  LET step(a, i) ==
        IF a.skip THEN [a EXCEPT !.skip = FALSE]
        ELSE IF ~a.inC
          THEN IF s[i] = 47 /\ i + 1 <= Len(s) /\ s[i + 1] = 42 THEN [a EXCEPT !.inC = TRUE, !.skip = TRUE]
               ELSE [a EXCEPT !.out = Append(@, s[i])]
          ELSE IF s[i] = 42 /\ i + 1 <= Len(s) /\ s[i + 1] = 47 THEN [a EXCEPT !.inC = FALSE, !.skip = TRUE]
               ELSE IF s[i] = 10 THEN [a EXCEPT !.out = Append(@, 10)] ELSE a
      r == FoldLeft(step, [out |-> <<>>, inC |-> FALSE, skip |-> FALSE], Idxs(s))
  IN  [out |-> r.out, open |-> r.inC]

(* ---- printf (restricted) -------------------------------------------------------- *)
(* results are compared run-length encoded: a sequence of <<byte, count>> with count > 0 and adjacent bytes different *)
RleAppend(rle, b, n) ==
  IF n = 0 THEN rle
  ELSE IF rle # <<>> /\ Last(rle)[1] = b THEN [rle EXCEPT ![Len(rle)] = <<b, @[2] + n>>]
  ELSE Append(rle, <<b, n>>)
RleOfBytes(rle, s) == FoldLeft(LAMBDA acc, b : RleAppend(acc, b, 1), rle, s)
RleConcat(a, b) == FoldLeft(LAMBDA acc, run : RleAppend(acc, run[1], run[2]), a, b)
RleLen(r) == FoldLeft(LAMBDA acc, run : acc + run[2], 0, r)
RECURSIVE DigitsIn(_, _)
DigitsIn(n, base) == IF n < base THEN <<n>> ELSE DigitsIn(n \div base, base) \o <<n % base>>
DigitChar(d) == IF d < 10 THEN 48 + d ELSE 87 + d
NumText(n, base) == LET ds == DigitsIn(IF n < 0 THEN 0 - n ELSE n, base) IN
                    (IF n < 0 THEN <<45>> ELSE <<>>) \o [i \in DOMAIN ds |-> DigitChar(ds[i])]
(* one directive -> its RLE rendering.  seg = [k, w (min width), f ("" | "-" | "0"), n (number), s (RLE string arg)] *)
SegRle(seg) ==
  CASE seg.k = "lit" -> seg.s
    [] seg.k = "pct" -> <<<<37, 1>>>>
    [] seg.k = "c" -> <<<<seg.n, 1>>>>
    [] seg.k = "s" -> LET pad == IF seg.w > RleLen(seg.s) THEN seg.w - RleLen(seg.s) ELSE 0 IN
                      IF seg.f = "-" THEN RleConcat(seg.s, <<<<32, pad>>>>) ELSE RleConcat(RleAppend(<<>>, 32, pad), seg.s)
    [] seg.k \in {"d", "x"} ->
         LET t == NumText(seg.n, IF seg.k = "d" THEN 10 ELSE 16)
             pad == IF seg.w > Len(t) THEN seg.w - Len(t) ELSE 0 IN
         IF seg.f = "0" THEN (IF seg.n < 0 THEN RleOfBytes(RleAppend(<<<<45, 1>>>>, 48, pad), Tail(t))
                              ELSE RleOfBytes(RleAppend(<<>>, 48, pad), t))
         ELSE IF seg.f = "-" THEN RleAppend(RleOfBytes(<<>>, t), 32, pad)
         ELSE RleOfBytes(RleAppend(<<>>, 32, pad), t)
PrintfRle(acc0, segs) == FoldLeft(LAMBDA acc, g : RleConcat(acc, SegRle(g)), acc0, segs)
=============================================================================
