----------------------------- MODULE MC_Strings -----------------------------
(* All strings up to MaxLen over a small adversarial alphabet; the algebraic laws of C08 are invariants of
   the reference definitions (so the oracle used for trace validation is known to satisfy the property). *)
EXTENDS Strings, TLC, FiniteSets
CONSTANTS Alphabet, MaxLen
VARIABLE s
Init == s = <<>>
Next == Len(s) < MaxLen /\ \E c \in Alphabet : s' = Append(s, c)
Spec == Init /\ [][Next]_s

Delims == {44, 32, 41}
Count(str, d) == Cardinality({i \in DOMAIN str : str[i] = d})
Min2(a, b) == IF a < b THEN a ELSE b
SplitJoin == \A d \in Delims, m \in 0..2 :
   LET p == Split(s, d, m) IN
   /\ Join(p, <<d>>) = s
   /\ Len(p) = (IF m = 0 THEN Count(s, d) ELSE Min2(Count(s, d), m)) + 1
   /\ \A i \in DOMAIN p : (m = 0 \/ i <= m) => Count(p[i], d) = 0
ContextLaws == \A d \in Delims, m \in 0..2 :
   LET r == SplitContext(s, d, m)
       tl == TopLevelDelims(s, d) IN
   /\ r.ok = tl.ok
   /\ r.ok => /\ Join(r.pieces, <<d>>) = s
              /\ Len(r.pieces) = (IF m = 0 THEN Len(tl.cuts) ELSE Min2(Len(tl.cuts), m)) + 1
              /\ \A i \in DOMAIN r.pieces : (m = 0 \/ i <= m) => TopLevelDelims(r.pieces[i], d).cuts = <<>>
   (* without brackets and quotes the two splitters agree *)
   /\ ((\A i \in DOMAIN s : Closer(s[i]) = 0 /\ s[i] # 41) => r.ok /\ r.pieces = Split(s, d, m))
StripLaws ==
   /\ StripWhitespace(StripWhitespace(s)) = StripWhitespace(s)
   /\ StripTrailingWhitespace(StripLeadingWhitespace(s)) = StripWhitespace(s)
   /\ LET t == StripWhitespace(s) IN t = <<>> \/ (Head(t) \notin WS /\ Last(t) \notin WS)
   /\ LET t == StripWhitespace(s) IN \E i, j \in 0..Len(s) : /\ i + j <= Len(s) /\ SubSeq(s, i + 1, Len(s) - j) = t
                                                      /\ \A k \in 1..i : s[k] \in WS
                                                      /\ \A q \in (Len(s) - j + 1)..Len(s) : s[q] \in WS
   /\ Len(StripWhitespace(s)) <= Len(s)
ReplaceLaws == /\ StrReplaceAll(s, <<44>>, <<44>>) = s
               /\ StrReplaceAll(s, <<44, 97>>, <<44, 97>>) = s
               /\ Count(StrReplaceAll(s, <<44>>, <<97>>), 44) = 0
               /\ StrReplaceAll(s, <<97>>, <<>>) = SelectSeq(s, LAMBDA c : c # 97)
ArgLaws == LET r == SplitArgs(s) IN
           /\ r.ok => \A i \in DOMAIN r.toks : r.toks[i] # <<>>
           /\ ((\A i \in DOMAIN s : s[i] \notin {34, 39, 92}) =>
                 r.ok /\ r.toks = SelectSeq(Split(s, 32, 0), LAMBDA t : t # <<>>))
CaseLaws == ToLower(ToUpper(ToLower(s))) = ToLower(s) /\ StartsWith(s, SubSeq(s, 1, Len(s) \div 2)) /\ EndsWith(s, <<>>)
=============================================================================
