---------------------------- MODULE Trace_Strings ----------------------------
(* Trace validation for C08: batches of (input, result) pairs of the real helpers are compared with the
   reference definitions of Strings.tla (stateless). *)
EXTENDS Strings, TLC, Json, IOUtils
Tr == ndJsonDeserialize(IOEnv.TRACE)
VARIABLE l
Bad(why) == PrintT("BAD " \o ToJson([l |-> l, why |-> why]))
ChkAll(S, P(_), why) == LET f == {i \in S : ~P(i)} IN IF f = {} THEN TRUE ELSE Bad(why \o " [failing indices " \o ToString(f) \o "]")
Init == l = 1
B(x) == IF x THEN 1 ELSE 0

Good(ev, i) ==
  LET in == ev.ins[i] out == ev.outs[i] p == ev.p IN
  CASE ev.fn = "split" -> out = Split(in, p.d, p.max)
    [] ev.fn = "splitjoin" -> out = in                      \* join(split(s, d, max), d) reproduces s
    [] ev.fn = "splitctx" -> LET r == SplitContext(in, p.d, p.max) IN out[1] = B(r.ok) /\ (r.ok => out[2] = r.pieces)
    [] ev.fn = "splitctxjoin" -> SplitContext(in, p.d, p.max).ok => out = in
    [] ev.fn = "splitargs" -> LET r == SplitArgs(in) IN out[1] = B(r.ok) /\ (r.ok => out[2] = r.toks)
    [] ev.fn = "joinv" -> out = Join(in, p.d)
    [] ev.fn = "join0" -> out = Concat(in)
    [] ev.fn = "strip_tz" -> out = StripTrailingZeroes(in)
    [] ev.fn = "strip_tw" -> out = StripTrailingWhitespace(in)
    [] ev.fn = "strip_lw" -> out = StripLeadingWhitespace(in)
    [] ev.fn = "strip_w" -> out = StripWhitespace(in)
    [] ev.fn = "starts" -> out = B(StartsWith(in, p.t))
    [] ev.fn = "ends" -> out = B(EndsWith(in, p.t))
    [] ev.fn = "upper" -> out = ToUpper(in)
    [] ev.fn = "lower" -> out = ToLower(in)
    [] ev.fn = "replace" -> out = StrReplaceAll(in, p.t, p.r)
    [] ev.fn = "skipws" -> out = [k \in 1..(Len(in) + 1) |-> SkipWhitespace(in, k - 1)]
    [] ev.fn = "skipnws" -> out = [k \in 1..(Len(in) + 1) |-> SkipNonWhitespace(in, k - 1)]
    [] ev.fn = "skipword" -> out = [k \in 1..(Len(in) + 1) |-> SkipWord(in, k - 1)]
    [] ev.fn = "comments" -> LET r == StripMultilineComments(in) IN
                             /\ out[1] = r.out /\ out[2] = B(r.open)
                             \* out[3]: the string handed to the throwing form still equals the input; out[4]: it equals the stripped text
                             /\ (IF r.open THEN out[3] = 1 \/ out[4] = 1 ELSE out[4] = 1)
    [] ev.fn = "printf" -> out = PrintfRle(<<>>, in)
    [] OTHER -> FALSE

Step(ev) ==
  CASE ev.e = "Reset" -> TRUE
    [] ev.e = "b" -> LET G(i) == Good(ev, i) IN
                     ChkAll(DOMAIN ev.ins, G, ev.fn \o ": result differs from the plain reference definition")
    [] OTHER -> Bad("no specification action for event " \o ev.e)
Next == l <= Len(Tr) /\ l' = l + 1 /\ Step(Tr[l])
Spec == Init /\ [][Next]_l
Done == (l = Len(Tr) + 1) => PrintT("TRACE-DONE " \o ToString(Len(Tr)))
=============================================================================
