SPECIFICATION FairSpec
CONSTANTS Block = 3 MaxChunk = 1 Algo = "until_eof" MaxLen = 5 Mode = "read_all"
INVARIANTS Complete Conserved PathLaw
PROPERTY Termination
