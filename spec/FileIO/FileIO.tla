------------------------------- MODULE FileIO -------------------------------
(***************************************************************************)
(* File and stream reading helpers of src/Filesystem.cc (property C14).    *)
(* Part 1 is a closed model "chunked source || reader loop": the           *)
(* environment delivers the source in arbitrary chunks (short reads), the  *)
(* reader is the block loop of read_all / fgets / the exact-size family.   *)
(* Parts 2-4 are sequential definitions: path splitting, descriptor        *)
(* ownership (scoped_fd), and Poll as a map.                               *)
(***************************************************************************)
EXTENDS Integers, Sequences, FiniteSets

(* ---- 1. reader loops ------------------------------------------------------ *)
CONSTANTS Block,       \* the reader's block size (16 KiB / 255 in the code, small in the model)
          MaxChunk,    \* the environment never delivers more than this per call
          Algo         \* "until_eof" (the code) | "until_short" (former read_all(fd): stops at the first short read)
VARIABLES src, acc, pc, result
rvars == <<src, acc, pc, result>>

ReadAllInit(s) == src = s /\ acc = <<>> /\ pc = "read" /\ result = <<>>
(* one read() call of the loop: the kernel returns 1..min(req, MaxChunk, available) bytes, or 0 at end of data *)
ReadStep ==
  /\ pc = "read"
  /\ \E k \in 0..Block :
       /\ IF src = <<>> THEN k = 0 ELSE k >= 1 /\ k <= MaxChunk /\ k <= Len(src)
       /\ acc' = acc \o SubSeq(src, 1, k)
       /\ src' = SubSeq(src, k + 1, Len(src))
       /\ pc' = IF k = 0 \/ (Algo = "until_short" /\ k < Block) THEN "ret" ELSE "read"
  /\ UNCHANGED result
ReturnStep == pc = "ret" /\ result' = acc /\ pc' = "done" /\ UNCHANGED <<src, acc>>
ReadAllNext == ReadStep \/ ReturnStep

(* the line reader: each ::fgets call hands back at most Block bytes, stopping after a newline *)
LineChunk(s) ==     \* what one ::fgets(buf, Block + 1) returns from the unread data s
  LET nl == {i \in 1..Len(s) : s[i] = 10}
      upto == IF nl = {} THEN Len(s) ELSE CHOOSE i \in nl : \A j \in nl : i <= j
      k == IF upto < Block THEN upto ELSE Block IN SubSeq(s, 1, k)
FgetsStep ==
  /\ pc = "read"
  /\ LET c == LineChunk(src) IN
     /\ acc' = acc \o c
     /\ src' = SubSeq(src, Len(c) + 1, Len(src))
     /\ pc' = IF c = <<>> \/ Len(c) < Block \/ c[Len(c)] = 10 THEN "ret" ELSE "read"
  /\ UNCHANGED result
FgetsNext == FgetsStep \/ ReturnStep
FirstLine(s) == LET nl == {i \in 1..Len(s) : s[i] = 10} IN
                IF nl = {} THEN s ELSE SubSeq(s, 1, CHOOSE i \in nl : \A j \in nl : i <= j)

(* ---- 2. paths ---------------------------------------------------------------- *)
SLASH == 47
LastSlash(p) == LET S == {i \in DOMAIN p : p[i] = SLASH} IN IF S = {} THEN 0 ELSE CHOOSE i \in S : \A j \in S : i >= j
Basename(p) == IF LastSlash(p) = 0 THEN p ELSE SubSeq(p, LastSlash(p) + 1, Len(p))
Dirname(p) == IF LastSlash(p) = 0 THEN <<>> ELSE SubSeq(p, 1, LastSlash(p) - 1)

(* ---- 3. descriptor ownership --------------------------------------------------- *)
(* owner: slot -> descriptor or 0.  Each operation returns the new owner map and the descriptors it closes. *)
SfdApply(owner, op, a, b, fd) ==
  LET cl(s) == IF owner[s] # 0 THEN <<owner[s]>> ELSE <<>> IN
  CASE op = "adopt"       -> [o |-> [owner EXCEPT ![a] = fd], closed |-> <<>>]          \* scoped_fd(int) on a fresh slot
    [] op = "assign_int"  -> [o |-> [owner EXCEPT ![a] = fd], closed |-> cl(a)]
    [] op = "close"       -> [o |-> [owner EXCEPT ![a] = 0], closed |-> cl(a)]
    [] op = "destroy"     -> [o |-> [owner EXCEPT ![a] = 0], closed |-> cl(a)]
    [] op = "move_ctor"   -> [o |-> [owner EXCEPT ![a] = owner[b], ![b] = 0], closed |-> <<>>]   \* a fresh <- b
    [] op = "move_assign" -> IF a = b THEN [o |-> owner, closed |-> <<>>]
                             ELSE [o |-> [owner EXCEPT ![a] = owner[b], ![b] = 0], closed |-> cl(a)]

(* ---- 4. Poll as a map ------------------------------------------------------------- *)
PollAdd(pm, fd, ev) == [x \in (DOMAIN pm) \cup {fd} |-> IF x = fd THEN ev ELSE pm[x]]
PollRemove(pm, fd) == [x \in (DOMAIN pm) \ {fd} |-> pm[x]]
=============================================================================
