SPECIFICATION FairSpec
CONSTANTS Block = 2 MaxChunk = 3 Algo = "until_eof" MaxLen = 6 Mode = "fgets"
INVARIANTS Complete Conserved PathLaw
PROPERTY Termination
