SPECIFICATION FairSpec
CONSTANTS Block = 2 MaxChunk = 3 Algo = "until_eof" MaxLen = 5 Mode = "read_all"
INVARIANTS Complete Conserved PathLaw
PROPERTY Termination
