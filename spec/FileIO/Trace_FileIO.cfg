SPECIFICATION TSpec
CONSTANTS Block = 16384 MaxChunk = 16384 Algo = "until_eof"
INVARIANT Done
