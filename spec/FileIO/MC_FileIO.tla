----------------------------- MODULE MC_FileIO -----------------------------
(* Closed-system check of the reader loops: every source up to MaxLen over {a, newline}, every delivery plan. *)
EXTENDS FileIO, TLC
CONSTANTS MaxLen, Mode     \* Mode: "read_all" | "fgets"
VARIABLE whole
vars == <<rvars, whole>>
Sources == UNION {[1..n -> {97, 10}] : n \in 0..MaxLen}
Init == \E s \in Sources : whole = s /\ ReadAllInit(s)
Next == (IF Mode = "read_all" THEN ReadAllNext ELSE FgetsNext) /\ UNCHANGED whole
Spec == Init /\ [][Next]_vars
FairSpec == Spec /\ WF_vars(Next)
(* what is returned is complete: never a silently truncated or padded result *)
Complete == pc = "done" => result = (IF Mode = "read_all" THEN whole ELSE FirstLine(whole))
Conserved == acc \o src = whole
Termination == <>(pc = "done")

(* sequential laws *)
PathLaw == \A p \in UNION {[1..n -> {97, 47, 46}] : n \in 0..4} :
             /\ (LastSlash(p) # 0 => Dirname(p) \o <<SLASH>> \o Basename(p) = p)
             /\ (LastSlash(p) = 0 => Basename(p) = p /\ Dirname(p) = <<>>)
             /\ LastSlash(Basename(p)) = 0
=============================================================================
