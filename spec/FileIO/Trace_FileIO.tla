---------------------------- MODULE Trace_FileIO ----------------------------
(***************************************************************************)
(* Trace validation for C14.  Events come from harness/drv_fileio.cc, which *)
(* serves the library's read()/pread() calls from scripted delivery plans   *)
(* (link-time interposition) and FILE* streams from fopencookie with the    *)
(* same scripted chunking.                                                  *)
(* R-check: the observed read() calls of read_all(fd) are a path of the     *)
(*   ReadStep loop (every request is one block; the loop ends only after a  *)
(*   zero-byte delivery) - a mismatch prints DRIFT, not a violation.        *)
(* P-check: what the call returned is complete (or it threw).               *)
(***************************************************************************)
EXTENDS Integers, Sequences, FiniteSets, TLC, Json, IOUtils
CONSTANTS Block, MaxChunk, Algo
VARIABLES src, acc, pc, result      \* unused by the trace spec (FileIO's closed model variables)
INSTANCE FileIO
Tr == ndJsonDeserialize(IOEnv.TRACE)
VARIABLES l, owner, closes, pm
tvars == <<l, owner, closes, pm, src, acc, pc, result>>
Bad(why) == PrintT("BAD " \o ToJson([l |-> l, why |-> why]))
Chk(cond, why) == IF cond THEN TRUE ELSE Bad(why)
ChkAll(S, P(_), why) == LET f == {i \in S : ~P(i)} IN IF f = {} THEN TRUE ELSE Bad(why \o " [failing indices " \o ToString(f) \o "]")
Drift(why) == PrintT("DRIFT " \o ToJson([l |-> l, why |-> why]))
ToSet(s) == {s[i] : i \in DOMAIN s}
Slots == 1..4
Init == /\ l = 1 /\ owner = [s \in Slots |-> 0] /\ closes = <<>> /\ pm = <<>>
        /\ src = <<>> /\ acc = <<>> /\ pc = "done" /\ result = <<>>
Keep == UNCHANGED <<owner, closes, pm>>

Sum(s) == LET RECURSIVE S(_) S(i) == IF i = 0 THEN 0 ELSE s[i] + S(i - 1) IN S(Len(s))

(* read-to-end helpers *)
ReadAll(ev) ==
  /\ IF ev.err = 0
       THEN Chk(ev.out = "ok" /\ ev.len = ev.srclen /\ ev.eq = 1,
                "read_all returned a truncated or altered result although the source delivered every byte")
       ELSE Chk(ev.out # "ok", "read_all returned normally although a read failed: the result is silently truncated (an error is not the end of the data)")
  /\ IF ev.via = "fd" /\ ev.err = 0 /\ ~(/\ \A i \in DOMAIN ev.reqs : ev.reqs[i] = 16384
                                         /\ ev.plan # <<>> /\ ev.plan[Len(ev.plan)] = 0
                                         /\ \A i \in 1..(Len(ev.plan) - 1) : ev.plan[i] > 0)
       THEN Drift("read() calls of read_all(fd) are not a path of the modelled block loop")
       ELSE TRUE
  /\ Keep

(* line reader: the stream holds lines of the given lengths (each followed by a newline except possibly the last) *)
Fgets(ev) ==
  LET n == Len(ev.lens)
      expLen(i) == IF i <= n THEN ev.lens[i] + (IF i < n \/ ev.finalnl = 1 THEN 1 ELSE 0) ELSE 0
      nExp == IF n > 0 /\ ev.finalnl = 0 /\ ev.lens[n] = 0 THEN n - 1 ELSE n     \* an empty unterminated last line does not exist
  IN
  /\ Chk(Len(ev.got) = nExp + 1, "fgets: number of lines returned before the end-of-stream empty string")
  /\ Chk(\A i \in 1..Len(ev.got) : i <= nExp + 1 => (ev.got[i] = (IF i <= nExp THEN expLen(i) ELSE 0) /\ ev.eq[i] = 1),
         "fgets: a line was returned truncated, padded or altered")
  /\ Keep

(* exact-size and clamping single-call readers *)
Exact(ev) ==
  /\ CASE ev.fn \in {"readx", "preadx", "readxs", "preadxs"} ->
            Chk(IF ev.avail = ev.size THEN ev.out = "ok" /\ ev.len = ev.size /\ ev.eq = 1 ELSE ev.out # "ok",
                "exact-size descriptor read: must return exactly size bytes or throw, never a short or padded result")
       [] ev.fn \in {"freadx", "freadxs"} ->
            Chk(IF ev.total >= ev.size THEN ev.out = "ok" /\ ev.len = ev.size /\ ev.eq = 1 ELSE ev.out # "ok",
                "freadx: must return exactly size bytes however the stream chunks them, or throw")
       [] ev.fn = "read" -> Chk(ev.out = "ok" /\ ev.len = ev.avail /\ ev.eq = 1, "read(fd,size): the bytes one read() delivered")
       [] ev.fn = "fread" -> Chk(ev.out = "ok" /\ ev.len = (IF ev.total < ev.size THEN ev.total ELSE ev.size) /\ ev.eq = 1,
                                 "fread(FILE*,size): min(size, available) bytes")
  /\ Keep

File(ev) == Chk(ev.out = "ok" /\ ev.len = ev.size /\ ev.eq = 1, "load_file(save_file(d)) differs from d") /\ Keep
Dir(ev) == /\ Chk(ToSet(ev.listed) = ToSet(ev.created) /\ Len(ev.listed) = Cardinality(ToSet(ev.created)),
                  "list_directory does not return exactly the entry names present")
           /\ Chk(ev.sorted = ev.listed, "list_directory_sorted") /\ Keep
RmTree(ev) == /\ Chk(ev.out = "ok" /\ ev.exists = 0, "recursive unlink left part of the tree behind")
              /\ Chk(ev.outside = 1, "recursive unlink followed a symbolic link and removed files OUTSIDE the tree")
              /\ Keep
Paths(ev) ==
  LET G(i) == /\ ev.base[i] = Basename(ev.ins[i]) /\ ev.dir[i] = Dirname(ev.ins[i])
              /\ (LastSlash(ev.ins[i]) # 0 => ev.dir[i] \o <<SLASH>> \o ev.base[i] = ev.ins[i]) IN
  ChkAll(DOMAIN ev.ins, G, "basename/dirname") /\ Keep

(* scoped_fd histories: descriptors are logical ids 1..; every close() of a tracked descriptor is logged *)
Sfd(ev) ==
  LET op == IF ev.op \in {"open_c", "open_s"} THEN "assign_int" ELSE ev.op      \* open() on a live object: gives up the old descriptor, holds the new one
      r == SfdApply(owner, op, ev.a, ev.b, ev.fd) IN
  /\ Chk(ev.closed = r.closed, "scoped_fd: this operation must close exactly the descriptor it gives up")
  /\ Chk(ev.held = [s \in Slots |-> r.o[s]], "scoped_fd: descriptor held by each object after the operation")
  /\ owner' = r.o /\ closes' = closes \o ev.closed /\ UNCHANGED pm
SfdEnd(ev) ==
  /\ Chk(\A fd \in ToSet(ev.adopted) : Cardinality({i \in DOMAIN closes : closes[i] = fd}) = 1,
         "scoped_fd: every adopted descriptor must be closed exactly once")
  /\ owner' = [s \in Slots |-> 0] /\ closes' = <<>> /\ UNCHANGED pm

(* Poll histories *)
PollEv(ev) ==
  LET npm == CASE ev.op = "add" -> PollAdd(pm, ev.fd, ev.events)
               [] ev.op = "remove" -> PollRemove(pm, ev.fd)
               [] OTHER -> pm IN
  /\ Chk(ToSet(ev.keys) = DOMAIN npm /\ Len(ev.keys) = Cardinality(DOMAIN npm),
         "Poll: the descriptor set is not the map the operations describe (re-add replaces, remove deletes)")
  /\ Chk(\A i \in DOMAIN ev.keys : ev.keys[i] \in DOMAIN npm => ev.evs[i] = npm[ev.keys[i]],
         "Poll: events registered for a descriptor")
  /\ Chk(ev.empty = (IF DOMAIN npm = {} THEN 1 ELSE 0), "Poll::empty() iff no descriptors")
  /\ Chk(ev.op = "remove" => ev.closed = (IF ev.close = 1 /\ ev.fd \in DOMAIN pm THEN <<ev.fd>> ELSE <<>>),
         "Poll::remove closes the descriptor iff it was present and closing was requested")
  /\ Chk(ev.op = "poll" => (ToSet(ev.ready) \subseteq DOMAIN npm /\ ToSet(ev.must) \subseteq ToSet(ev.ready)),
         "Poll::poll reports only registered descriptors and every ready one")
  /\ pm' = npm /\ UNCHANGED <<owner, closes>>

Step(ev) ==
  CASE ev.e = "Reset" -> owner' = [s \in Slots |-> 0] /\ closes' = <<>> /\ pm' = <<>>
    [] ev.e = "ra" -> ReadAll(ev)
    [] ev.e = "fgets" -> Fgets(ev)
    [] ev.e = "exact" -> Exact(ev)
    [] ev.e = "file" -> File(ev)
    [] ev.e = "dir" -> Dir(ev)
    [] ev.e = "rmtree" -> RmTree(ev)
    [] ev.e = "paths" -> Paths(ev)
    [] ev.e = "sfd" -> Sfd(ev)
    [] ev.e = "sfdend" -> SfdEnd(ev)
    [] ev.e = "poll" -> PollEv(ev)
    [] OTHER -> Bad("no specification action for event " \o ev.e) /\ Keep
TNext == l <= Len(Tr) /\ l' = l + 1 /\ Step(Tr[l]) /\ UNCHANGED <<src, acc, pc, result>>
TSpec == Init /\ [][TNext]_tvars
Done == (l = Len(Tr) + 1) => PrintT("TRACE-DONE " \o ToString(Len(Tr)))
=============================================================================
