SPECIFICATION FairSpec
CONSTANTS Block = 2 MaxChunk = 3 Algo = "until_short" MaxLen = 4 Mode = "read_all"
INVARIANTS Complete Conserved PathLaw
PROPERTY Termination
