------------------------------- MODULE Expect -------------------------------
(***************************************************************************)
(* Unit-test expectation helpers (src/UnitTest.hh), property C19.          *)
(* The exception hierarchy is a parent function; ExpectRaises says when    *)
(* expect_raises<E>(fn) must succeed; Relation gives the meaning of the    *)
(* seven comparison macros on totally ordered operands (given by their     *)
(* rank in a boundary set) and on the unordered operand NaN (rank -1).     *)
(***************************************************************************)
EXTENDS Integers, Sequences, FiniteSets

Types == {"exception", "logic_error", "invalid_argument", "out_of_range", "runtime_error", "range_error", "bad_alloc",
          "expectation_failed", "user_rt", "user_plain"}
Parent == [t \in Types |->
  CASE t = "logic_error" -> "exception" [] t = "invalid_argument" -> "logic_error" [] t = "out_of_range" -> "logic_error"
    [] t = "runtime_error" -> "exception" [] t = "range_error" -> "runtime_error" [] t = "bad_alloc" -> "exception"
    [] t = "expectation_failed" -> "logic_error" [] t = "user_rt" -> "runtime_error" [] OTHER -> "none"]
RECURSIVE IsA(_, _)
IsA(t, e) == IF t = e THEN TRUE ELSE IF t \notin Types \/ Parent[t] = "none" THEN FALSE ELSE IsA(Parent[t], e)

Behaviours == {"returns", "throws_int"} \cup Types      \* a type name stands for "fn throws an object of that type"
(* expect_raises<E>(fn) succeeds exactly when fn throws an exception whose type is E or derives from it *)
ExpectRaises(e, b) == b \in Types /\ IsA(b, e)

NaN == -1
Relation(op, a, b) ==
  IF a = NaN \/ b = NaN THEN op = "ne"                     \* every ordered comparison with NaN is false, != is true
  ELSE CASE op = "eq" -> a = b [] op = "ne" -> a # b [] op = "gt" -> a > b [] op = "ge" -> a >= b
         [] op = "lt" -> a < b [] op = "le" -> a <= b
=============================================================================
