SPECIFICATION Spec
INVARIANT Done
