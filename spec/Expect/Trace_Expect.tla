---------------------------- MODULE Trace_Expect ----------------------------
EXTENDS Expect, TLC, Json, IOUtils
Tr == ndJsonDeserialize(IOEnv.TRACE)
VARIABLE l
Bad(why) == PrintT("BAD " \o ToJson([l |-> l, why |-> why]))
Chk(cond, why) == IF cond THEN TRUE ELSE Bad(why)
Init == l = 1
Failed(ev) == ev.outcome = "expectation_failed"
SiteOk(ev) == ev.line = ev.site_line /\ ev.file_ok = 1
Step(ev) ==
  CASE ev.e = "Reset" -> TRUE
    [] ev.e = "raises" ->
         IF ExpectRaises(ev.E, ev.beh)
           THEN Chk(ev.outcome = "none", "expect_raises failed although fn threw the expected type (or one derived from it)")
           ELSE /\ Chk(Failed(ev), "expect_raises did not fail although fn returned normally or threw something else")
                /\ Chk(~Failed(ev) \/ SiteOk(ev), "expectation_failed does not carry the call site's file and line")
    [] ev.e = "rel" ->
         IF (IF ev.op = "expect" THEN ev.a = 1 ELSE Relation(ev.op, ev.a, ev.b))
           THEN Chk(ev.outcome = "none", "expect_* threw although the stated relation holds")
           ELSE /\ Chk(Failed(ev), "expect_* did not throw expectation_failed although the stated relation is false")
                /\ Chk(~Failed(ev) \/ (SiteOk(ev) /\ ev.msg_ok = 1), "expectation_failed does not carry the call site's file, line and message")
    [] OTHER -> Bad("no specification action for event " \o ev.e)
Next == l <= Len(Tr) /\ l' = l + 1 /\ Step(Tr[l])
Spec == Init /\ [][Next]_l
Done == (l = Len(Tr) + 1) => PrintT("TRACE-DONE " \o ToString(Len(Tr)))
=============================================================================
