SPECIFICATION Spec
INVARIANTS Hierarchy Sound Complete Relations
