----------------------------- MODULE MC_Expect -----------------------------
EXTENDS Expect, TLC
VARIABLE x
Init == x = 0
Next == UNCHANGED x
Spec == Init /\ [][Next]_x
Hierarchy == /\ \A t \in Types : IsA(t, t)
             /\ \A a, b, c \in Types : IsA(a, b) /\ IsA(b, c) => IsA(a, c)
             /\ \A a, b \in Types : IsA(a, b) /\ IsA(b, a) => a = b
             /\ \A t \in Types \ {"user_plain"} : IsA(t, "exception")
             /\ ~IsA("user_plain", "exception")
Sound == \A e \in Types : ~ExpectRaises(e, "returns") /\ ~ExpectRaises(e, "throws_int")
Complete == \A e \in Types : ExpectRaises(e, e) /\ (ExpectRaises("logic_error", "expectation_failed"))
Relations == \A a, b \in -1..3 : /\ (a # NaN /\ b # NaN) => (Relation("ge", a, b) <=> ~Relation("lt", a, b))
                                 /\ Relation("ne", a, b) <=> ~Relation("eq", a, b)
                                 /\ (a = NaN \/ b = NaN) => ~Relation("ge", a, b) /\ ~Relation("le", a, b) /\ ~Relation("eq", a, b)
=============================================================================
