SPECIFICATION Spec
INVARIANT Done
