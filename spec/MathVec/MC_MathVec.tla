----------------------------- MODULE MC_MathVec -----------------------------
EXTENDS MathVec, TLC
CONSTANT N
VARIABLES a, b
Init == a \in 0..N /\ b \in 0..N
Next == UNCHANGED <<a, b>>
Spec == Init /\ [][Next]_<<a, b>>
RECURSIVE Euclid(_, _)
Euclid(x, y) == IF y = 0 THEN x ELSE Euclid(y, x % y)
ToDig(x) == IF x = 0 THEN <<>> ELSE IF x < 256 THEN <<x>> ELSE <<x \div 256, x % 256>>
FromDig(d) == FoldLeft(LAMBDA acc, x : acc * 256 + x, 0, d)
GcdLaw == GcdOk(a, b, Euclid(a, b))
BigAgrees == /\ FromDig(BinGcd(ToDig(a * 7), ToDig(b * 7))) = Euclid(a * 7, b * 7)
             /\ FromDig(Mul(ToDig(a * 5), ToDig(b * 3))) = a * 5 * b * 3
             /\ (a >= b => FromDig(Sub(ToDig(a * 9), ToDig(b * 9))) = (a - b) * 9)
             /\ (a > 0 => 2 ^ Log2Floor(ToDig(a * 3)) <= a * 3 /\ a * 3 < 2 ^ (Log2Floor(ToDig(a * 3)) + 1))
             /\ Lt(ToDig(a), ToDig(b)) = (a < b)
Vs == {<<x, y, z>> : x \in -1..1, y \in -1..1, z \in -1..1}
OrderLaw == a # 0 \/ b # 0 \/    \* evaluated once (in the state a = b = 0)
            /\ \A u, v \in Vs : ~(VLess(u, v) /\ VLess(v, u)) /\ (VLess(u, v) \/ VLess(v, u) \/ u = v) /\ ~VLess(u, u)
            /\ \A u, v \in Vs : Dot(Cross(u, v), u) = 0 /\ Dot(Cross(u, v), v) = 0
            /\ \A x \in -7..7, y \in {-3, -2, -1, 1, 2, 3} : TruncDiv(x, y) * y + TruncMod(x, y) = x /\ Abs(TruncMod(x, y)) < Abs(y)
                                                           /\ (TruncMod(x, y) = 0 \/ (TruncMod(x, y) < 0) = (x < 0))
=============================================================================
