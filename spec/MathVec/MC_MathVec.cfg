SPECIFICATION Spec
CONSTANT N = 40
INVARIANTS GcdLaw BigAgrees OrderLaw
