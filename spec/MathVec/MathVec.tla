------------------------------ MODULE MathVec ------------------------------
(***************************************************************************)
(* Integer, vector and matrix helpers (src/Math.hh, src/Vector-inl.hh,     *)
(* src/Random.cc), property C20.  Wide integers are base-256 digit         *)
(* sequences, most significant first (BigNat); small ones plain integers.  *)
(***************************************************************************)
EXTENDS Integers, Sequences, SequencesExt, FiniteSets, BigNat

(* ---- small integers --------------------------------------------------------- *)
Divides(g, a) == IF g = 0 THEN a = 0 ELSE a % g = 0
GcdOk(a, b, g) == /\ Divides(g, a) /\ Divides(g, b)
                  /\ \A c \in 1..(IF a > b THEN a ELSE b) : (a % c = 0 /\ b % c = 0) => Divides(c, g)
                  /\ (b = 0 => g = a) /\ (a = 0 => g = b)
Abs(x) == IF x < 0 THEN 0 - x ELSE x
TruncDiv(a, b) == IF (a < 0) = (b < 0) THEN Abs(a) \div Abs(b) ELSE 0 - (Abs(a) \div Abs(b))
TruncMod(a, b) == a - b * TruncDiv(a, b)

(* ---- vectors (sequences of integers) ------------------------------------------ *)
VAdd(u, v) == [i \in DOMAIN u |-> u[i] + v[i]]
VSub(u, v) == [i \in DOMAIN u |-> u[i] - v[i]]
VNeg(u) == [i \in DOMAIN u |-> 0 - u[i]]
VScale(u, k) == [i \in DOMAIN u |-> u[i] * k]
VDivS(u, k) == [i \in DOMAIN u |-> TruncDiv(u[i], k)]
VModS(u, k) == [i \in DOMAIN u |-> TruncMod(u[i], k)]
VAddS(u, k) == [i \in DOMAIN u |-> u[i] + k]
Dot(u, v) == FoldLeft(LAMBDA acc, i : acc + u[i] * v[i], 0, [i \in DOMAIN u |-> i])
Cross(u, v) == <<u[2] * v[3] - u[3] * v[2], u[3] * v[1] - u[1] * v[3], u[1] * v[2] - u[2] * v[1]>>
Norm1(u) == FoldLeft(LAMBDA acc, x : acc + Abs(x), 0, u)
Norm2(u) == Dot(u, u)
RECURSIVE VLess(_, _)
VLess(u, v) == IF u = <<>> THEN FALSE ELSE IF Head(u) # Head(v) THEN Head(u) < Head(v) ELSE VLess(Tail(u), Tail(v))

(* ---- 4x4 matrices (sequence of 4 rows) ------------------------------------------ *)
MMul(A, B) == [i \in 1..4 |-> [j \in 1..4 |-> A[i][1] * B[1][j] + A[i][2] * B[2][j] + A[i][3] * B[3][j] + A[i][4] * B[4][j]]]
MVec(A, v) == [i \in 1..4 |-> A[i][1] * v[1] + A[i][2] * v[2] + A[i][3] * v[3] + A[i][4] * v[4]]
MT(A) == [i \in 1..4 |-> [j \in 1..4 |-> A[j][i]]]
(* M * X = I to 1e-9.  X is given as 12-digit fixed point split in two signed halves: x = (hi * 10^6 + lo) / 10^12;
   M = Mi + Mf * 10^-7 with small integer matrices Mi (ordinary entries) and Mf (tiny couplings).  In units of 10^-12 the
   tiny part contributes mf * (hi * 10^6 + lo) * 10^-7 = mf * hi / 10 (+ less than 2), evaluated with integer division. *)
InvOk(M, Mf, Xhi, Xlo) ==
  \A i \in 1..4, j \in 1..4 :
     LET A == M[i][1] * Xhi[1][j] + M[i][2] * Xhi[2][j] + M[i][3] * Xhi[3][j] + M[i][4] * Xhi[4][j]
         B == M[i][1] * Xlo[1][j] + M[i][2] * Xlo[2][j] + M[i][3] * Xlo[3][j] + M[i][4] * Xlo[4][j]
         F == Mf[i][1] * Xhi[1][j] + Mf[i][2] * Xhi[2][j] + Mf[i][3] * Xhi[3][j] + Mf[i][4] * Xhi[4][j]
         A1 == A - (IF i = j THEN 1000000 ELSE 0) IN
     Abs(A1) <= 1000 /\ Abs(A1 * 1000000 + B + TruncDiv(F, 10)) <= 1000 + 4 * 20 + 12
=============================================================================
