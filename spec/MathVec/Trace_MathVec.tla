---------------------------- MODULE Trace_MathVec ----------------------------
EXTENDS MathVec, TLC, Json, IOUtils
Tr == ndJsonDeserialize(IOEnv.TRACE)
VARIABLE l
Bad(why) == PrintT("BAD " \o ToJson([l |-> l, why |-> why]))
Chk(cond, why) == IF cond THEN TRUE ELSE Bad(why)
ChkAll(S, P(_), why) == LET f == {i \in S : ~P(i)} IN IF f = {} THEN TRUE ELSE Bad(why \o " [failing indices " \o ToString(f) \o "]")
Init == l = 1
B(x) == IF x THEN 1 ELSE 0

VecOp(ev, i) ==
  LET u == ev.u[i] v == ev.v[i] k == ev.k[i] r == ev.r[i] IN
  CASE ev.op = "add" -> r = VAdd(u, v) [] ev.op = "sub" -> r = VSub(u, v) [] ev.op = "neg" -> r = VNeg(u)
    [] ev.op = "adds" -> r = VAddS(u, k) [] ev.op = "subs" -> r = VAddS(u, 0 - k)
    [] ev.op = "mul" -> r = VScale(u, k) [] ev.op = "div" -> r = VDivS(u, k) [] ev.op = "mod" -> r = VModS(u, k)
    [] ev.op = "eq" -> r = <<B(u = v)>> [] ev.op = "ne" -> r = <<B(u # v)>> [] ev.op = "lt" -> r = <<B(VLess(u, v))>>
    [] ev.op = "not" -> r = <<B(\A j \in DOMAIN u : u[j] = 0)>>
    [] ev.op = "dot" -> r = <<Dot(u, v)>> [] ev.op = "cross" -> r = Cross(u, v) /\ Dot(r, u) = 0 /\ Dot(r, v) = 0
    [] ev.op = "norm1" -> r = <<Norm1(u)>> [] ev.op = "norm2" -> r = <<Norm2(u)>>
    [] ev.op = "at" -> r = u                 \* at(i) for every i, collected in order
    [] ev.op = "compound" -> r = VScale(VAddS(VSub(VAdd(u, v), v), k), 1)      \* ((u += v) -= v) += k
    [] OTHER -> FALSE

Step(ev) ==
  CASE ev.e = "Reset" -> TRUE
    [] ev.e = "gcd" ->      \* small operands, one batch: as[i], bs[i], gs[i], reduced fractions xs[i] / ys[i]
         LET G(i) == /\ GcdOk(ev.as[i], ev.bs[i], ev.gs[i])
                     /\ (ev.gs[i] # 0 => ev.xs[i] * ev.gs[i] = ev.as[i] /\ ev.ys[i] * ev.gs[i] = ev.bs[i]
                                          /\ GcdOk(ev.xs[i], ev.ys[i], 1)) IN
         ChkAll(DOMAIN ev.as, G, "gcd / reduce_fraction (" \o ev.type \o ") violate their defining equations")
    [] ev.e = "gcdbig" ->   \* wide operands as digit strings
         LET G(i) == /\ Eq(ev.gs[i], BinGcd(ev.as[i], ev.bs[i]))
                     /\ Eq(Mul(ev.xs[i], ev.gs[i]), ev.as[i]) /\ Eq(Mul(ev.ys[i], ev.gs[i]), ev.bs[i])
                     /\ Eq(BinGcd(ev.xs[i], ev.ys[i]), <<1>>) IN
         ChkAll(DOMAIN ev.as, G, "gcd / reduce_fraction on wide operands (" \o ev.type \o ")")
    [] ev.e = "log2" ->
         LET G(i) == ev.rs[i] = Log2Floor(ev.vs[i]) IN
         ChkAll(DOMAIN ev.vs, G, "log2i<" \o ev.type \o "> is not floor(log2 v)")
    [] ev.e = "rint" ->
         LET G(i) == SLe(ev.lo[i], ev.r[i]) /\ SLe(ev.r[i], ev.hi[i]) IN
         ChkAll(DOMAIN ev.lo, G, "random_int outside [lo,hi]")
    [] ev.e = "rdata" ->
         /\ Chk(ev.outside = 0, "random_data wrote outside the requested bytes")
         /\ Chk(ev.unfilled = 0, "random_data left requested bytes unfilled in every one of the calls")
         /\ Chk(ev.len = ev.n, "random_data(n) string form has the wrong length")
    [] ev.e = "vec" -> LET G(i) == VecOp(ev, i) IN ChkAll(DOMAIN ev.u, G, "Vector" \o ToString(ev.dim) \o " " \o ev.op \o ": not the componentwise definition")
    [] ev.e = "mat" ->
         LET G(i) == /\ ev.ab[i] = MMul(ev.a[i], ev.b[i])
                     /\ ev.abv[i] = MVec(ev.ab[i], ev.v[i]) /\ ev.abv[i] = MVec(ev.a[i], MVec(ev.b[i], ev.v[i]))
                     /\ ev.at[i] = MT(ev.a[i]) /\ ev.att[i] = ev.a[i] IN
         ChkAll(DOMAIN ev.a, G, "Matrix4 product / transposition laws")
    [] ev.e = "inv" ->
         LET G(i) == InvOk(ev.m[i], ev.mf[i], ev.xhi[i], ev.xlo[i]) IN
         ChkAll(DOMAIN ev.m, G, "M * inverse(M) is not the identity to 1e-9")
    [] ev.e = "invthrew" -> Bad("inverse of a strictly diagonally dominant matrix threw")
    [] OTHER -> Bad("no specification action for event " \o ev.e)
Next == l <= Len(Tr) /\ l' = l + 1 /\ Step(Tr[l])
Spec == Init /\ [][Next]_l
Done == (l = Len(Tr) + 1) => PrintT("TRACE-DONE " \o ToString(Len(Tr)))
=============================================================================
