------------------------------- MODULE MC_Json -------------------------------
(* The reference reader itself: total on every text up to MaxLen over a JSON-relevant alphabet; every standard document is
   accepted with the same value when the extensions are on ("the extensions do not make any standard JSON unparseable"). *)
EXTENDS Json8259, TLC
CONSTANTS Alphabet, MaxLen
VARIABLE s
Init == s = <<>>
Next == Len(s) < MaxLen /\ \E c \in Alphabet : s' = Append(s, c)
Spec == Init /\ [][Next]_s
Total == ParseDoc(s, FALSE).ok \in BOOLEAN /\ ParseDoc(s, TRUE).ok \in BOOLEAN
StdImpliesExt == LET a == ParseDoc(s, FALSE) b == ParseDoc(s, TRUE) IN a.ok => (b.ok /\ b.v = a.v /\ b.end = a.end)
Known == /\ ParseDoc(<<91, 93>>, FALSE).v = [t |-> "list", v |-> <<>>] /\ ParseDoc(<<123, 125>>, FALSE).ok
         /\ ParseDoc(<<53, 101, 45, 49>>, FALSE).v.d = <<5, 0, 0, 0, 0, 0>> /\ ParseDoc(<<53, 101, 45, 49>>, FALSE).v.e = -1   \* 5e-1
         /\ ~ParseDoc(<<91, 49, 44, 93>>, FALSE).ok /\ ParseDoc(<<91, 49, 44, 93>>, TRUE).ok                                   \* [1,]
         /\ ~ParseDoc(<<48, 49>>, FALSE).ok /\ ~ParseDoc(<<45>>, FALSE).ok /\ ~ParseDoc(<<49, 46>>, FALSE).ok /\ ~ParseDoc(<<110>>, FALSE).ok
         /\ ParseDoc(<<110>>, TRUE).v = [t |-> "null"] /\ ParseDoc(<<34, 92, 117, 48, 48, 101, 57, 34>>, FALSE).v.s = <<233>>
         /\ ~ParseDoc(<<34, 92, 117, 48, 49, 48, 48, 34>>, FALSE).ok /\ ~ParseDoc(<<34, 10, 34>>, FALSE).ok
         /\ ParseDoc(<<32, 49, 50, 32>>, FALSE).end = 3
=============================================================================
