SPECIFICATION Spec
INVARIANT Done
