----------------------------- MODULE JsonValue -----------------------------
(***************************************************************************)
(* Extension area X01 (beyond the listed properties): the value layer of   *)
(* phosg::JSON - type predicates, converting accessors, element access     *)
(* with defaults, and the partial order operator<=>.                       *)
(*                                                                         *)
(* Values (as logged by harness/drv_jsonvalue.cc):                         *)
(*   [t |-> "null"]  [t |-> "bool", b]  [t |-> "int", n]                   *)
(*   [t |-> "float", h, nan]   value = h / 2 (halves are exact in binary), *)
(*                             nan = 1 for NaN                             *)
(*   [t |-> "str", s]  [t |-> "list", v]  [t |-> "dict", k, v]             *)
(* Numbers stay below 2^30 in magnitude so that int -> double conversion   *)
(* is exact and the checker's integers suffice.                            *)
(***************************************************************************)
EXTENDS Integers, Sequences, FiniteSets

IsNum(a) == a.t \in {"int", "float"}
IsNaN(a) == a.t = "float" /\ a.nan = 1
Twice(a) == IF a.t = "int" THEN 2 * a.n ELSE a.h          \* twice the numeric value
Ord(x, y) == IF x < y THEN "lt" ELSE IF x > y THEN "gt" ELSE "eq"
Flip(r) == CASE r = "lt" -> "gt" [] r = "gt" -> "lt" [] OTHER -> r

(* byte strings compare like std::string::compare: first differing byte (unsigned), then length *)
RECURSIVE LexBytes(_, _, _)
LexBytes(a, b, i) == IF i > Len(a) \/ i > Len(b) THEN Ord(Len(a), Len(b))
                     ELSE IF a[i] # b[i] THEN Ord(a[i], b[i]) ELSE LexBytes(a, b, i + 1)

(* Cmp(a, b) in {"lt", "eq", "gt", "un"}: ints and floats compare by value across the two kinds, every other
   cross-type pair is unordered; lists compare lexicographically (the first non-equal item decides, which may be
   "un"), then by length; dicts are equal iff same key set with equal values, otherwise unordered. *)
RECURSIVE Cmp(_, _)
RECURSIVE LexList(_, _, _)
LexList(a, b, i) == IF i > Len(a) \/ i > Len(b) THEN Ord(Len(a), Len(b))
                    ELSE LET r == Cmp(a[i], b[i]) IN IF r # "eq" THEN r ELSE LexList(a, b, i + 1)
Cmp(a, b) ==
  IF IsNum(a) /\ IsNum(b) THEN (IF IsNaN(a) \/ IsNaN(b) THEN "un" ELSE Ord(Twice(a), Twice(b)))
  ELSE IF a.t # b.t THEN "un"
  ELSE CASE a.t = "null" -> "eq"
         [] a.t = "bool" -> Ord(a.b, b.b)
         [] a.t = "str" -> LexBytes(a.s, b.s, 1)
         [] a.t = "list" -> LexList(a.v, b.v, 1)
         [] a.t = "dict" -> IF Len(a.k) = Len(b.k)
                               /\ \A i \in DOMAIN a.k : \E j \in DOMAIN b.k : b.k[j] = a.k[i] /\ Cmp(a.v[i], b.v[j]) = "eq"
                            THEN "eq" ELSE "un"

(* the six relational operators derived from the ordering *)
Rel(op, r) == CASE op = "eq" -> r = "eq" [] op = "ne" -> r # "eq" [] op = "lt" -> r = "lt" [] op = "le" -> r \in {"lt", "eq"}
                [] op = "gt" -> r = "gt" [] op = "ge" -> r \in {"gt", "eq"}

(* ---- accessors: outcome [out, val]; out in {"ok", "type_error", "out_of_range"} ------------------------- *)
Ok(v) == [out |-> "ok", val |-> v]
Err(e) == [out |-> e, val |-> [t |-> "null"]]
TruncHalf(h) == IF h >= 0 THEN h \div 2 ELSE 0 - ((0 - h) \div 2)          \* (int64_t)(h / 2.0): truncation toward zero
As(kind, a) ==          \* as_bool / as_int / as_float / as_string / as_list / as_dict
  CASE kind = "bool" -> IF a.t = "bool" THEN Ok(a) ELSE Err("type_error")
    [] kind = "int" -> IF a.t = "int" THEN Ok(a) ELSE IF a.t = "float" /\ a.nan = 0 THEN Ok([t |-> "int", n |-> TruncHalf(a.h)])
                       ELSE IF a.t = "float" THEN Ok([t |-> "any"])        \* NaN -> int is unspecified: any value
                       ELSE Err("type_error")
    [] kind = "float" -> IF a.t = "float" THEN Ok(a) ELSE IF a.t = "int" THEN Ok([t |-> "float", h |-> 2 * a.n, nan |-> 0]) ELSE Err("type_error")
    [] kind = "str" -> IF a.t = "str" THEN Ok(a) ELSE Err("type_error")
    [] kind = "list" -> IF a.t = "list" THEN Ok(a) ELSE Err("type_error")
    [] kind = "dict" -> IF a.t = "dict" THEN Ok(a) ELSE Err("type_error")
AtKey(a, key) == IF a.t # "dict" THEN Err("type_error")
                 ELSE LET S == {i \in DOMAIN a.k : a.k[i] = key} IN IF S = {} THEN Err("out_of_range") ELSE Ok(a.v[CHOOSE i \in S : TRUE])
AtIndex(a, i) == IF a.t # "list" THEN Err("type_error") ELSE IF i >= Len(a.v) THEN Err("out_of_range") ELSE Ok(a.v[i + 1])
(* get_<kind>(key|index [, default]): the element converted; the default only replaces an ABSENT element -
   a present element of the wrong type is still a type_error, as is a container of the wrong type *)
Get(kind, el, hasdef, def) ==
  IF el.out = "ok" THEN As(kind, el.val)
  ELSE IF el.out = "out_of_range" /\ hasdef THEN Ok(def) ELSE el
Size(a) == IF a.t = "list" THEN Ok([t |-> "int", n |-> Len(a.v)]) ELSE IF a.t = "dict" THEN Ok([t |-> "int", n |-> Len(a.k)]) ELSE Err("type_error")

(* structural identity of logged values (same kind; NaN is the same as NaN; dict entries in any order) *)
RECURSIVE SameVal(_, _)
SameVal(x, y) ==
  /\ x.t = y.t
  /\ CASE x.t = "null" -> TRUE
        [] x.t = "bool" -> x.b = y.b
        [] x.t = "int" -> x.n = y.n
        [] x.t = "float" -> x.nan = y.nan /\ (x.nan = 1 \/ x.h = y.h)
        [] x.t = "str" -> x.s = y.s
        [] x.t = "list" -> Len(x.v) = Len(y.v) /\ \A i \in DOMAIN x.v : SameVal(x.v[i], y.v[i])
        [] x.t = "dict" -> Len(x.k) = Len(y.k) /\ \A i \in DOMAIN x.k : \E j \in DOMAIN y.k : y.k[j] = x.k[i] /\ SameVal(x.v[i], y.v[j])
        [] OTHER -> FALSE
=============================================================================
