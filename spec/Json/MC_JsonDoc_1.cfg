SPECIFICATION Spec
CONSTANTS NDocs = 1  MaxW = 5
CONSTRAINT Bound
INVARIANTS WellFormed Lens Local Ops SwapTwice
