----------------------------- MODULE Trace_Json -----------------------------
(* Trace validation for C04 (serialize -> parse identity) and C05 (parser totality / conformance). *)
EXTENDS Json8259, TLC, Json, IOUtils
Tr == ndJsonDeserialize(IOEnv.TRACE)
VARIABLE l
Bad(why) == PrintT("BAD " \o ToJson([l |-> l, why |-> why]))
Chk(cond, why) == IF cond THEN TRUE ELSE Bad(why)
Init == l = 1
NonStdOpts(o) == (o % 4 # 0) \/ ((o \div 16) % 4 # 0)         \* HEX_INTEGERS, ONE_CHARACTER.., HEX_ESCAPE_CODES, ESCAPE_CONTROLS_ONLY
Documented(out) == out \in {"ok", "parse_error", "out_of_range"}

(* the value at a path of 1-based positions (lists and dicts both log their members in .v) *)
RECURSIVE SubAt(_, _)
SubAt(v, path) == IF path = <<>> THEN v ELSE SubAt(v.v[Head(path)], Tail(path))
SameBoth(a, b) == VEq(a, b, TRUE) /\ VEq(b, a, TRUE)
(* C04: one (tree, option set) *)
RoundTrip(ev) ==
  LET pe == ParseDoc(ev.text, TRUE) IN
  /\ Chk(pe.ok /\ VEq(pe.v, ev.tree, TRUE), "serialized text, read by the reference reader, is not the original value")
  /\ Chk(ev.pdef.out = "ok" /\ VEq(ev.tree, ev.pdef.v, TRUE) /\ VEq(ev.pdef.v, ev.tree, TRUE),
         "JSON::parse(serialize(v)) is not equal to v with the same integer/float kind")
  /\ IF NonStdOpts(ev.opts) THEN TRUE
     ELSE LET ps == ParseDoc(ev.text, FALSE) IN
          /\ Chk(ps.ok /\ VEq(ps.v, ev.tree, TRUE), "text produced without non-standard options is not standard JSON for the same value")
          /\ Chk(ev.pstrict.out = "ok" /\ VEq(ev.tree, ev.pstrict.v, TRUE), "strict mode does not accept / reproduce text produced without non-standard options")
  /\ Chk(ev.resort = 1, "re-serializing the parsed value with sorted keys does not reproduce the sorted serialization")
  /\ Chk(ev.copyeq = 1 /\ ev.copydeep = 1, "copies are not deep or do not compare equal to their source")
  /\ Chk(\A i \in DOMAIN ev.assigned : VEq(ev.tree, ev.assigned[i], TRUE) /\ VEq(ev.assigned[i], ev.tree, TRUE),
         "copy assignment onto a destination that already holds a value does not produce a value equal to the source")
  /\ Chk(ev.selfres.t = "skip" \/ SameBoth(ev.tree, ev.selfres), "assigning a value to itself changed it")
  /\ Chk(\A i \in DOMAIN ev.childsel : SameBoth(SubAt(ev.tree, ev.childsel[i]), ev.childres[i]),
         "assigning a value from one of its own members (a = a.at(i)) does not produce a copy of that member")

(* C05: one text through both modes and the three entry points.  res = <<reader def, ptr def, string def, reader strict, ptr strict, string strict>> *)
ParseEv(ev) ==
  LET body == IF ev.label = "trail" THEN SubSeq(ev.text, 1, ev.base) ELSE ev.text
      ps == ParseDoc(body, FALSE)
      pe == ParseDoc(body, TRUE)
      std == ps.ok /\ NoDupKeys(ps.v)
      isExt == ~ps.ok /\ pe.ok /\ NoDupKeys(pe.v)
      okVal(r, ref) == r.out = "ok" /\ VEq(ref, r.v, FALSE)
      rejected(r) == r.out \in {"parse_error", "out_of_range"} IN
  /\ Chk(\A i \in 1..6 : Documented(ev.res[i].out), "parse threw something other than parse_error / out_of_range (or crashed)")
  /\ IF ev.label = "trail"        \* a standard value followed by non-blank garbage
       THEN /\ Chk(okVal(ev.res[1], ps.v) /\ okVal(ev.res[4], ps.v) /\ ev.res[1].where = ps.end /\ ev.res[4].where = ps.end,
                   "reader entry point must consume exactly the extent of one value")
            /\ Chk(\A i \in {2, 3, 5, 6} : rejected(ev.res[i]), "string entry points must reject trailing non-whitespace")
     ELSE IF std
       THEN /\ Chk(\A i \in 1..6 : okVal(ev.res[i], ps.v), "a standard-compliant document is rejected or valued differently from the reference reader")
            /\ Chk(ev.res[1].where = ps.end /\ ev.res[4].where = ps.end, "reader entry point must consume exactly the extent of one value")
     ELSE IF isExt /\ ev.label = "ext"
       THEN /\ Chk(\A i \in 1..3 : okVal(ev.res[i], pe.v), "default mode does not give a documented extension its documented meaning")
            /\ Chk(\A i \in 5..6 : rejected(ev.res[i]), "strict mode accepts a documented extension")
            \* the READER entry point stops right after one value: when the extension lies entirely behind the value
            \* (a trailing comment), the strict reader never sees it and rightly returns the value
            /\ Chk(rejected(ev.res[4])
                   \/ LET pp == ParseDoc(SubSeq(body, 1, pe.end), FALSE) IN
                      pp.ok /\ NoDupKeys(pp.v) /\ okVal(ev.res[4], pp.v) /\ ev.res[4].where = pe.end,
                   "strict mode (reader entry point) accepts a documented extension inside the value")
     ELSE TRUE

TStep(ev) ==
  CASE ev.e = "Reset" -> TRUE
    [] ev.e = "rt" -> RoundTrip(ev)
    [] ev.e = "p" -> ParseEv(ev)
    [] OTHER -> Bad("no specification action for event " \o ev.e)
Next == l <= Len(Tr) /\ l' = l + 1 /\ TStep(Tr[l])
Spec == Init /\ [][Next]_l
Done == (l = Len(Tr) + 1) => PrintT("TRACE-DONE " \o ToString(Len(Tr)))
=============================================================================
