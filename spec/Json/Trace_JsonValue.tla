-------------------------- MODULE Trace_JsonValue --------------------------
(* Trace validation for the extension area X01: every recorded comparison and accessor outcome of phosg::JSON
   against spec/Json/JsonValue. *)
EXTENDS JsonValue, TLC, Json, IOUtils
Tr == ndJsonDeserialize(IOEnv.TRACE)
VARIABLE l
Bad(why) == PrintT("BAD " \o ToJson([l |-> l, why |-> why]))
Chk(cond, why) == IF cond THEN TRUE ELSE Bad(why)
Init == l = 1
OPS == <<"eq", "ne", "lt", "le", "gt", "ge">>
Outcome(ev, exp) == /\ ev.out = exp.out
                    /\ (exp.out = "ok" /\ exp.val.t # "any") => SameVal(ev.val, exp.val)
KeyBytes(ev) == IF ev.key = <<>> THEN <<>> ELSE ev.key
Step(ev) ==
  CASE ev.e = "Reset" -> TRUE
    [] ev.e = "cmp" -> LET r == Cmp(ev.a, ev.b) IN
         /\ Chk(ev.r = r, "operator<=> differs from the value ordering (numbers across int/float, strings, lists lexicographic, dicts by key set)")
         /\ Chk(\A i \in 1..6 : (ev.ops[i] = 1) = Rel(OPS[i], r), "relational operators are not the ones derived from the ordering")
    [] ev.e = "as" -> Chk(Outcome(ev, As(ev.kind, ev.a)), "as_" \o ev.kind \o ": value iff the kinds match (int and float convert into each other), else type_error")
    [] ev.e = "size" -> LET s == Size(ev.a) IN Chk(ev.out = s.out /\ (s.out = "ok" => ev.n = s.val.n), "size()")
    [] ev.e = "empty" -> LET z == Size(ev.a) IN Chk(ev.out = z.out /\ (z.out = "ok" => ev.n = (IF z.val.n = 0 THEN 1 ELSE 0)), "empty()")
    [] ev.e = "clear" -> /\ Chk(ev.out = Size(ev.a).out, "clear(): containers only")
                         /\ Chk(SameVal(ev.orig, ev.a), "clear() on a copy changed the original")
                         /\ Chk(ev.out # "ok" \/ SameVal(ev.val, IF ev.a.t = "list" THEN [t |-> "list", v |-> <<>>] ELSE [t |-> "dict", k |-> <<>>, v |-> <<>>]),
                                "clear() must leave an empty container of the same kind")
    [] ev.e = "setat" -> Chk(SameVal(ev.val, [ev.a EXCEPT !.v[ev.index + 1] = [t |-> "str", s |-> <<114, 101, 112, 108, 97, 99, 101, 100>>]]),
                             "assignment through at(index) must replace exactly that element")
    [] ev.e = "at" -> Chk(Outcome(ev, IF ev.bykey = 1 THEN AtKey(ev.a, ev.key) ELSE AtIndex(ev.a, ev.index)),
                          "at(): the element, out_of_range when absent, type_error on the wrong container")
    [] ev.e = "get" -> LET el == IF ev.bykey = 1 THEN AtKey(ev.a, ev.key) ELSE AtIndex(ev.a, ev.index) IN
                       Chk(Outcome(ev, Get(ev.kind, el, ev.hasdef = 1, ev.def)),
                           "get_" \o ev.kind \o ": converted element; the default replaces exactly an absent element")
    [] ev.e = "getj" -> LET el == AtKey(ev.a, ev.key) IN
                        Chk(Outcome(ev, IF el.out = "out_of_range" THEN Ok(ev.def) ELSE el), "get(key, default)")
    [] OTHER -> Bad("no specification action for event " \o ev.e)
Next == l <= Len(Tr) /\ l' = l + 1 /\ Step(Tr[l])
Spec == Init /\ [][Next]_l
Done == (l = Len(Tr) + 1) => PrintT("TRACE-DONE " \o ToString(Len(Tr)))
=============================================================================
