SPECIFICATION Spec
CONSTANTS NDocs = 2  MaxW = 3
CONSTRAINT Bound
INVARIANTS WellFormed Lens Local Ops SwapTwice
