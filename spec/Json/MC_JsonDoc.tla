---------------------------- MODULE MC_JsonDoc ----------------------------
(* Bounded model of the mutable-document operations of JsonDoc: every document reachable from empty containers by the
   modelled operations (new content: a literal, or a copy of any part of any document - the target itself, an ancestor
   or a member of it included) satisfies the structural invariant and the access / operation laws. *)
EXTENDS JsonDoc, TLC
CONSTANTS NDocs, MaxW
VARIABLE docs
Null == [t |-> "null"]
One == [t |-> "int", n |-> 1]
Lits == {Null, One, EmptyOf("list"), EmptyOf("dict")}
Keys == {<<97>>, <<98>>}
RECURSIVE Weight(_)
SumSeq(s) == IF s = <<>> THEN 0 ELSE LET RECURSIVE S(_) S(i) == IF i = 0 THEN 0 ELSE Weight(s[i]) + S(i - 1) IN S(Len(s))
Weight(v) == 1 + (IF v.t \in {"list", "dict"} THEN SumSeq(v.v) ELSE 0)
D == 1..NDocs
Init == docs = [d \in D |-> IF d = 1 THEN EmptyOf("list") ELSE EmptyOf("dict")]
(* new content: literals and copies of every part of every document *)
Sources == Lits \cup UNION {{GetAt(docs[d], p) : p \in Paths(docs[d])} : d \in D}
Upd(d, p, nv) == docs' = [docs EXCEPT ![d] = SetAt(docs[d], p, nv)]
Next ==
  \/ \E d \in D : \E p \in Paths(docs[d]) : \E x \in Sources :
       LET t == GetAt(docs[d], p) IN
       \/ Upd(d, p, PushBack(t, x).val)
       \/ Upd(d, p, x)                                          \* copy assignment
       \/ \E key \in Keys : Upd(d, p, Insert(t, key, x).val)
       \/ \E key \in Keys : Upd(d, p, Erase(t, key).val)
       \/ Upd(d, p, Clear(t).val)
       \/ \E n \in 0..2 : Upd(d, p, Resize(t, n, x).val)
  \/ \E d1 \in D, d2 \in D : \E p1 \in Paths(docs[d1]), p2 \in Paths(docs[d2]) :      \* swap of two disjoint parts
       /\ (d1 # d2 \/ (~IsPrefixOf(p1, p2) /\ ~IsPrefixOf(p2, p1)))
       /\ LET a == GetAt(docs[d1], p1) b == GetAt(docs[d2], p2) IN
          IF d1 = d2 THEN docs' = [docs EXCEPT ![d1] = SetAt(SetAt(docs[d1], p1, b), p2, a)]
          ELSE docs' = [docs EXCEPT ![d1] = SetAt(docs[d1], p1, b), ![d2] = SetAt(docs[d2], p2, a)]
Spec == Init /\ [][Next]_docs
Bound == \A d \in D : Weight(docs[d]) <= MaxW

WellFormed == \A d \in D : NoDupKeysDeep(docs[d])
Lens == \A d \in D : LensLaws(docs[d], One, Null)
Local == \A d \in D : Locality(docs[d], One)
Ops == \A d \in D : \A p \in Paths(docs[d]) : \A key \in Keys : OpLaws(GetAt(docs[d], p), key, One)
(* a swap done twice is the identity (evaluated on the current state for all disjoint pairs of one document) *)
SwapTwice == \A d \in D : \A p1 \in Paths(docs[d]), p2 \in Paths(docs[d]) :
  (~IsPrefixOf(p1, p2) /\ ~IsPrefixOf(p2, p1)) =>
     LET sw(v) == SetAt(SetAt(v, p1, GetAt(v, p2)), p2, GetAt(v, p1)) IN sw(sw(docs[d])) = docs[d]
=============================================================================
