SPECIFICATION Spec
CONSTANTS Alphabet = {91, 93, 123, 125, 44, 58, 34, 92, 48, 49, 45, 101, 46, 120, 110, 47, 32}  MaxLen = 4
INVARIANTS Total StdImpliesExt Known
