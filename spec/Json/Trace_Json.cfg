SPECIFICATION Spec
INVARIANT Done
