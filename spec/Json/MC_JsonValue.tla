--------------------------- MODULE MC_JsonValue ---------------------------
(* Laws of the value ordering and of the accessors, checked on every pair (triple) of a pool of small values. *)
EXTENDS JsonValue, TLC
Null == [t |-> "null"]
Atoms == {Null} \cup {[t |-> "bool", b |-> x] : x \in {0, 1}} \cup {[t |-> "int", n |-> x] : x \in {-1, 0, 1}}
           \cup {[t |-> "float", h |-> x, nan |-> 0] : x \in {-1, 0, 1, 2}} \cup {[t |-> "float", h |-> 0, nan |-> 1]}
           \cup {[t |-> "str", s |-> x] : x \in {<<>>, <<97>>, <<98>>, <<97, 98>>}}
Lists == {[t |-> "list", v |-> <<>>]} \cup {[t |-> "list", v |-> <<x>>] : x \in Atoms} \cup {[t |-> "list", v |-> <<x, y>>] : x \in Atoms, y \in Atoms}
Dicts == {[t |-> "dict", k |-> <<>>, v |-> <<>>]} \cup {[t |-> "dict", k |-> <<kk>>, v |-> <<x>>] : kk \in {<<97>>, <<98>>}, x \in Atoms}
           \cup {[t |-> "dict", k |-> ks, v |-> <<x, y>>] : ks \in {<<<<97>>, <<98>>>>, <<<<98>>, <<97>>>>}, x \in Atoms, y \in Atoms}
Pool == Atoms \cup Lists \cup Dicts
Small == Atoms \cup {[t |-> "list", v |-> <<x>>] : x \in Atoms} \cup {[t |-> "list", v |-> <<>>]}
           \cup {[t |-> "list", v |-> <<x, y>>] : x \in {Null, [t |-> "int", n |-> 0], [t |-> "int", n |-> 1]}, y \in {[t |-> "int", n |-> 0], [t |-> "float", h |-> 1, nan |-> 0]}}
VARIABLES a, b
Init == a \in Pool /\ b \in Pool
Next == UNCHANGED <<a, b>>
Spec == Init /\ [][Next]_<<a, b>>
RECURSIVE HasNaN(_)
HasNaN(x) == IF x.t = "float" THEN x.nan = 1 ELSE IF x.t \in {"list", "dict"} THEN \E i \in DOMAIN x.v : HasNaN(x.v[i]) ELSE FALSE
Antisym == Cmp(a, b) = Flip(Cmp(b, a))
Reflexive == HasNaN(a) \/ Cmp(a, a) = "eq"
(* on the reduced pool: equality is transitive and compatible with the order *)
Transitive == (a \in Small /\ b \in Small) =>
                \A c \in Small : /\ (Cmp(a, b) = "eq" /\ Cmp(b, c) = "eq") => Cmp(a, c) = "eq"
                                 /\ (Cmp(a, b) = "eq") => Cmp(a, c) = Cmp(b, c)
                                 /\ (Cmp(a, b) = "lt" /\ Cmp(b, c) = "lt") => Cmp(a, c) = "lt"
RelLaws == LET r == Cmp(a, b) IN
           /\ Rel("ne", r) = ~Rel("eq", r)
           /\ Rel("le", r) = (Rel("lt", r) \/ Rel("eq", r))
           /\ Rel("ge", r) = (Rel("gt", r) \/ Rel("eq", r))
           /\ (r = "un") => (~Rel("lt", r) /\ ~Rel("le", r) /\ ~Rel("gt", r) /\ ~Rel("ge", r) /\ Rel("ne", r))
(* accessors: a default is used exactly for an absent element; conversions between int and float only *)
AccessLaws ==
  /\ \A kind \in {"bool", "int", "float", "str", "list", "dict"} :
       /\ As(kind, a).out \in {"ok", "type_error"}
       /\ (As(kind, a).out = "ok") = (a.t = kind \/ (kind \in {"int", "float"} /\ IsNum(a)))
       /\ \A key \in {<<97>>, <<99>>} :
            LET el == AtKey(a, key) g == Get(kind, el, TRUE, b) IN
            /\ (a.t = "dict" /\ el.out = "out_of_range") => (g.out = "ok" /\ g.val = b)
            /\ (el.out = "ok") => g = As(kind, el.val)
            /\ (a.t # "dict") => g.out = "type_error"
  /\ \A i \in 0..2 : (AtIndex(a, i).out = "ok") = (a.t = "list" /\ i < Len(a.v))
=============================================================================
