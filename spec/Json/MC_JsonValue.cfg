SPECIFICATION Spec
INVARIANTS Antisym Reflexive Transitive RelLaws AccessLaws
