SPECIFICATION Spec
INVARIANT Done
