------------------------------ MODULE JsonDoc ------------------------------
(***************************************************************************)
(* Extension area X02 (beyond the listed properties): phosg::JSON as a     *)
(* MUTABLE DOCUMENT.  Two documents are changed in place through paths     *)
(* (at(index) / at(key) chains): emplace_back, resize, clear, emplace /    *)
(* insert, erase, copy assignment and swap, where the new content may be a *)
(* literal or ANOTHER PART OF THE SAME OR THE OTHER DOCUMENT (the source   *)
(* may be the target itself, an ancestor or a member of it).  The model is *)
(* by value: a copy never changes when its source changes later, an        *)
(* operation changes exactly the addressed member, and failing operations  *)
(* (wrong container kind) change nothing.                                  *)
(*                                                                         *)
(* Values are those of JsonValue (null / bool / int / str / list / dict;   *)
(* dict = key sequence k + value sequence v, order irrelevant).            *)
(* A path is a sequence of elements [i, key]: i >= 0 selects list member i *)
(* (0-based, as at(size_t)), i = -1 selects the dict member with that key. *)
(***************************************************************************)
EXTENDS JsonValue

EmptyOf(kind) == IF kind = "list" THEN [t |-> "list", v |-> <<>>] ELSE [t |-> "dict", k |-> <<>>, v |-> <<>>]
KeyPos(v, key) == IF \E i \in DOMAIN v.k : v.k[i] = key THEN CHOOSE i \in DOMAIN v.k : v.k[i] = key ELSE 0
(* position (1-based, in .v) of the member a path element selects, 0 if there is none *)
Member(v, e) == IF e.i >= 0 THEN (IF v.t = "list" /\ e.i < Len(v.v) THEN e.i + 1 ELSE 0)
                ELSE (IF v.t = "dict" THEN KeyPos(v, e.key) ELSE 0)

RECURSIVE Valid(_, _), GetAt(_, _), SetAt(_, _, _)
Valid(v, p) == p = <<>> \/ (Member(v, Head(p)) # 0 /\ Valid(v.v[Member(v, Head(p))], Tail(p)))
GetAt(v, p) == IF p = <<>> THEN v ELSE GetAt(v.v[Member(v, Head(p))], Tail(p))
SetAt(v, p, nv) == IF p = <<>> THEN nv
                   ELSE LET m == Member(v, Head(p)) IN [v EXCEPT !.v[m] = SetAt(v.v[m], Tail(p), nv)]
IsPrefixOf(p, q) == Len(p) <= Len(q) /\ SubSeq(q, 1, Len(p)) = p

(* ---- the operations on one addressed value: [out, val (the value afterwards), ret] ------------------------ *)
Res(out, val, ret) == [out |-> out, val |-> val, ret |-> ret]
TypeErr(t) == Res("type_error", t, 0)
RemoveAt(s, i) == SubSeq(s, 1, i - 1) \o SubSeq(s, i + 1, Len(s))
PushBack(t, x) == IF t.t # "list" THEN TypeErr(t) ELSE Res("ok", [t EXCEPT !.v = Append(@, x)], 0)
Resize(t, n, fill) == IF t.t # "list" THEN TypeErr(t)
                      ELSE IF n >= Len(t.v) THEN Res("ok", [t EXCEPT !.v = @ \o [i \in 1..(n - Len(t.v)) |-> fill]], 0)
                      ELSE Res("ok", [t EXCEPT !.v = SubSeq(@, 1, n)], 0)
Clear(t) == IF t.t \notin {"list", "dict"} THEN TypeErr(t) ELSE Res("ok", EmptyOf(t.t), 0)
(* emplace / insert: std::unordered_map::emplace semantics - an existing key keeps its value *)
Insert(t, key, x) == IF t.t # "dict" THEN TypeErr(t)
                     ELSE IF KeyPos(t, key) # 0 THEN Res("ok", t, 0)
                     ELSE Res("ok", [t EXCEPT !.k = Append(@, key), !.v = Append(@, x)], 1)
Erase(t, key) == IF t.t # "dict" THEN TypeErr(t)
                 ELSE LET i == KeyPos(t, key) IN
                      IF i = 0 THEN Res("ok", t, 0) ELSE Res("ok", [t EXCEPT !.k = RemoveAt(@, i), !.v = RemoveAt(@, i)], 1)
Count(t, key) == IF t.t # "dict" THEN TypeErr(t) ELSE Res("ok", t, IF KeyPos(t, key) # 0 THEN 1 ELSE 0)
SizeOf(t) == IF t.t \notin {"list", "dict"} THEN TypeErr(t) ELSE Res("ok", t, Len(t.v))
(* front() / back() of a non-empty list (of an empty one: undefined behaviour, never driven) *)
Front(t) == IF t.t # "list" THEN TypeErr(t) ELSE Res("ok", t, 0)

(* ---- laws (checked by MC_JsonDoc on every reachable document) --------------------------------------------- *)
RECURSIVE NoDupKeysDeep(_)
NoDupKeysDeep(v) == CASE v.t = "list" -> \A i \in DOMAIN v.v : NoDupKeysDeep(v.v[i])
                      [] v.t = "dict" -> Cardinality({v.k[i] : i \in DOMAIN v.k}) = Len(v.k) /\ Len(v.k) = Len(v.v)
                                         /\ \A i \in DOMAIN v.v : NoDupKeysDeep(v.v[i])
                      [] OTHER -> TRUE
(* all valid paths of a value, as path-element sequences *)
RECURSIVE Paths(_)
Paths(v) == {<<>>} \cup
  (IF v.t = "list" THEN UNION {{<<[i |-> m - 1, key |-> <<>>]>> \o q : q \in Paths(v.v[m])} : m \in DOMAIN v.v}
   ELSE IF v.t = "dict" THEN UNION {{<<[i |-> -1, key |-> v.k[m]]>> \o q : q \in Paths(v.v[m])} : m \in DOMAIN v.v}
   ELSE {})
(* lens laws of path access: get what was set, setting what is there changes nothing, the second set wins *)
LensLaws(v, x, y) == \A p \in Paths(v) :
  /\ Valid(v, p)
  /\ GetAt(SetAt(v, p, x), p) = x
  /\ SetAt(v, p, GetAt(v, p)) = v
  /\ SetAt(SetAt(v, p, x), p, y) = SetAt(v, p, y)
(* a change below one member leaves every value that is not on the way to it untouched *)
Locality(v, x) == \A p \in Paths(v), q \in Paths(v) :
  (~IsPrefixOf(p, q) /\ ~IsPrefixOf(q, p)) => GetAt(SetAt(v, p, x), q) = GetAt(v, q)
OpLaws(t, key, x) ==
  /\ (t.t = "dict" /\ KeyPos(t, key) = 0) => SameVal(Erase(Insert(t, key, x).val, key).val, t)
  /\ t.t = "dict" => (Insert(Insert(t, key, x).val, key, [t |-> "null"]).val = Insert(t, key, x).val)       \* first value stays
  /\ t.t = "list" => (Resize(PushBack(t, x).val, Len(t.v), x).val = t /\ SizeOf(PushBack(t, x).val).ret = Len(t.v) + 1)
  /\ t.t \in {"list", "dict"} => SizeOf(Clear(t).val).ret = 0
  /\ t.t \notin {"list", "dict"} => (PushBack(t, x).out = "type_error" /\ Insert(t, key, x).out = "type_error" /\ Clear(t).val = t)
=============================================================================
