------------------------------ MODULE Json8259 ------------------------------
(***************************************************************************)
(* An independent reference reader for JSON (RFC 8259), written from the   *)
(* grammar, used as the oracle of properties C04 and C05 of phosg::JSON.   *)
(*                                                                         *)
(* Text = byte sequence.  Lex(text, ext) is a left fold producing tokens;  *)
(* ParseTokens is a recursive descent over the token sequence.  With       *)
(* ext = TRUE the four documented phosg extensions are accepted: trailing  *)
(* commas, hex integers (0x..), n / t / f for null / true / false and      *)
(* // comments, plus phosg's \xHH string escape.                           *)
(*                                                                         *)
(* Values: [t |-> "null"] [t |-> "bool", b] [t |-> "int", neg, mag]        *)
(* (mag = decimal digits without leading zeros, <<>> for 0)                *)
(* [t |-> "float", neg, d, e] (six significant decimal digits d, decimal   *)
(* exponent e of the first digit; zero is d = 000000, e = 0)               *)
(* [t |-> "str", s] [t |-> "list", v] [t |-> "dict", k, v] (source order). *)
(***************************************************************************)
EXTENDS Integers, Sequences, SequencesExt, FiniteSets

IsDigit(c) == c >= 48 /\ c <= 57
IsHex(c) == IsDigit(c) \/ (c >= 65 /\ c <= 70) \/ (c >= 97 /\ c <= 102)
HexV(c) == IF c <= 57 THEN c - 48 ELSE IF c <= 70 THEN c - 55 ELSE c - 87
IsWs(c) == c \in {32, 9, 10, 13}
NumChar(c) == IsDigit(c) \/ c \in {43, 45, 46, 101, 69}
NumCharX(c) == NumChar(c) \/ IsHex(c) \/ c \in {120, 88}
WordChar(c) == c >= 97 /\ c <= 122

(* ---- lexer ----------------------------------------------------------------------- *)
(* token: [k |-> "p", c] punctuation; [k |-> "s", s] string; [k |-> "n", s] number text; [k |-> "w", s] word; pos = 0-based
   offset of the byte after the token (for the reader entry point) *)
L0 == [mode |-> "ws", cur |-> <<>>, toks |-> <<>>, ok |-> TRUE, n |-> 0, hi |-> 0, cnt |-> 0]
Push(a, tok) == [a EXCEPT !.toks = Append(@, tok), !.cur = <<>>, !.mode = "ws"]
RECURSIVE LexStep(_, _, _)
LexStep(ext, a0, c) ==
  LET a == [a0 EXCEPT !.n = @ + 1] IN       \* n = number of bytes consumed so far, including c
  IF ~a.ok THEN a
  ELSE CASE a.mode = "str" ->
         IF c = 34 THEN Push(a, [k |-> "s", s |-> a.cur, end |-> a.n])
         ELSE IF c = 92 THEN [a EXCEPT !.mode = "esc"]
         ELSE IF c < 32 THEN [a EXCEPT !.ok = FALSE]                       \* control characters must be escaped
         ELSE [a EXCEPT !.cur = Append(@, c)]
    [] a.mode = "esc" ->
         LET simple == CASE c = 34 -> 34 [] c = 92 -> 92 [] c = 47 -> 47 [] c = 98 -> 8 [] c = 102 -> 12 [] c = 110 -> 10
                         [] c = 114 -> 13 [] c = 116 -> 9 [] OTHER -> -1 IN
         IF simple >= 0 THEN [a EXCEPT !.cur = Append(@, simple), !.mode = "str"]
         ELSE IF c = 117 THEN [a EXCEPT !.mode = "u", !.hi = 0, !.cnt = 0]
         ELSE IF c = 120 /\ ext THEN [a EXCEPT !.mode = "x", !.hi = 0, !.cnt = 0]
         ELSE [a EXCEPT !.ok = FALSE]
    [] a.mode = "u" ->        \* \uXXXX, code points up to U+00FF map to the byte
         IF ~IsHex(c) THEN [a EXCEPT !.ok = FALSE]
         ELSE IF a.cnt < 3 THEN [a EXCEPT !.hi = (@ * 16 + HexV(c)) % 4096, !.cnt = @ + 1, !.ok = (a.cnt >= 2 \/ HexV(c) = 0)]
         ELSE [a EXCEPT !.cur = Append(@, a.hi * 16 + HexV(c)), !.mode = "str"]
    [] a.mode = "x" ->
         IF ~IsHex(c) THEN [a EXCEPT !.ok = FALSE]
         ELSE IF a.cnt = 0 THEN [a EXCEPT !.hi = HexV(c), !.cnt = 1]
         ELSE [a EXCEPT !.cur = Append(@, a.hi * 16 + HexV(c)), !.mode = "str"]
    [] a.mode = "num" ->
         IF (IF ext THEN NumCharX(c) ELSE NumChar(c)) THEN [a EXCEPT !.cur = Append(@, c)]
         ELSE LexStep(ext, [Push(a, [k |-> "n", s |-> a.cur, end |-> a.n - 1]) EXCEPT !.n = a.n - 1], c)
    [] a.mode = "word" ->
         IF WordChar(c) THEN [a EXCEPT !.cur = Append(@, c)]
         ELSE LexStep(ext, [Push(a, [k |-> "w", s |-> a.cur, end |-> a.n - 1]) EXCEPT !.n = a.n - 1], c)
    [] a.mode = "slash" -> IF c = 47 /\ ext THEN [a EXCEPT !.mode = "cmt"] ELSE [a EXCEPT !.ok = FALSE]
    [] a.mode = "cmt" -> IF c \in {10, 13} THEN [a EXCEPT !.mode = "ws"] ELSE a
    [] OTHER ->               \* between tokens
         IF IsWs(c) THEN a
         ELSE IF c \in {91, 93, 123, 125, 44, 58} THEN Push(a, [k |-> "p", s |-> <<c>>, end |-> a.n])
         ELSE IF c = 34 THEN [a EXCEPT !.mode = "str", !.cur = <<>>]
         ELSE IF c = 45 \/ IsDigit(c) THEN [a EXCEPT !.mode = "num", !.cur = <<c>>]
         ELSE IF WordChar(c) THEN [a EXCEPT !.mode = "word", !.cur = <<c>>]
         ELSE IF c = 47 THEN [a EXCEPT !.mode = "slash"]
         ELSE [a EXCEPT !.ok = FALSE]
Lex(text, ext) ==
  LET r == FoldLeft(LAMBDA a, c : LexStep(ext, a, c), L0, text)
      fin == IF r.mode = "num" THEN Push(r, [k |-> "n", s |-> r.cur, end |-> r.n])
             ELSE IF r.mode = "word" THEN Push(r, [k |-> "w", s |-> r.cur, end |-> r.n]) ELSE r IN
  [ok |-> fin.ok /\ fin.mode \in {"ws", "cmt"}, toks |-> fin.toks]

(* ---- numbers ----------------------------------------------------------------------- *)
RECURSIVE StripZ(_)
StripZ(d) == IF d # <<>> /\ Head(d) = 0 THEN StripZ(Tail(d)) ELSE d
Digs(s) == [i \in DOMAIN s |-> s[i] - 48]
AllDigits(s) == s # <<>> /\ \A i \in DOMAIN s : IsDigit(s[i])
RECURSIVE DecLe(_, _)
DecLe(a, b) == IF Len(a) # Len(b) THEN Len(a) < Len(b) ELSE IF a = <<>> THEN TRUE ELSE IF Head(a) # Head(b) THEN Head(a) < Head(b) ELSE DecLe(Tail(a), Tail(b))
MaxI64 == <<9, 2, 2, 3, 3, 7, 2, 0, 3, 6, 8, 5, 4, 7, 7, 5, 8, 0, 7>>
MinI64 == <<9, 2, 2, 3, 3, 7, 2, 0, 3, 6, 8, 5, 4, 7, 7, 5, 8, 0, 8>>
SmallInt(s) == FoldLeft(LAMBDA acc, c : IF acc > 100000 THEN acc ELSE acc * 10 + (c - 48), 0, s)
(* increment a digit sequence *)
IncDigs(d) == LET r == FoldLeft(LAMBDA acc, i : LET x == d[i] + acc.c IN [out |-> <<x % 10>> \o acc.out, c |-> x \div 10],
                                [out |-> <<>>, c |-> 1], [i \in 1..Len(d) |-> Len(d) + 1 - i]) IN
              IF r.c = 1 THEN <<1>> \o r.out ELSE r.out
(* six significant digits (round half up; `tie` marks an exact half so that either rounding is accepted) *)
Six(sig) ==
  LET p == [i \in 1..6 |-> IF i <= Len(sig) THEN sig[i] ELSE 0]
      rest == IF Len(sig) > 6 THEN SubSeq(sig, 7, Len(sig)) ELSE <<>>
      up == rest # <<>> /\ rest[1] >= 5
      tie == rest # <<>> /\ rest[1] = 5 /\ \A i \in 2..Len(rest) : rest[i] = 0
      q == IF up THEN IncDigs(p) ELSE p IN
  [d |-> IF Len(q) = 7 THEN SubSeq(q, 1, 6) ELSE q, carry |-> Len(q) = 7, tie |-> tie, down |-> p]
(* number token -> value or error.  ext allows 0x hex integers. *)
NumValue(s, ext) ==
  LET neg == s # <<>> /\ s[1] = 45
      b == IF neg THEN Tail(s) ELSE s
      isHex == ext /\ Len(b) >= 3 /\ b[1] = 48 /\ b[2] = 120 /\ \A i \in 3..Len(b) : IsHex(b[i])
      eS == {i \in DOMAIN b : b[i] \in {101, 69}}
      ePos == IF eS = {} THEN 0 ELSE CHOOSE i \in eS : \A j \in eS : i <= j
      mant == IF ePos = 0 THEN b ELSE SubSeq(b, 1, ePos - 1)
      expo == IF ePos = 0 THEN <<>> ELSE SubSeq(b, ePos + 1, Len(b))
      dS == {i \in DOMAIN mant : mant[i] = 46}
      dPos == IF dS = {} THEN 0 ELSE CHOOSE i \in dS : TRUE
      ip == IF dPos = 0 THEN mant ELSE SubSeq(mant, 1, dPos - 1)
      fp == IF dPos = 0 THEN <<>> ELSE SubSeq(mant, dPos + 1, Len(mant))
      eNeg == expo # <<>> /\ expo[1] = 45
      eDigs == IF expo # <<>> /\ expo[1] \in {43, 45} THEN Tail(expo) ELSE expo
      okGrammar == /\ AllDigits(ip) /\ (Len(ip) = 1 \/ ip[1] # 48)
                   /\ Cardinality(dS) <= 1 /\ (dPos = 0 \/ AllDigits(fp))
                   /\ (ePos = 0 \/ AllDigits(eDigs))
      isInt == dPos = 0 /\ ePos = 0
      mag == StripZ(Digs(ip))
      all == Digs(ip) \o Digs(fp)
      sig == StripZ(all)
      lead == Len(all) - Len(sig)
      e10 == (IF eNeg THEN 0 - SmallInt(eDigs) ELSE SmallInt(eDigs)) + Len(ip) - 1 - lead
      six == Six(sig) IN
  IF isHex THEN (IF Len(b) > 18 THEN [ok |-> FALSE]
                 ELSE [ok |-> TRUE, v |-> [t |-> "hexint", neg |-> neg, hex |-> StripZ([i \in 1..(Len(b) - 2) |-> HexV(b[i + 2])])]])
  ELSE IF ~okGrammar THEN [ok |-> FALSE]
  ELSE IF isInt THEN (IF DecLe(mag, IF neg THEN MinI64 ELSE MaxI64) THEN [ok |-> TRUE, v |-> [t |-> "int", neg |-> neg /\ mag # <<>>, mag |-> mag]]
                      ELSE [ok |-> FALSE])
  \* a zero mantissa is zero whatever the exponent says (0e10000 is a standard-compliant numeral for 0.0)
  ELSE IF sig = <<>> THEN [ok |-> TRUE, v |-> [t |-> "float", neg |-> neg, d |-> <<0, 0, 0, 0, 0, 0>>, e |-> 0, tie |-> FALSE, alt |-> <<0, 0, 0, 0, 0, 0>>, altE |-> 0]]
  ELSE IF Len(eDigs) > 3 \/ e10 > 300 \/ e10 < -300 THEN [ok |-> FALSE]                       \* outside the range this model vouches for
  ELSE [ok |-> TRUE, v |-> [t |-> "float", neg |-> neg, d |-> six.d, e |-> e10 + (IF six.carry THEN 1 ELSE 0), tie |-> six.tie, alt |-> six.down, altE |-> e10]]

(* ---- parser over tokens ---------------------------------------------------------------- *)
Fail == [ok |-> FALSE, v |-> [t |-> "null"], i |-> 0]
IsP(toks, i, c) == i <= Len(toks) /\ toks[i].k = "p" /\ toks[i].s = <<c>>
Word(s, ext) == IF s = <<110, 117, 108, 108>> \/ (ext /\ s = <<110>>) THEN [ok |-> TRUE, v |-> [t |-> "null"]]
                ELSE IF s = <<116, 114, 117, 101>> \/ (ext /\ s = <<116>>) THEN [ok |-> TRUE, v |-> [t |-> "bool", b |-> TRUE]]
                ELSE IF s = <<102, 97, 108, 115, 101>> \/ (ext /\ s = <<102>>) THEN [ok |-> TRUE, v |-> [t |-> "bool", b |-> FALSE]]
                ELSE [ok |-> FALSE]
RECURSIVE PVal(_, _, _, _), PItems(_, _, _, _, _), PPairs(_, _, _, _, _, _)
PVal(toks, i, ext, depth) ==
  IF i > Len(toks) \/ depth > 600 THEN Fail
  ELSE LET tk == toks[i] IN
    CASE tk.k = "s" -> [ok |-> TRUE, v |-> [t |-> "str", s |-> tk.s], i |-> i + 1]
      [] tk.k = "n" -> LET n == NumValue(tk.s, ext) IN IF n.ok THEN [ok |-> TRUE, v |-> n.v, i |-> i + 1] ELSE Fail
      [] tk.k = "w" -> LET w == Word(tk.s, ext) IN IF w.ok THEN [ok |-> TRUE, v |-> w.v, i |-> i + 1] ELSE Fail
      [] tk.k = "p" /\ tk.s = <<91>> ->
           IF IsP(toks, i + 1, 93) THEN [ok |-> TRUE, v |-> [t |-> "list", v |-> <<>>], i |-> i + 2]
           ELSE PItems(toks, i + 1, ext, depth + 1, <<>>)
      [] tk.k = "p" /\ tk.s = <<123>> ->
           IF IsP(toks, i + 1, 125) THEN [ok |-> TRUE, v |-> [t |-> "dict", k |-> <<>>, v |-> <<>>], i |-> i + 2]
           ELSE PPairs(toks, i + 1, ext, depth + 1, <<>>, <<>>)
      [] OTHER -> Fail
PItems(toks, i, ext, depth, acc) ==     \* at the start of an item
  LET r == PVal(toks, i, ext, depth) IN
  IF ~r.ok THEN Fail
  ELSE LET acc2 == Append(acc, r.v) IN
       IF IsP(toks, r.i, 93) THEN [ok |-> TRUE, v |-> [t |-> "list", v |-> acc2], i |-> r.i + 1]
       ELSE IF IsP(toks, r.i, 44)
         THEN IF ext /\ IsP(toks, r.i + 1, 93) THEN [ok |-> TRUE, v |-> [t |-> "list", v |-> acc2], i |-> r.i + 2]   \* trailing comma
              ELSE PItems(toks, r.i + 1, ext, depth, acc2)
       ELSE Fail
PPairs(toks, i, ext, depth, ks, vs) ==
  IF i > Len(toks) \/ toks[i].k # "s" \/ ~IsP(toks, i + 1, 58) THEN Fail
  ELSE LET r == PVal(toks, i + 2, ext, depth) IN
       IF ~r.ok THEN Fail
       ELSE LET ks2 == Append(ks, toks[i].s) vs2 == Append(vs, r.v) IN
            IF IsP(toks, r.i, 125) THEN [ok |-> TRUE, v |-> [t |-> "dict", k |-> ks2, v |-> vs2], i |-> r.i + 1]
            ELSE IF IsP(toks, r.i, 44)
              THEN IF ext /\ IsP(toks, r.i + 1, 125) THEN [ok |-> TRUE, v |-> [t |-> "dict", k |-> ks2, v |-> vs2], i |-> r.i + 2]
                   ELSE PPairs(toks, r.i + 1, ext, depth, ks2, vs2)
            ELSE Fail

(* a complete document: exactly one value, nothing but whitespace (and comments) after it *)
ParseDoc(text, ext) ==
  LET lx == Lex(text, ext) IN
  IF ~lx.ok \/ lx.toks = <<>> THEN [ok |-> FALSE, v |-> [t |-> "null"], end |-> 0]
  ELSE LET r == PVal(lx.toks, 1, ext, 0) IN
       IF r.ok /\ r.i = Len(lx.toks) + 1 THEN [ok |-> TRUE, v |-> r.v, end |-> lx.toks[Len(lx.toks)].end]
       ELSE [ok |-> FALSE, v |-> [t |-> "null"], end |-> 0]
(* no duplicate keys anywhere (documents with duplicate keys have no single reference value) *)
RECURSIVE NoDupKeys(_)
NoDupKeys(v) == CASE v.t = "list" -> \A i \in DOMAIN v.v : NoDupKeys(v.v[i])
                  [] v.t = "dict" -> Cardinality({v.k[i] : i \in DOMAIN v.k}) = Len(v.k) /\ \A i \in DOMAIN v.v : NoDupKeys(v.v[i])
                  [] OTHER -> TRUE

(* ---- value comparison -------------------------------------------------------------------- *)
RECURSIVE BytesLt(_, _)
BytesLt(a, b) == IF a = <<>> THEN b # <<>> ELSE IF b = <<>> THEN FALSE ELSE IF Head(a) # Head(b) THEN Head(a) < Head(b) ELSE BytesLt(Tail(a), Tail(b))
FloatEq(x, y) ==      \* x from the reference (carries tie / alt), y observed (d, e)
  IF x.d = <<0, 0, 0, 0, 0, 0>> THEN y.d = <<0, 0, 0, 0, 0, 0>>
  ELSE x.neg = y.neg /\ ((x.d = y.d /\ x.e = y.e) \/ (x.tie /\ x.alt = y.d /\ x.altE = y.e))
(* the integer value of a reference int as a float pattern (for "numerically equal" across kinds) *)
IntAsFloat(x) == LET six == Six(x.mag) IN
  [neg |-> x.neg, d |-> IF x.mag = <<>> THEN <<0, 0, 0, 0, 0, 0>> ELSE six.d, e |-> Len(x.mag) - 1 + (IF six.carry THEN 1 ELSE 0),
   tie |-> six.tie, alt |-> six.down, altE |-> Len(x.mag) - 1]
HexToDec(h) ==        \* hex digit values -> decimal digit sequence
  LET mulAdd(dec, m, a) == LET r == FoldLeft(LAMBDA acc, i : LET x == dec[i] * m + acc.c IN [out |-> <<x % 10>> \o acc.out, c |-> x \div 10],
                                             [out |-> <<>>, c |-> a], [i \in 1..Len(dec) |-> Len(dec) + 1 - i])
                               RECURSIVE C(_) C(c) == IF c = 0 THEN <<>> ELSE C(c \div 10) \o <<c % 10>> IN C(r.c) \o r.out IN
  StripZ(FoldLeft(LAMBDA acc, d : mulAdd(acc, 16, d), <<>>, h))
RECURSIVE VEq(_, _, _), Unwrap(_, _)
(* the value n levels inside a chain of single-element lists (deeply nested values are logged in this compact form) *)
Unwrap(v, n) == IF n = 0 THEN [ok |-> TRUE, v |-> v]
                ELSE IF v.t = "list" /\ Len(v.v) = 1 THEN Unwrap(v.v[1], n - 1) ELSE [ok |-> FALSE, v |-> v]
(* ref = reference value, obs = observed value; strictKind: integer / float kind must agree *)
VEq(ref, obs, strictKind) ==
  CASE ref.t = "null" -> obs.t = "null"
    [] ref.t = "bool" -> obs.t = "bool" /\ obs.b = ref.b
    [] ref.t = "int" -> IF obs.t = "int" THEN obs.neg = ref.neg /\ obs.mag = ref.mag
                        ELSE ~strictKind /\ obs.t = "float" /\ FloatEq(IntAsFloat(ref), obs)
    [] ref.t = "hexint" -> obs.t = "int" /\ obs.mag = HexToDec(ref.hex) /\ (obs.mag = <<>> \/ obs.neg = ref.neg)
    [] ref.t = "float" -> IF obs.t = "float" THEN FloatEq(ref, obs)
                          ELSE ~strictKind /\ obs.t = "int" /\ FloatEq(ref, IntAsFloat(obs))
    [] ref.t = "str" -> obs.t = "str" /\ obs.s = ref.s
    [] ref.t = "list" -> IF obs.t = "nest" THEN LET u == Unwrap(ref, obs.n) IN u.ok /\ VEq(u.v, obs.inner, strictKind)
                         ELSE obs.t = "list" /\ Len(obs.v) = Len(ref.v) /\ \A i \in DOMAIN ref.v : VEq(ref.v[i], obs.v[i], strictKind)
    [] ref.t = "dict" -> /\ obs.t = "dict" /\ Len(obs.k) = Len(ref.k)
                         /\ {ref.k[i] : i \in DOMAIN ref.k} = {obs.k[i] : i \in DOMAIN obs.k}
                         /\ \A i \in DOMAIN ref.k : \E j \in DOMAIN obs.k : obs.k[j] = ref.k[i] /\ VEq(ref.v[i], obs.v[j], strictKind)
=============================================================================
