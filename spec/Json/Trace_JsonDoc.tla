--------------------------- MODULE Trace_JsonDoc ---------------------------
(* Trace validation for the extension area X02: every recorded call on two real phosg::JSON documents
   (harness/drv_jsondoc.cc) must be the step spec/Json/JsonDoc allows from the documents reached so far. *)
EXTENDS JsonDoc, TLC, Json, IOUtils
Tr == ndJsonDeserialize(IOEnv.TRACE)
VARIABLES l, docs
Bad(why) == PrintT("BAD " \o ToJson([l |-> l, why |-> why]))
Chk(cond, why) == IF cond THEN TRUE ELSE Bad(why)
Init == l = 1 /\ docs = <<[t |-> "null"], [t |-> "null"]>>

Same2(a, b) == SameVal(a[1], b[1]) /\ SameVal(a[2], b[2])
Op(ev) ==
  LET d == ev.d
      p == ev.p
      okPaths == Valid(docs[d], p) /\ (ev.hassrc = 0 \/ Valid(docs[ev.sd], ev.sp)) IN
  IF ~okPaths THEN Bad("the driver addressed a member the model does not have (earlier divergence)")
  ELSE
  LET t == GetAt(docs[d], p)
      x == IF ev.hassrc = 1 THEN GetAt(docs[ev.sd], ev.sp) ELSE ev.lit
      r == CASE ev.op = "push" -> PushBack(t, x)
             [] ev.op \in {"insert", "emplace"} -> Insert(t, ev.key, x)
             [] ev.op = "erase" -> Erase(t, ev.key)
             [] ev.op = "assign" -> Res("ok", x, 0)
             [] ev.op = "resize" -> Resize(t, ev.n, x)
             [] ev.op = "clear" -> Clear(t)
             [] ev.op = "size" -> SizeOf(t)
             [] ev.op = "empty" -> LET z == SizeOf(t) IN Res(z.out, t, IF z.ret = 0 THEN 1 ELSE 0)
             [] ev.op \in {"count", "contains"} -> Count(t, ev.key)
             [] ev.op \in {"front", "back"} -> Front(t)
             [] ev.op = "eq" -> Res("ok", t, IF Cmp(t, x) = "eq" THEN 1 ELSE 0)
             [] ev.op = "swap" -> Res("ok", x, 0)
      exp == IF ev.op = "swap"
               THEN (IF d = ev.sd THEN [docs EXCEPT ![d] = SetAt(SetAt(docs[d], p, x), ev.sp, t)]
                     ELSE [docs EXCEPT ![d] = SetAt(docs[d], p, x), ![ev.sd] = SetAt(docs[ev.sd], ev.sp, t)])
               ELSE [docs EXCEPT ![d] = SetAt(docs[d], p, r.val)] IN
  /\ Chk(ev.out = r.out, ev.op \o ": outcome (ok / type_error on the wrong kind of value)")
  /\ Chk(ev.out # "ok" \/ ev.op \in {"front", "back"} \/ ev.ret = r.ret, ev.op \o ": return value")
  /\ Chk(ev.op \notin {"front", "back"} \/ ev.out # "ok"
         \/ SameVal(ev.member, IF ev.op = "front" THEN t.v[1] ELSE t.v[Len(t.v)]), ev.op \o "(): not the first / last member")
  /\ Chk(Same2(exp, ev.docs),
         ev.op \o ": the documents afterwards are not the documents before with exactly the addressed value changed as defined")

Step(ev) ==
  CASE ev.e = "Reset" -> docs' = ev.docs
    [] ev.e = "op" -> Op(ev) /\ docs' = ev.docs
    [] OTHER -> Bad("no specification action for event " \o ev.e) /\ UNCHANGED docs
Next == l <= Len(Tr) /\ l' = l + 1 /\ Step(Tr[l])
Spec == Init /\ [][Next]_<<l, docs>>
Done == (l = Len(Tr) + 1) => PrintT("TRACE-DONE " \o ToString(Len(Tr)))
=============================================================================
