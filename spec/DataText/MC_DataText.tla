----------------------------- MODULE MC_DataText -----------------------------
(* Laws of the reference parser in small scope: a reference formatter's output (quoted form with escapes and "?" mask
   toggles, and the hex form) parses back to (data, mask): the losslessness law is satisfiable, including backslash. *)
EXTENDS DataText, TLC
CONSTANT Bytes
VARIABLES d, m
Init == \E n \in 0..3 : d \in [1..n -> Bytes] /\ m \in [1..n -> {0, 255}]
Next == UNCHANGED <<d, m>>
Spec == Init /\ [][Next]_<<d, m>>
HexUpC(v) == IF v < 10 THEN 48 + v ELSE 55 + v
RefHex == FoldLeft(LAMBDA a, i : [on |-> m[i] = 255, t |-> a.t \o (IF (m[i] = 255) # a.on THEN <<63>> ELSE <<>>) \o <<HexUpC(d[i] \div 16), HexUpC(d[i] % 16)>>],
                   [on |-> TRUE, t |-> <<>>], [i \in 1..Len(d) |-> i]).t
Esc(c) == CASE c = 13 -> <<92, 114>> [] c = 10 -> <<92, 110>> [] c = 9 -> <<92, 116>> [] c = 34 -> <<92, 34>> [] c = 39 -> <<92, 39>>
            [] c = 92 -> <<92, 92>> [] OTHER -> <<c>>
RefQuoted == <<34>> \o FoldLeft(LAMBDA a, i : [on |-> m[i] = 255, t |-> a.t \o (IF (m[i] = 255) # a.on THEN <<34, 63, 34>> ELSE <<>>) \o Esc(d[i])],
                                [on |-> TRUE, t |-> <<>>], [i \in 1..Len(d) |-> i]).t \o <<34>>
Printable == \A i \in DOMAIN d : d[i] \in {9, 10, 13} \cup 32..126
HexLaw == LET p == ParseDataString(RefHex) IN p.exact /\ p.data = d /\ p.mask = m
QuotedLaw == Printable => LET p == ParseDataString(RefQuoted) IN p.exact /\ p.data = d /\ p.mask = m
Constructs ==
  /\ ParseDataString(<<36, 35, 35, 53, 49, 51, 32>>).data = <<2, 1>>                 \* "$##513 " big-endian 0x0201
  /\ ParseDataString(<<35, 35, 53, 49, 51, 32>>).data = <<1, 2>>                     \* "##513 " little-endian
  /\ ParseDataString(<<35, 45, 49, 32>>).data = <<255>>                              \* "#-1 "
  /\ ParseDataString(<<37, 49, 46, 53, 32>>).data = <<0, 0, 192, 63>>                \* "%1.5 " little-endian float
  /\ ParseDataString(<<39, 97, 39>>).data = <<97, 0>> /\ ParseDataString(<<36, 39, 97, 39>>).data = <<0, 97>>
  /\ ParseDataString(<<47, 42, 47, 49, 50>>).data = <<18>>                           \* "/*/12": the comment is complete
  /\ ParseDataString(<<49, 47, 47, 120, 10, 50>>).data = <<18>>                      \* "1//x\n2"
  /\ ~ParseDataString(<<35, 122>>).exact /\ ParseDataString(<<48, 0, 49, 49>>).data = <<>>
=============================================================================
