SPECIFICATION Spec
INVARIANT Done
