--------------------------- MODULE Trace_DataText ---------------------------
EXTENDS DataText, TLC, Json, IOUtils
Tr == ndJsonDeserialize(IOEnv.TRACE)
VARIABLE l
Bad(why) == PrintT("BAD " \o ToJson([l |-> l, why |-> why]))
Chk(cond, why) == IF cond THEN TRUE ELSE Bad(why)
ChkAll(S, P(_), why) == LET f == {i \in S : ~P(i)} IN IF f = {} THEN TRUE ELSE Bad(why \o " [failing indices " \o ToString(f) \o "]")
Init == l = 1
Norm(m) == [i \in DOMAIN m |-> IF m[i] # 0 THEN 255 ELSE 0]
ToInt(d) == FoldLeft(LAMBDA acc, x : acc * 256 + x, 0, Strip(d))
Bit(f, b) == (f \div b) % 2 = 1

(* one dump event *)
DumpOk(ev) ==
  LET n == Len(ev.data)
      color == Bit(ev.flags, 1) ascii == Bit(ev.flags, 2) flt == Bit(ev.flags, 4) dbl == Bit(ev.flags, 8)
      collapse == Bit(ev.flags, 32) sep == ~Bit(ev.flags, 64)
      forced == IF Bit(ev.flags, 256) THEN 2 ELSE IF Bit(ev.flags, 512) THEN 4 ELSE IF Bit(ev.flags, 1024) THEN 8
                ELSE IF Bit(ev.flags, 2048) THEN 16 ELSE 0
      lo == ev.start[8] % 16                                   \* offset of the first byte inside its line
      aligned == Sub(ev.start, IF lo = 0 THEN <<>> ELSE <<lo>>)
      nlines == (lo + n + 15) \div 16
      lines == Lines(ev.text)
      dec == [k \in DOMAIN lines |-> LET s == StripEsc(lines[k]) IN
                [s |-> s, d |-> DecodeLine(s.txt, sep, ascii)]]
      rel(k) == LET a == AddrNat(dec[k].d.addr) IN IF Lt(a, aligned) THEN -1 ELSE LET r == Sub(a, aligned) IN IF Len(r) > 3 THEN -1 ELSE ToInt(r)
      lineNo(k) == rel(k) \div 16                              \* 0-based line index
      present == {lineNo(k) : k \in DOMAIN lines}
      byteAt(i) == ev.data[i + 1]                              \* i = 0-based offset in data
      prevAt(i) == IF ev.hasprev = 1 THEN ev.prev[i + 1] ELSE ev.data[i + 1]
      zeroLine(j) == \A c \in 0..15 : LET i == j * 16 + c - lo IN i >= 0 /\ i < n /\ byteAt(i) = 0 /\ prevAt(i) = 0
      restExpected == (IF flt THEN (IF sep THEN 2 ELSE 1) + 4 * 13 ELSE 0) + (IF dbl THEN (IF sep THEN 2 ELSE 1) + 2 * 13 ELSE 0)
      lineGood(k) ==
        LET d == dec[k].d reds == dec[k].s.reds j == lineNo(k) IN
        /\ d.ok /\ d.upper /\ rel(k) >= 0 /\ rel(k) % 16 = 0 /\ j < nlines
        /\ d.adLen >= forced /\ (color \/ ~dec[k].s.escapes)
        /\ (flt \/ dbl \/ d.restLen = 0) /\ ((flt \/ dbl) /\ ~color => d.restLen = restExpected)
        /\ \A c \in 0..15 :
             LET i == j * 16 + c - lo
                 valid == i >= 0 /\ i < n IN
             /\ d.cells[c + 1] = (IF valid THEN byteAt(i) ELSE -1)
             /\ (ascii => d.ascii[c + 1] = (IF valid /\ byteAt(i) >= 32 /\ byteAt(i) <= 126 THEN byteAt(i) ELSE 32))
             /\ (valid => LET hl == color /\ byteAt(i) # prevAt(i) IN
                          /\ reds[d.cellPos[c + 1]] = hl /\ reds[d.cellPos[c + 1] + 1] = hl
                          /\ (ascii => reds[d.asciiPos + c + 1] = hl))
  IN
  IF n = 0 THEN ev.text = <<>>
  ELSE /\ ev.text # <<>> /\ ev.text[Len(ev.text)] = 10
       /\ \A k \in DOMAIN lines : lineGood(k)
       /\ \A k \in 1..(Len(lines) - 1) : lineNo(k) < lineNo(k + 1)                      \* increasing addresses, no duplicates
       /\ \A j \in 0..(nlines - 1) : j \in present \/ (collapse /\ j > 0 /\ j < nlines - 1 /\ zeroLine(j))

TStep(ev) ==
  CASE ev.e = "Reset" -> TRUE
    [] ev.e = "fds" ->      \* format_data_string round trip: the specification's parser and the library's parser both recover (data, mask)
         LET G(i) == LET p == ParseDataString(ev.texts[i]) IN
                     /\ p.exact /\ p.data = ev.datas[i] /\ (ev.hasmask = 0 \/ p.mask = Norm(ev.masks[i]))
                     /\ ev.backs[i] = ev.datas[i] /\ (ev.hasmask = 0 \/ ev.backmasks[i] = Norm(ev.masks[i])) IN
         ChkAll(DOMAIN ev.datas, G, "format_data_string is not lossless (bytes or mask classification lost)")
    [] ev.e = "pds" ->      \* parser on arbitrary texts: totality always, exact bytes inside the modelled grammar
         LET G(i) == /\ ev.outs[i] = 0
                     /\ LET p == ParseDataString(ev.texts[i]) IN p.exact => (ev.datas[i] = p.data /\ ev.masks[i] = p.mask) IN
         ChkAll(DOMAIN ev.texts, G, "parse_data_string: threw, or produced other bytes than the syntax defines")
    [] ev.e = "dump" ->
         /\ Chk(ev.out = "ok", "format_data threw")
         /\ Chk(ev.out # "ok" \/ DumpOk(ev), "hex dump does not decode back to the dumped bytes / highlights / collapsing rule")
         /\ Chk(ev.same = 1, "hex dump output depends on how the data is split across iovecs")
    [] OTHER -> Bad("no specification action for event " \o ev.e)
Next == l <= Len(Tr) /\ l' = l + 1 /\ TStep(Tr[l])
Spec == Init /\ [][Next]_l
Done == (l = Len(Tr) + 1) => PrintT("TRACE-DONE " \o ToString(Len(Tr)))
=============================================================================
