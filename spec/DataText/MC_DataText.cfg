SPECIFICATION Spec
CONSTANT Bytes = {0, 97, 34, 92, 63, 10, 255}
INVARIANTS HexLaw QuotedLaw Constructs
