------------------------------ MODULE DataText ------------------------------
(***************************************************************************)
(* Compact data strings (parse_data_string / format_data_string) and hex   *)
(* dumps (format_data) of src/Strings.cc: property C09.                    *)
(*                                                                         *)
(* ParseDataString is the character-driven state machine of the documented *)
(* syntax, written as a left fold.  Its result carries `exact`: FALSE means *)
(* the text left the modelled grammar (a numeral or float literal the       *)
(* model does not evaluate), in which case only totality is demanded.       *)
(***************************************************************************)
EXTENDS Integers, Sequences, SequencesExt, FiniteSets, BigNat

IsHex(c) == (c >= 48 /\ c <= 57) \/ (c >= 65 /\ c <= 70) \/ (c >= 97 /\ c <= 102)
HexV(c) == IF c <= 57 THEN c - 48 ELSE IF c <= 70 THEN c - 55 ELSE c - 87
IsDec(c) == c >= 48 /\ c <= 57
Zeros(k) == [i \in 1..k |-> 0]
(* low w bytes of a BigNat, most significant first *)
LowBytes(d, w) == LET p == Pad(Strip(d), IF Len(Strip(d)) > w THEN Len(Strip(d)) ELSE w) IN SubSeq(p, Len(p) - w + 1, Len(p))
Negate(bytes) ==      \* two's complement
  LET inv == [i \in DOMAIN bytes |-> 255 - bytes[i]]
      r == FoldLeft(LAMBDA acc, i : LET x == inv[i] + acc.c IN [out |-> <<x % 256>> \o acc.out, c |-> x \div 256],
                    [out |-> <<>>, c |-> 1], Rev([i \in 1..Len(bytes) |-> i])) IN r.out
Order(bytesBE, big) == IF big THEN bytesBE ELSE Rev(bytesBE)
MaskBytes(on, n) == [i \in 1..n |-> IF on THEN 255 ELSE 0]

(* float literals the model knows: text -> IEEE-754 single / double bit patterns (big-endian bytes) *)
FloatTable == << <<<<48>>, <<0, 0, 0, 0>>, <<0, 0, 0, 0, 0, 0, 0, 0>>>>,                               \* "0"
                 <<<<49>>, <<63, 128, 0, 0>>, <<63, 240, 0, 0, 0, 0, 0, 0>>>>,                         \* "1"
                 <<<<49, 46, 53>>, <<63, 192, 0, 0>>, <<63, 248, 0, 0, 0, 0, 0, 0>>>>,                 \* "1.5"
                 <<<<45, 50>>, <<192, 0, 0, 0>>, <<192, 0, 0, 0, 0, 0, 0, 0>>>>,                       \* "-2"
                 <<<<48, 46, 50, 53>>, <<62, 128, 0, 0>>, <<63, 208, 0, 0, 0, 0, 0, 0>>>>,             \* "0.25"
                 <<<<49, 48, 50, 52>>, <<68, 128, 0, 0>>, <<64, 144, 0, 0, 0, 0, 0, 0>>>>,             \* "1024"
                 \* decimal texts next to the midpoint of two adjacent singles (exact rational arithmetic decides the single;
                 \* going through the nearest double first would round the other way)
                 <<<<49, 46, 48, 48, 48, 48, 48, 48, 48, 53, 57, 54, 48, 52, 54, 52, 52, 55, 56>>, <<63, 128, 0, 1>>, <<63, 240, 0, 0, 16, 0, 0, 0>>>>,     \* "1.00000005960464478"
                 <<<<49, 46, 48, 48, 48, 48, 48, 48, 49, 55, 56, 56, 49, 51, 57, 51, 52, 51, 50>>, <<63, 128, 0, 1>>, <<63, 240, 0, 0, 48, 0, 0, 0>>>>,     \* "1.00000017881393432"
                 <<<<49, 54, 55, 55, 55, 50, 49, 55, 46, 48, 48, 48, 48, 48, 48, 48, 48, 49>>, <<75, 128, 0, 1>>, <<65, 112, 0, 0, 16, 0, 0, 0>>>>,     \* "16777217.000000001"
                 <<<<48, 46, 49>>, <<61, 204, 204, 205>>, <<63, 185, 153, 153, 153, 153, 153, 154>>>> >>   \* "0.1"
FloatChars == {43, 45, 46} \cup 48..57 \cup {101, 69, 120, 88, 112, 80, 105, 110, 102, 97, 73, 78, 70, 65, 116, 121, 84, 89}
FloatLookup(txt, dbl) == LET S == {i \in DOMAIN FloatTable : FloatTable[i][1] = txt} IN
                         IF S = {} THEN <<>> ELSE FloatTable[CHOOSE i \in S : TRUE][IF dbl THEN 3 ELSE 2]

(* state of the scanner *)
S0 == [mode |-> "hex", esc |-> FALSE, hi |-> TRUE, nyb |-> 0, big |-> FALSE, mon |-> TRUE, out |-> <<>>, mask |-> <<>>,
       exact |-> TRUE, stop |-> FALSE, prev |-> 0, w |-> 0, num |-> <<>>, dbl |-> FALSE]
Emit(a, bytes) == [a EXCEPT !.out = @ \o bytes, !.mask = @ \o MaskBytes(a.mon, Len(bytes))]

(* numeral collected after '#': [+-]?(0x hex+ | 0 oct* | dec+) evaluated modulo 2^(8w); anything else is outside the model *)
NumValue(txt, w) ==
  LET neg == txt # <<>> /\ txt[1] = 45
      body == IF txt # <<>> /\ txt[1] \in {43, 45} THEN Tail(txt) ELSE txt
      isHexLit == Len(body) >= 3 /\ body[1] = 48 /\ body[2] \in {120, 88}
      digs == IF isHexLit THEN SubSeq(body, 3, Len(body)) ELSE body
      base == IF isHexLit THEN 16 ELSE IF Len(body) >= 2 /\ body[1] = 48 THEN 8 ELSE 10
      ok == digs # <<>> /\ (\A i \in DOMAIN digs : IsHex(digs[i]) /\ HexV(digs[i]) < base) /\ Len(digs) <= (IF base = 16 THEN 16 ELSE IF base = 8 THEN 20 ELSE 19)
      mag == FoldLeft(LAMBDA acc, c : Add(MulSmall(acc, base), IF HexV(c) = 0 THEN <<>> ELSE <<HexV(c)>>), <<>>, digs)
      low == LowBytes(mag, w) IN
  [ok |-> ok /\ Len(Strip(mag)) <= 8, bytes |-> IF neg THEN Negate(low) ELSE low]
NumChar(c) == IsHex(c) \/ c \in {120, 88, 43, 45}

RECURSIVE Step(_, _)
FinishNum(a) ==     \* the numeral / float literal collected so far ends here
  IF a.mode = "num"
    THEN LET v == NumValue(a.num, a.w) IN
         IF v.ok THEN [Emit(a, Order(v.bytes, a.big)) EXCEPT !.mode = "hex", !.num = <<>>]
         ELSE [a EXCEPT !.mode = "hex", !.num = <<>>, !.exact = FALSE]
  ELSE LET f == FloatLookup(a.num, a.dbl) IN
       IF f # <<>> THEN [Emit(a, Order(f, a.big)) EXCEPT !.mode = "hex", !.num = <<>>]
       ELSE [a EXCEPT !.mode = "hex", !.num = <<>>, !.exact = FALSE]
Step(a, c) ==
  IF a.stop THEN a
  ELSE IF c = 0 THEN [(IF a.mode \in {"num", "flt"} THEN FinishNum(a) ELSE a) EXCEPT !.stop = TRUE]      \* text ends at the first NUL
  ELSE CASE a.mode = "lc" -> [a EXCEPT !.mode = IF c = 10 THEN "hex" ELSE "lc", !.prev = 0]
    [] a.mode = "bc" -> IF a.prev = 42 /\ c = 47 THEN [a EXCEPT !.mode = "hex", !.prev = 0] ELSE [a EXCEPT !.prev = c]
    [] a.mode = "dq" ->
         IF a.esc THEN [Emit(a, <<CASE c = 110 -> 10 [] c = 114 -> 13 [] c = 116 -> 9 [] OTHER -> c>>) EXCEPT !.esc = FALSE]
         ELSE IF c = 34 THEN [a EXCEPT !.mode = "hex", !.prev = 0]
         ELSE IF c = 92 THEN [a EXCEPT !.esc = TRUE]
         ELSE Emit(a, <<c>>)
    [] a.mode = "sq" ->       \* every character becomes a 16-bit unit (sign-extended char) in the selected byte order
         LET unit(x) == Order(<<IF x >= 128 THEN 255 ELSE 0, x>>, a.big) IN
         IF a.esc THEN [Emit(a, unit(CASE c = 110 -> 10 [] c = 114 -> 13 [] c = 116 -> 9 [] OTHER -> c)) EXCEPT !.esc = FALSE]
         ELSE IF c = 39 THEN [a EXCEPT !.mode = "hex", !.prev = 0]
         ELSE IF c = 92 THEN [a EXCEPT !.esc = TRUE]
         ELSE Emit(a, unit(c))
    [] a.mode = "hash" ->     \* counting '#': up to four select the width, then the numeral must start
         IF c = 35 /\ a.w < 8 THEN [a EXCEPT !.w = IF @ = 1 THEN 2 ELSE IF @ = 2 THEN 4 ELSE 8]
         ELSE IF NumChar(c) THEN [a EXCEPT !.mode = "num", !.num = <<c>>]
         ELSE [a EXCEPT !.exact = FALSE, !.mode = "hex"]
    [] a.mode = "num" -> IF NumChar(c) THEN [a EXCEPT !.num = Append(@, c)] ELSE Step(FinishNum(a), c)
    [] a.mode = "pct" ->      \* '%' float, '%%' double
         IF c = 37 /\ ~a.dbl THEN [a EXCEPT !.dbl = TRUE]
         ELSE IF c \in FloatChars THEN [a EXCEPT !.mode = "flt", !.num = <<c>>]
         ELSE [a EXCEPT !.exact = FALSE, !.mode = "hex"]
    [] a.mode = "flt" -> IF c \in FloatChars THEN [a EXCEPT !.num = Append(@, c)] ELSE Step(FinishNum(a), c)
    [] OTHER ->               \* hex mode
         IF a.prev = 47 /\ c = 47 THEN [a EXCEPT !.mode = "lc", !.prev = 0]
         ELSE IF a.prev = 47 /\ c = 42 THEN [a EXCEPT !.mode = "bc", !.prev = 42]     \* the '*' of "/*" may already begin "*/"
         ELSE IF IsHex(c)
           THEN IF a.hi THEN [a EXCEPT !.nyb = HexV(c), !.hi = FALSE, !.prev = 0]
                ELSE [Emit(a, <<a.nyb * 16 + HexV(c)>>) EXCEPT !.hi = TRUE, !.nyb = 0, !.prev = 0]
         ELSE CASE c = 63 -> [a EXCEPT !.mon = ~@, !.prev = 0]
                [] c = 36 -> [a EXCEPT !.big = ~@, !.prev = 0]
                [] c = 34 -> [a EXCEPT !.mode = "dq", !.esc = FALSE, !.prev = 0]
                [] c = 39 -> [a EXCEPT !.mode = "sq", !.esc = FALSE, !.prev = 0]
                [] c = 35 -> [a EXCEPT !.mode = "hash", !.w = 1, !.prev = 0]
                [] c = 37 -> [a EXCEPT !.mode = "pct", !.dbl = FALSE, !.prev = 0]
                [] OTHER -> [a EXCEPT !.prev = c]
ParseDataString(text) ==
  LET r0 == FoldLeft(Step, S0, text)
      r == IF r0.mode \in {"num", "flt"} /\ ~r0.stop THEN FinishNum(r0) ELSE r0 IN
  \* a '#' or '%' that the text ends after: the code still converts an (empty) numeral; outside the model
  [exact |-> r.exact /\ r.mode \notin {"hash", "pct"}, data |-> r.out, mask |-> r.mask]

(* ---- hex dumps --------------------------------------------------------------------- *)
(* A dump is decoded line by line: address column, sixteen byte cells, optional ASCII cells.  Colour escapes
   (ESC [ ... m) are removed first; `red` records which characters were printed while bold red was on. *)
StripEsc(line) ==
  LET step(a, c) ==
        IF a.inEsc THEN (IF c = 109 THEN [a EXCEPT !.inEsc = FALSE, !.red = (a.params = <<49, 59, 51, 49>>) \/ (a.red /\ a.params # <<48>>), !.params = <<>>]
                         ELSE [a EXCEPT !.params = IF c = 91 THEN <<>> ELSE Append(@, c)])
        ELSE IF c = 27 THEN [a EXCEPT !.inEsc = TRUE, !.params = <<>>]
        ELSE [a EXCEPT !.txt = Append(@, c), !.reds = Append(@, a.red)]
      r == FoldLeft(step, [txt |-> <<>>, reds |-> <<>>, red |-> FALSE, inEsc |-> FALSE, params |-> <<>>], line) IN
  [txt |-> r.txt, reds |-> r.reds, escapes |-> Len(r.txt) # Len(line)]
Lines(text) == LET cuts == SelectSeq([i \in 1..Len(text) |-> i], LAMBDA i : text[i] = 10) IN
               [k \in 1..Len(cuts) |-> SubSeq(text, IF k = 1 THEN 1 ELSE cuts[k - 1] + 1, cuts[k] - 1)]
HexUp(v) == IF v < 10 THEN 48 + v ELSE 55 + v
(* decode one plain line: [ok, addr (hex digit values), cells (16 x: -1 blank or byte), ascii (16 x: byte or 32), rest] *)
DecodeLine(t, sep, hasAscii) ==
  LET adLen == LET S == {i \in 1..Len(t) : ~IsHex(t[i])} IN IF S = {} THEN Len(t) ELSE (CHOOSE i \in S : \A j \in S : i <= j) - 1
      p0 == adLen + (IF sep THEN 2 ELSE 0)                       \* after "ADDR" [" |"]
      cell(k) == SubSeq(t, p0 + 3 * k - 2, p0 + 3 * k)          \* " XX" or "   "
      okCells == Len(t) >= p0 + 48 /\ (sep => SubSeq(t, adLen + 1, adLen + 2) = <<32, 124>>)
                 /\ \A k \in 1..16 : cell(k) = <<32, 32, 32>> \/ (cell(k)[1] = 32 /\ IsHex(cell(k)[2]) /\ IsHex(cell(k)[3])
                                                                  /\ cell(k)[2] \notin 97..102 /\ cell(k)[3] \notin 97..102)
      p1 == p0 + 48 + (IF sep THEN 3 ELSE 1)
      okAscii == ~hasAscii \/ (Len(t) >= p1 + 16 /\ SubSeq(t, p0 + 49, p1) = (IF sep THEN <<32, 124, 32>> ELSE <<32>>))
  IN  [ok |-> adLen >= 2 /\ okCells /\ okAscii,
       addr |-> [i \in 1..adLen |-> HexV(t[i])], adLen |-> adLen, upper |-> \A i \in 1..adLen : t[i] \notin 97..102,
       cells |-> [k \in 1..16 |-> IF cell(k) = <<32, 32, 32>> THEN -1 ELSE HexV(cell(k)[2]) * 16 + HexV(cell(k)[3])],
       ascii |-> IF hasAscii THEN SubSeq(t, p1 + 1, p1 + 16) ELSE <<>>,
       cellPos |-> [k \in 1..16 |-> p0 + 3 * k - 1], asciiPos |-> p1,
       restLen |-> Len(t) - (IF hasAscii THEN p1 + 16 ELSE p0 + 48)]
(* address of a line as BigNat from its hex digits *)
AddrNat(ds) == FoldLeft(LAMBDA acc, d : Add(MulSmall(acc, 16), IF d = 0 THEN <<>> ELSE <<d>>), <<>>, ds)
=============================================================================
