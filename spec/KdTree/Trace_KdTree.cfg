SPECIFICATION Spec
INVARIANT Done
