SPECIFICATION Spec
CONSTANTS G = 3  NV = 2  MaxN = 3
INVARIANTS Sorted BoxLaw EraseLaw InsertLaw SurvivorLaw
