------------------------------ MODULE KdTree ------------------------------
(***************************************************************************)
(* Reference model of phosg::KDTree (C13): a plain multiset of entries.    *)
(* An entry is the tuple <<c1, ..., cd, v>> (point coordinates followed by *)
(* the value).  The multiset is kept as a sequence sorted                  *)
(* lexicographically, so multiset equality is sequence equality.           *)
(***************************************************************************)
EXTENDS Integers, Sequences, FiniteSets

RECURSIVE LexLt(_, _)
LexLt(a, b) == IF a = <<>> \/ b = <<>> THEN Len(a) < Len(b)
               ELSE IF Head(a) # Head(b) THEN Head(a) < Head(b) ELSE LexLt(Tail(a), Tail(b))
LexLe(a, b) == a = b \/ LexLt(a, b)
IsSorted(s) == \A i \in 1..(Len(s) - 1) : LexLe(s[i], s[i + 1])

Pt(e) == SubSeq(e, 1, Len(e) - 1)
Val(e) == e[Len(e)]

(* insertion into the sorted sequence *)
InsertE(bag, e) ==
  LET n == Cardinality({i \in DOMAIN bag : LexLe(bag[i], e)})
  IN  SubSeq(bag, 1, n) \o <<e>> \o SubSeq(bag, n + 1, Len(bag))
HasE(bag, e) == \E i \in DOMAIN bag : bag[i] = e
RemoveOne(bag, e) ==
  LET i == CHOOSE j \in DOMAIN bag : bag[j] = e
  IN  SubSeq(bag, 1, i - 1) \o SubSeq(bag, i + 1, Len(bag))

At(bag, p) == {Val(bag[i]) : i \in {j \in DOMAIN bag : Pt(bag[j]) = p}}
ExistsPt(bag, p) == At(bag, p) # {}
InBox(p, lo, hi) == \A d \in DOMAIN p : lo[d] <= p[d] /\ p[d] < hi[d]
Within(bag, lo, hi) == SelectSeq(bag, LAMBDA e : InBox(Pt(e), lo, hi))

(* predicates used by the iterate-and-erase loop of the driver *)
Pred(kind, c, e) ==
  CASE kind = "all"     -> TRUE
    [] kind = "none"    -> FALSE
    [] kind = "x_eq"    -> e[1] = c
    [] kind = "y_eq"    -> e[2] = c
    [] kind = "v_eq"    -> Val(e) = c
    [] kind = "sum_odd" -> (e[1] + e[2]) % 2 = 1
Survivors(bag, kind, c) == SelectSeq(bag, LAMBDA e : ~Pred(kind, c, e))
=============================================================================
