---------------------------- MODULE Trace_KdTree ----------------------------
(* Trace validation for C13: every recorded call on a real KDTree must agree
   with the multiset model.  The driver logs, after every mutation, the
   entries obtained by iterating the real tree (sorted), so each step is
   checked against the model state reached so far. *)
EXTENDS KdTree, TLC, Json, IOUtils

Tr == ndJsonDeserialize(IOEnv.TRACE)
VARIABLES l, bag
vars == <<l, bag>>
Bad(why) == PrintT("BAD " \o ToJson([l |-> l, why |-> why]))
Chk(cond, why) == IF cond THEN TRUE ELSE Bad(why)
Init == l = 1 /\ bag = <<>>

Entry(p, v) == p \o <<v>>
GridPoint(g, i) == <<(i - 1) \div g, (i - 1) % g>>

Step(ev) ==
  CASE ev.e = "Reset" -> bag' = <<>>
    [] ev.e = "ins" ->
         LET nb == InsertE(bag, Entry(ev.p, ev.v)) IN
         /\ Chk(ev.items = nb, "entries after insert differ from the multiset")
         /\ Chk(ev.size = Len(nb), "size() after insert")
         /\ bag' = nb
    [] ev.e = "insfail" ->     \* the value's copy constructor threw inside insert
         /\ Chk(ev.threw = 0 \/ (ev.items = bag /\ ev.size = Len(bag)), "an insert that failed (the value could not be copied) changed the tree or its size")
         /\ Chk(ev.threw = 1 \/ (ev.items = InsertE(bag, Entry(ev.p, ev.v)) /\ ev.size = Len(bag) + 1), "insert")
         /\ bag' = IF ev.threw = 1 THEN bag ELSE InsertE(bag, Entry(ev.p, ev.v))
    [] ev.e = "era" ->
         LET has == HasE(bag, Entry(ev.p, ev.v))
             nb  == IF has THEN RemoveOne(bag, Entry(ev.p, ev.v)) ELSE bag IN
         /\ Chk(ev.ret = (IF has THEN 1 ELSE 0), "erase result does not say whether a matching entry existed")
         /\ Chk(ev.items = nb, "entries after erase: not exactly one matching entry removed")
         /\ Chk(ev.size = Len(nb), "size() after erase")
         /\ bag' = nb
    [] ev.e = "at" ->
         /\ Chk(IF At(bag, ev.p) = {} THEN ev.ret = -1 ELSE ev.ret \in At(bag, ev.p),
                "at() disagrees with a linear scan")
         /\ UNCHANGED bag
    [] ev.e = "exists" ->
         /\ Chk(ev.ret = (IF ExistsPt(bag, ev.p) THEN 1 ELSE 0), "exists(pt) disagrees with a linear scan")
         /\ UNCHANGED bag
    [] ev.e = "probe" ->
         /\ Chk(\A i \in 1..(ev.g * ev.g) :
                  LET a == At(bag, GridPoint(ev.g, i)) IN
                  /\ ev.ex[i] = (IF a = {} THEN 0 ELSE 1)
                  /\ IF a = {} THEN ev.at[i] = -1 ELSE ev.at[i] \in a,
                "exists/at over the whole grid disagree with a linear scan")
         /\ UNCHANGED bag
    [] ev.e = "within" ->
         LET w == Within(bag, ev.lo, ev.hi) IN
         /\ Chk(ev.ret = w, "within(lo,hi) disagrees with a linear scan")
         /\ Chk(ev.ex = (IF w = <<>> THEN 0 ELSE 1), "exists(lo,hi) disagrees with a linear scan")
         /\ UNCHANGED bag
    [] ev.e = "boxes" ->   \* all boxes with corners in 0..g: per box the number of entries and existence
         /\ Chk(\A i \in 1..Len(ev.b) :
                  LET w == Within(bag, <<ev.b[i][1], ev.b[i][2]>>, <<ev.b[i][3], ev.b[i][4]>>) IN
                  ev.b[i][5] = Len(w) /\ ev.b[i][6] = (IF w = <<>> THEN 0 ELSE 1) /\ ev.b[i][7] = 1,
                "box queries over the whole grid disagree with a linear scan")
         /\ UNCHANGED bag
    [] ev.e = "iter" ->
         /\ Chk(ev.items = bag, "iteration does not yield exactly the multiset")
         /\ Chk(ev.size = Len(bag), "size()")
         /\ UNCHANGED bag
    [] ev.e = "itera" ->
         LET nb == Survivors(bag, ev.kind, ev.c) IN
         /\ Chk(ev.visited = bag, "iterate+erase_advance did not visit every entry exactly once")
         /\ Chk(ev.items = nb, "entries after iterate+erase differ from the survivors")
         /\ Chk(ev.size = Len(nb), "size() after iterate+erase")
         /\ bag' = nb
    [] ev.e = "destroy" -> bag' = <<>>
    [] OTHER -> Bad("no specification action for event " \o ev.e) /\ UNCHANGED bag

Next == l <= Len(Tr) /\ l' = l + 1 /\ Step(Tr[l])
Spec == Init /\ [][Next]_vars
Done == (l = Len(Tr) + 1) => PrintT("TRACE-DONE " \o ToString(Len(Tr)))
=============================================================================
