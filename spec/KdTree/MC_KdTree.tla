----------------------------- MODULE MC_KdTree -----------------------------
(* Bounded model: 2-D points on a G x G grid, values 1..NV, at most MaxN
   entries; checks the internal consistency laws of the reference model that
   C13 relies on (queries agree with each other and with a linear scan). *)
EXTENDS KdTree, TLC
CONSTANTS G, NV, MaxN
VARIABLES bag
Points == {<<x, y>> : x \in 0..(G - 1), y \in 0..(G - 1)}
Entries == {<<x, y, v>> : x \in 0..(G - 1), y \in 0..(G - 1), v \in 1..NV}
Init == bag = <<>>
Ins(e) == Len(bag) < MaxN /\ bag' = InsertE(bag, e)
Era(e) == bag' = IF HasE(bag, e) THEN RemoveOne(bag, e) ELSE bag
IterErase(kind, c) == bag' = Survivors(bag, kind, c)
Next == (\E e \in Entries : Ins(e) \/ Era(e))
        \/ (\E kind \in {"all", "x_eq", "y_eq", "v_eq", "sum_odd"}, c \in 0..(G - 1) : IterErase(kind, c))
Spec == Init /\ [][Next]_bag

Sorted == IsSorted(bag)
Corners == 0..G
(* a half-open box query returns exactly the entries whose point exists in the box *)
BoxLaw == \A lx \in Corners, ly \in Corners, hx \in Corners, hy \in Corners :
            LET w == Within(bag, <<lx, ly>>, <<hx, hy>>)
            IN  /\ IsSorted(w)
                /\ \A p \in Points : (ExistsPt(bag, p) /\ InBox(p, <<lx, ly>>, <<hx, hy>>))
                                      <=> (\E i \in DOMAIN w : Pt(w[i]) = p)
                /\ Len(w) = Cardinality({i \in DOMAIN bag : InBox(Pt(bag[i]), <<lx, ly>>, <<hx, hy>>)})
(* erase removes exactly one matching entry; erase then insert restores the multiset *)
EraseLaw == \A e \in Entries : HasE(bag, e) =>
              /\ Len(RemoveOne(bag, e)) = Len(bag) - 1
              /\ InsertE(RemoveOne(bag, e), e) = bag
InsertLaw == \A e \in Entries : RemoveOne(InsertE(bag, e), e) = bag /\ IsSorted(InsertE(bag, e))
SurvivorLaw == \A kind \in {"all", "none", "x_eq", "sum_odd"} :
                 Len(Survivors(bag, kind, 1)) + Len(SelectSeq(bag, LAMBDA e : Pred(kind, 1, e))) = Len(bag)
=============================================================================
