SPECIFICATION Spec
CONSTANTS G = 3  NV = 2  MaxN = 4
INVARIANTS Sorted BoxLaw EraseLaw InsertLaw SurvivorLaw
