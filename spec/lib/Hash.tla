-------------------------------- MODULE Hash --------------------------------
(***************************************************************************)
(* CRC-32, FNV-1a 32/64, MD5 (RFC 1321), SHA-1 and SHA-256 (FIPS 180-4)    *)
(* transcribed from their published definitions (property C10).  32-bit    *)
(* words are pairs <<hi16, lo16>> (TLC integers are 32-bit signed); 64-bit *)
(* FNV state is a base-256 digit sequence.  Messages are byte sequences.   *)
(***************************************************************************)
EXTENDS Integers, Sequences, SequencesExt, Bitwise, HashTables

(* ---- 32-bit words ------------------------------------------------------------ *)
W(hi, lo) == <<hi, lo>>
XorW(a, b) == <<a[1] ^^ b[1], a[2] ^^ b[2]>>
AndW(a, b) == <<a[1] & b[1], a[2] & b[2]>>
OrW(a, b) == <<a[1] | b[1], a[2] | b[2]>>
NotW(a) == <<65535 - a[1], 65535 - a[2]>>
AddW(a, b) == LET lo == a[2] + b[2] IN <<(a[1] + b[1] + (lo \div 65536)) % 65536, lo % 65536>>
Add3(a, b, c) == AddW(AddW(a, b), c)
RotL(a, n) ==      \* rotate left by n in 0..31
  LET x == IF n >= 16 THEN <<a[2], a[1]>> ELSE a
      k == n % 16 IN
  IF k = 0 THEN x
  ELSE <<((x[1] * (2 ^ k)) % 65536) + (x[2] \div (2 ^ (16 - k))), ((x[2] * (2 ^ k)) % 65536) + (x[1] \div (2 ^ (16 - k)))>>
RotR(a, n) == RotL(a, (32 - n) % 32)
ShR(a, n) ==       \* logical shift right by n in 0..31
  IF n >= 16 THEN <<0, a[1] \div (2 ^ (n - 16))>>
  ELSE IF n = 0 THEN a ELSE <<a[1] \div (2 ^ n), ((a[1] % (2 ^ n)) * (2 ^ (16 - n))) + (a[2] \div (2 ^ n))>>
BytesBE(a) == <<a[1] \div 256, a[1] % 256, a[2] \div 256, a[2] % 256>>
BytesLE(a) == <<a[2] % 256, a[2] \div 256, a[1] % 256, a[1] \div 256>>
WordBE(b, i) == <<b[i] * 256 + b[i + 1], b[i + 2] * 256 + b[i + 3]>>
WordLE(b, i) == <<b[i + 3] * 256 + b[i + 2], b[i + 1] * 256 + b[i]>>

(* ---- CRC-32 (reflected polynomial EDB88320) -------------------------------------- *)
Poly == <<60856, 33568>>         \* 0xEDB8 8320
CrcBit(c) == IF c[2] % 2 = 1 THEN XorW(ShR(c, 1), Poly) ELSE ShR(c, 1)
CrcTable == [i \in 0..255 |-> CrcBit(CrcBit(CrcBit(CrcBit(CrcBit(CrcBit(CrcBit(CrcBit(<<0, i>>))))))))]
CrcStep(c, b) == XorW(ShR(c, 8), CrcTable[(c[2] % 256) ^^ b])
(* crc32(data, seed): the register starts at NOT seed, ends inverted; seed 0 is the plain CRC *)
CRC32(data, seed) == NotW(FoldLeft(CrcStep, NotW(seed), data))

(* ---- FNV-1a --------------------------------------------------------------------------- *)
Fnv32Start == <<33052, 40389>>   \* 0x811C9DC5
(* h * 0x01000193 mod 2^32 = (h << 24) + h * 0x193 *)
MulFnv32(h) ==
  LET lo == h[2] * 403                       \* < 2^26
      hi == h[1] * 403 + (lo \div 65536)
      sh == <<(h[2] % 256) * 256, 0>>        \* (h << 24) mod 2^32
  IN  AddW(<<hi % 65536, lo % 65536>>, sh)
FNV1a32(data, start) == FoldLeft(LAMBDA h, b : MulFnv32(<<h[1], h[2] ^^ b>>), start, data)
(* 64-bit: digits base 256, most significant first; h * 0x100000001B3 mod 2^64 = (h << 40) + h * 0x1B3 *)
Fnv64Start == <<203, 242, 156, 228, 132, 34, 35, 37>>     \* 0xCBF29CE484222325
MulFnv64(h) ==
  LET small == FoldLeft(LAMBDA acc, i : LET x == h[i] * 435 + acc.c IN [out |-> <<x % 256>> \o acc.out, c |-> x \div 256],
                        [out |-> <<>>, c |-> 0], <<8, 7, 6, 5, 4, 3, 2, 1>>).out          \* h * 0x1B3 mod 2^64
      shifted == <<h[6], h[7], h[8], 0, 0, 0, 0, 0>>                                       \* (h << 40) mod 2^64
      sum == FoldLeft(LAMBDA acc, i : LET x == small[i] + shifted[i] + acc.c IN [out |-> <<x % 256>> \o acc.out, c |-> x \div 256],
                      [out |-> <<>>, c |-> 0], <<8, 7, 6, 5, 4, 3, 2, 1>>).out
  IN  sum
FNV1a64(data, start) == FoldLeft(LAMBDA h, b : MulFnv64([h EXCEPT ![8] = @ ^^ b]), start, data)

(* ---- Merkle-Damgard padding (shared by MD5 / SHA-1 / SHA-256) ---------------------------- *)
(* message, 0x80, zeros up to 56 mod 64, 64-bit bit length (little-endian for MD5, big-endian for SHA) *)
LenBytesBE(n) ==      \* n bytes -> 8-byte big-endian BIT count (n < 2^28)
  LET bits == n * 8 IN <<0, 0, 0, 0, (bits \div 16777216) % 256, (bits \div 65536) % 256, (bits \div 256) % 256, bits % 256>>
Rev(s) == [i \in 1..Len(s) |-> s[Len(s) + 1 - i]]
PadMsg(m, little) ==
  LET n == Len(m)
      z == (119 - (n % 64)) % 64            \* number of zero bytes: n + 1 + z = 56 (mod 64)
  IN  m \o <<128>> \o [i \in 1..z |-> 0] \o (IF little THEN Rev(LenBytesBE(n)) ELSE LenBytesBE(n))
Blocks(p) == [k \in 1..(Len(p) \div 64) |-> SubSeq(p, 64 * k - 63, 64 * k)]

(* ---- MD5 ------------------------------------------------------------------------------------ *)
Md5Round(st, i, blk) ==      \* st = [a, b, c, d]; i in 0..63
  LET a == st.a b == st.b c == st.c d == st.d
      f == IF i < 16 THEN OrW(AndW(b, c), AndW(NotW(b), d))
           ELSE IF i < 32 THEN OrW(AndW(d, b), AndW(NotW(d), c))
           ELSE IF i < 48 THEN XorW(XorW(b, c), d)
           ELSE XorW(c, OrW(b, NotW(d)))
      g == IF i < 16 THEN i ELSE IF i < 32 THEN (5 * i + 1) % 16 ELSE IF i < 48 THEN (3 * i + 5) % 16 ELSE (7 * i) % 16
      t == AddW(Add3(a, f, MD5K[i + 1]), WordLE(blk, 4 * g + 1))
  IN  [a |-> d, b |-> AddW(b, RotL(t, MD5S[i + 1])), c |-> b, d |-> c]
Md5Block(h, blk) ==
  LET r == FoldLeft(LAMBDA st, i : Md5Round(st, i, blk), h, [i \in 1..64 |-> i - 1])
  IN  [a |-> AddW(h.a, r.a), b |-> AddW(h.b, r.b), c |-> AddW(h.c, r.c), d |-> AddW(h.d, r.d)]
MD5(m) ==
  LET h == FoldLeft(Md5Block, [a |-> <<26437, 8961>>, b |-> <<61389, 43913>>, c |-> <<39098, 56574>>, d |-> <<4146, 21622>>],
                    Blocks(PadMsg(m, TRUE)))
  IN  BytesLE(h.a) \o BytesLE(h.b) \o BytesLE(h.c) \o BytesLE(h.d)

(* ---- SHA-1 ------------------------------------------------------------------------------------ *)
Sha1Sched(blk) ==
  FoldLeft(LAMBDA w, t : Append(w, RotL(XorW(XorW(w[t - 3], w[t - 8]), XorW(w[t - 14], w[t - 16])), 1)),
           [t \in 1..16 |-> WordBE(blk, 4 * t - 3)], [t \in 1..64 |-> t + 16])
Sha1Block(h, blk) ==
  LET w == Sha1Sched(blk)
      step(s, t) ==      \* t in 1..80
        LET f == IF t <= 20 THEN OrW(AndW(s.b, s.c), AndW(NotW(s.b), s.d))
                 ELSE IF t <= 40 THEN XorW(XorW(s.b, s.c), s.d)
                 ELSE IF t <= 60 THEN OrW(OrW(AndW(s.b, s.c), AndW(s.b, s.d)), AndW(s.c, s.d))
                 ELSE XorW(XorW(s.b, s.c), s.d)
            k == IF t <= 20 THEN <<23170, 31129>> ELSE IF t <= 40 THEN <<28377, 60321>>
                 ELSE IF t <= 60 THEN <<36635, 48348>> ELSE <<51810, 49622>>
            tmp == AddW(Add3(RotL(s.a, 5), f, s.e), AddW(k, w[t]))
        IN  [a |-> tmp, b |-> s.a, c |-> RotL(s.b, 30), d |-> s.c, e |-> s.d]
      r == FoldLeft(step, h, [t \in 1..80 |-> t])
  IN  [a |-> AddW(h.a, r.a), b |-> AddW(h.b, r.b), c |-> AddW(h.c, r.c), d |-> AddW(h.d, r.d), e |-> AddW(h.e, r.e)]
SHA1(m) ==
  LET h == FoldLeft(Sha1Block, [a |-> <<26437, 8961>>, b |-> <<61389, 43913>>, c |-> <<39098, 56574>>, d |-> <<4146, 21622>>,
                                e |-> <<50130, 57840>>], Blocks(PadMsg(m, FALSE)))
  IN  BytesBE(h.a) \o BytesBE(h.b) \o BytesBE(h.c) \o BytesBE(h.d) \o BytesBE(h.e)

(* ---- SHA-256 ---------------------------------------------------------------------------------- *)
S0(x) == XorW(XorW(RotR(x, 7), RotR(x, 18)), ShR(x, 3))
S1(x) == XorW(XorW(RotR(x, 17), RotR(x, 19)), ShR(x, 10))
Sha256Sched(blk) ==
  FoldLeft(LAMBDA w, t : Append(w, AddW(AddW(S1(w[t - 2]), w[t - 7]), AddW(S0(w[t - 15]), w[t - 16]))),
           [t \in 1..16 |-> WordBE(blk, 4 * t - 3)], [t \in 1..48 |-> t + 16])
Sha256Block(h, blk) ==
  LET w == Sha256Sched(blk)
      step(s, t) ==
        LET e1 == XorW(XorW(RotR(s[5], 6), RotR(s[5], 11)), RotR(s[5], 25))
            ch == XorW(AndW(s[5], s[6]), AndW(NotW(s[5]), s[7]))
            t1 == AddW(Add3(s[8], e1, ch), AddW(SHA256K[t], w[t]))
            e0 == XorW(XorW(RotR(s[1], 2), RotR(s[1], 13)), RotR(s[1], 22))
            maj == XorW(XorW(AndW(s[1], s[2]), AndW(s[1], s[3])), AndW(s[2], s[3]))
            t2 == AddW(e0, maj)
        IN  <<AddW(t1, t2), s[1], s[2], s[3], AddW(s[4], t1), s[5], s[6], s[7]>>
      r == FoldLeft(step, h, [t \in 1..64 |-> t])
  IN  [i \in 1..8 |-> AddW(h[i], r[i])]
SHA256(m) ==
  LET h == FoldLeft(Sha256Block, SHA256H0, Blocks(PadMsg(m, FALSE)))
  IN  FoldLeft(LAMBDA acc, i : acc \o BytesBE(h[i]), <<>>, <<1, 2, 3, 4, 5, 6, 7, 8>>)

(* ---- hex rendering ------------------------------------------------------------------------------ *)
HexDigitVal(c) == IF c >= 48 /\ c <= 57 THEN c - 48 ELSE IF c >= 65 /\ c <= 70 THEN c - 55 ELSE IF c >= 97 /\ c <= 102 THEN c - 87 ELSE -1
HexMatches(hex, bin) == Len(hex) = 2 * Len(bin) /\ \A i \in DOMAIN bin : HexDigitVal(hex[2 * i - 1]) * 16 + HexDigitVal(hex[2 * i]) = bin[i]
=============================================================================
