------------------------------- MODULE BigNat -------------------------------
(***************************************************************************)
(* Unbounded naturals as base-256 digit sequences, most significant first   *)
(* (TLC integers are 32-bit).  Shared by MathVec (C20), TimeFmt (C18), ...   *)
(***************************************************************************)
EXTENDS Integers, Sequences, SequencesExt

(* ---- BigNat ----------------------------------------------------------------- *)
RECURSIVE Strip(_)
Strip(d) == IF d # <<>> /\ Head(d) = 0 THEN Strip(Tail(d)) ELSE d
Rev(s) == [i \in 1..Len(s) |-> s[Len(s) + 1 - i]]
Pad(d, n) == [i \in 1..(n - Len(d)) |-> 0] \o d
RECURSIVE LexLt(_, _)
LexLt(a, b) == IF a = <<>> THEN FALSE ELSE IF Head(a) # Head(b) THEN Head(a) < Head(b) ELSE LexLt(Tail(a), Tail(b))
Lt(a, b) == LET x == Strip(a) y == Strip(b) IN Len(x) < Len(y) \/ (Len(x) = Len(y) /\ LexLt(x, y))
Eq(a, b) == Strip(a) = Strip(b)
IsZero(a) == Strip(a) = <<>>
IsEven(a) == IsZero(a) \/ a[Len(a)] % 2 = 0
Halve(a) == LET r == FoldLeft(LAMBDA acc, d : [out |-> Append(acc.out, (acc.c * 256 + d) \div 2), c |-> d % 2],
                              [out |-> <<>>, c |-> 0], a) IN Strip(r.out)
Sub(a, b) ==       \* a - b for a >= b
  LET n == Len(a)
      bb == Pad(Strip(b), n)
      r == FoldLeft(LAMBDA acc, i : LET x == a[i] - bb[i] - acc.c IN
                                    [out |-> <<(x + 256) % 256>> \o acc.out, c |-> IF x < 0 THEN 1 ELSE 0],
                    [out |-> <<>>, c |-> 0], Rev([i \in 1..n |-> i])) IN Strip(r.out)
MulSmall(a, m) == LET r == FoldLeft(LAMBDA acc, d : LET x == d * m + acc.c IN [out |-> <<x % 256>> \o acc.out, c |-> x \div 256],
                                    [out |-> <<>>, c |-> 0], Rev(a))
                      RECURSIVE Carry(_) Carry(c) == IF c = 0 THEN <<>> ELSE Carry(c \div 256) \o <<c % 256>> IN
                  Strip(Carry(r.c) \o r.out)
Add(a, b) == LET n == (IF Len(a) > Len(b) THEN Len(a) ELSE Len(b)) + 1
                 x == Pad(a, n) y == Pad(b, n)
                 r == FoldLeft(LAMBDA acc, i : LET s == x[i] + y[i] + acc.c IN [out |-> <<s % 256>> \o acc.out, c |-> s \div 256],
                               [out |-> <<>>, c |-> 0], Rev([i \in 1..n |-> i])) IN Strip(r.out)
Mul(a, b) == FoldLeft(LAMBDA acc, d : Add(MulSmall(acc, 256), MulSmall(a, d)), <<>>, b)
(* binary gcd: no division needed *)
RECURSIVE BinGcd(_, _)
BinGcd(a, b) ==
  IF IsZero(a) THEN Strip(b) ELSE IF IsZero(b) THEN Strip(a)
  ELSE IF IsEven(a) /\ IsEven(b) THEN MulSmall(BinGcd(Halve(a), Halve(b)), 2)
  ELSE IF IsEven(a) THEN BinGcd(Halve(a), b)
  ELSE IF IsEven(b) THEN BinGcd(a, Halve(b))
  ELSE IF Lt(a, b) THEN BinGcd(Halve(Sub(b, a)), a) ELSE BinGcd(Halve(Sub(a, b)), b)
(* floor(log2 v) for v > 0 *)
Log2Byte(x) == CHOOSE k \in 0..7 : 2 ^ k <= x /\ x < 2 ^ (k + 1)
Log2Floor(d) == LET s == Strip(d) IN 8 * (Len(s) - 1) + Log2Byte(s[1])
(* signed comparison of two's complement patterns of equal width *)
Flip(d) == [d EXCEPT ![1] = (@ + 128) % 256]
SLe(a, b) == ~Lt(Flip(b), Flip(a))

(* decimal digit sequence (values 0..9) -> BigNat *)
FromDec(ds) == FoldLeft(LAMBDA acc, d : Add(MulSmall(acc, 10), IF d = 0 THEN <<>> ELSE <<d>>), <<>>, ds)
FromInt(n) == LET RECURSIVE F(_) F(x) == IF x = 0 THEN <<>> ELSE F(x \div 256) \o <<x % 256>> IN F(n)
Pow2(e) == <<2 ^ (e % 8)>> \o [i \in 1..(e \div 8) |-> 0]
Pow10(e) == FoldLeft(LAMBDA acc, i : MulSmall(acc, 10), <<1>>, [i \in 1..e |-> i])
Le(a, b) == ~Lt(b, a)
AbsDiff(a, b) == IF Lt(a, b) THEN Sub(Pad(Strip(b), Len(Strip(b))), a) ELSE Sub(Pad(Strip(a), Len(Strip(a))), b)
=============================================================================
