SPECIFICATION Spec
CONSTANT Bytes = {0, 1, 255}
INVARIANTS KnownAnswers Chaining PadLaw
