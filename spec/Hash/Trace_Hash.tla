----------------------------- MODULE Trace_Hash -----------------------------
(* Trace validation for C10: every recorded digest / checksum of the real functions equals the value of the
   TLA+ transcription of the published algorithm; hex renderings match the binary ones; seeded forms chain. *)
EXTENDS Hash, TLC, Json, IOUtils
Tr == ndJsonDeserialize(IOEnv.TRACE)
VARIABLE l
Bad(why) == PrintT("BAD " \o ToJson([l |-> l, why |-> why]))
ChkAll(S, P(_), why) == LET f == {i \in S : ~P(i)} IN IF f = {} THEN TRUE ELSE Bad(why \o " [failing indices " \o ToString(f) \o "]")
Init == l = 1
(* message descriptor <<kind, len, seed>> -> bytes (closed forms, no recursion) *)
Gen(d) == LET k == d[1] n == d[2] s == d[3] IN
  CASE k = 0 -> [i \in 1..n |-> 0]
    [] k = 1 -> [i \in 1..n |-> 255]
    [] k = 2 -> [i \in 1..n |-> (i - 1 + s) % 256]
    [] k = 3 -> [i \in 1..n |-> (((i % 997) * (i % 991)) + s * (i % 4096) + (i \div 7)) % 256]
Msg(ev, i) == IF ev.raw = 1 THEN ev.msgs[i] ELSE Gen(ev.msgs[i])
Good(ev, i) ==
  LET m == Msg(ev, i) IN
  CASE ev.fn = "md5" -> ev.bins[i] = MD5(m) /\ HexMatches(ev.hexs[i], ev.bins[i])
    [] ev.fn = "sha1" -> ev.bins[i] = SHA1(m) /\ HexMatches(ev.hexs[i], ev.bins[i])
    [] ev.fn = "sha256" -> ev.bins[i] = SHA256(m) /\ HexMatches(ev.hexs[i], ev.bins[i])
    [] ev.fn = "crc32" -> ev.bins[i] = CRC32(m, <<0, 0>>)
    [] ev.fn = "fnv32" -> ev.bins[i] = FNV1a32(m, Fnv32Start)
    [] ev.fn = "fnv64" -> ev.bins[i] = FNV1a64(m, Fnv64Start)
    (* chained: the implementation fed the hash of the prefix m[1..k] as the seed for the suffix *)
    [] ev.fn = "crc32c" -> ev.bins[i] = CRC32(m, <<0, 0>>)
    [] ev.fn = "fnv32c" -> ev.bins[i] = FNV1a32(m, Fnv32Start)
    [] ev.fn = "fnv64c" -> ev.bins[i] = FNV1a64(m, Fnv64Start)
    (* explicit running value: the published recurrence continued from any intermediate state *)
    [] ev.fn = "crc32s" -> ev.bins[i] = CRC32(m, ev.seeds[i])
    [] ev.fn = "fnv32s" -> ev.bins[i] = FNV1a32(m, ev.seeds[i])
    [] ev.fn = "fnv64s" -> ev.bins[i] = FNV1a64(m, ev.seeds[i])
    [] OTHER -> FALSE
Step(ev) ==
  CASE ev.e = "Reset" -> TRUE
    [] ev.e = "h" -> LET G(i) == Good(ev, i) IN ChkAll(DOMAIN ev.msgs, G, ev.fn \o ": differs from the published algorithm")
    [] OTHER -> Bad("no specification action for event " \o ev.e)
Next == l <= Len(Tr) /\ l' = l + 1 /\ Step(Tr[l])
Spec == Init /\ [][Next]_l
Done == (l = Len(Tr) + 1) => PrintT("TRACE-DONE " \o ToString(Len(Tr)))
=============================================================================
