SPECIFICATION Spec
INVARIANT Done
