SPECIFICATION Spec
INVARIANT Done
