SPECIFICATION Spec
CONSTANT ByteVals = {0, 1, 127, 128, 255}
INVARIANTS Involution LoadLayout BigIsRevLittle SignedForm ExtLaw
