---------------------------- MODULE Trace_Endian ----------------------------
(* Trace validation for C03 (stateless: every event is an independent case or a batch of cases). *)
EXTENDS Endian, TLC, Json, IOUtils
Tr == ndJsonDeserialize(IOEnv.TRACE)
VARIABLES l, host
Bad(why) == PrintT("BAD " \o ToJson([l |-> l, why |-> why]))
Chk(cond, why) == IF cond THEN TRUE ELSE Bad(why)
Init == l = 1 /\ host = TRUE

Step(ev) ==
  CASE ev.e = "Reset" -> host' = (ev.host = "l")
    [] ev.e = "wrap" ->      \* one wrapper operation, digits
         /\ Chk(ev.size = ev.w, "wrapper does not occupy exactly sizeof(T) bytes")
         /\ Chk(ev.stored = Layout(ev.ord, host, ev.after), "stored bytes are not the named-order layout of the native result")
         /\ Chk(ev.loaded = ev.after, "converting the wrapper back does not give the native result")
         /\ Chk(ev.ret = ev.nret, "operator returns a different value than the native operator")
         /\ UNCHANGED host
    [] ev.e = "w16" ->       \* batch of 16-bit wrapper operations, integers 0..65535
         /\ Chk(ev.size = 2, "wrapper does not occupy exactly sizeof(T) bytes")
         /\ Chk(\A i \in 1..Len(ev.after) :
                  /\ ev.stored[i] = (IF IsLittle(ev.ord, host) THEN Swap16(ev.after[i]) ELSE ev.after[i])
                  /\ ev.loaded[i] = ev.after[i],
                "16-bit wrapper: stored bytes / loaded value differ from the native result")
         /\ Chk(\A i \in 1..Len(ev.after) : ev.ret[i] = ev.nret[i],
                "16-bit wrapper: operator returns a different value than the native operator")
         /\ UNCHANGED host
    [] ev.e = "h16" ->       \* batch of 16-bit helper calls: bswap16 / sign_extend from 16 bits
         /\ Chk(\A i \in 1..Len(ev.vs) :
                  CASE ev.fn = "bswap16" -> ev.rs[i] = Swap16(ev.vs[i])
                    [] ev.fn = "sx16_32" -> ev.rs[i] = <<IF ev.vs[i] >= 32768 THEN 65535 ELSE 0, ev.vs[i]>>
                    [] ev.fn = "sx8_16" -> ev.rs[i] = (IF ev.vs[i] >= 128 THEN 65280 + ev.vs[i] ELSE ev.vs[i]),
                "16-bit helper result")
         /\ UNCHANGED host
    [] ev.e = "hb" ->        \* batch of helper calls on digit strings
         /\ Chk(\A i \in 1..Len(ev.vs) :
                  CASE ev.fn = "bswap" -> ev.rs[i] = Bswap(ev.n, ev.sx = 1, ev.vs[i])
                    [] ev.fn = "ext" -> ev.rs[i] = Ext(ev.n, ev.vs[i])
                    [] ev.fn = "sx" -> ev.rs[i] = SignExtend(ev.vs[i], ev.n),
                "helper " \o ev.name \o ": result differs from the definition")
         /\ UNCHANGED host
    [] ev.e = "wrapthrew" ->   \* the native operator has a result for these operands, so the wrapper may not throw
         Bad("wrapper operator threw where the native operator has a defined result") /\ UNCHANGED host
    [] OTHER -> Bad("no specification action for event " \o ev.e) /\ UNCHANGED host
Next == l <= Len(Tr) /\ l' = l + 1 /\ Step(Tr[l])
Spec == Init /\ [][Next]_<<l, host>>
Done == (l = Len(Tr) + 1) => PrintT("TRACE-DONE " \o ToString(Len(Tr)))
=============================================================================
