------------------------------- MODULE Endian -------------------------------
(***************************************************************************)
(* Endian-explicit scalars and byte-swap / sign-extension helpers of        *)
(* src/Encoding.hh (property C03).  Values are digit sequences (bytes,     *)
(* most significant first) of the bit pattern; see spec/ByteIO/ByteIO.tla. *)
(* The wrapper operators are specified RELATIONALLY to the native type, as *)
(* the property puts it: after `x op= b` the wrapper's bytes are the       *)
(* named-order layout of what the same operator yields on a plain T, and   *)
(* the operator returns what the native operator returns.                  *)
(***************************************************************************)
EXTENDS Integers, Sequences

Rev(s) == [i \in 1..Len(s) |-> s[Len(s) + 1 - i]]
Fill(k, b) == [i \in 1..k |-> b]
IsLittle(ord, hostLittle) == ord = "l" \/ (ord = "r" /\ ~hostLittle) \/ (ord = "n" /\ hostLittle)
Layout(ord, hostLittle, digits) == IF IsLittle(ord, hostLittle) THEN Rev(digits) ELSE digits
Load(ord, hostLittle, bytes) == IF IsLittle(ord, hostLittle) THEN Rev(bytes) ELSE bytes
Extend(digits, rw, signed) ==
  LET pad == IF signed /\ digits[1] >= 128 THEN 255 ELSE 0 IN Fill(rw - Len(digits), pad) \o digits
LowBytes(d, n) == SubSeq(d, Len(d) - n + 1, Len(d))

(* bswapN on a w-byte argument: reverse the low n bytes; the rest of the result is zero
   (unsigned forms) or the replicated top bit of the swapped value (signed 24/48-bit forms) *)
Bswap(n, sx, d) == Extend(Rev(LowBytes(d, n)), Len(d), sx)
(* ext24 / ext48 / sign_extend: replicate the top bit of the narrow value *)
Ext(n, d) == Extend(LowBytes(d, n), Len(d), TRUE)
SignExtend(d, rw) == Extend(d, rw, TRUE)

(* 16-bit values as integers 0..65535 (used by the exhaustive batches) *)
Swap16(v) == (v % 256) * 256 + (v \div 256)
=============================================================================
