----------------------------- MODULE MC_Endian -----------------------------
(* Laws of the reference definitions over all digit strings with bytes in ByteVals. *)
EXTENDS Endian, TLC
CONSTANT ByteVals
VARIABLE d
D(w) == [1..w -> ByteVals]
Init == d \in D(2) \cup D(3) \cup D(4) \cup D(6)
Next == UNCHANGED d
Spec == Init /\ [][Next]_d
N == Len(d)
Involution == Bswap(N, FALSE, Bswap(N, FALSE, d)) = d
LoadLayout == \A ord \in {"b", "l", "r", "n"}, h \in BOOLEAN : Load(ord, h, Layout(ord, h, d)) = d
BigIsRevLittle == Layout("b", TRUE, d) = Rev(Layout("l", TRUE, d)) /\ Layout("b", FALSE, d) = Rev(Layout("l", FALSE, d))
                  /\ Layout("b", TRUE, d) = d /\ Layout("l", FALSE, d) = Rev(d)
(* the signed form agrees with the unsigned one on the low N bytes and replicates the top bit *)
SignedForm == LET wide == Fill(8 - N, 0) \o d
                  s == Bswap(N, TRUE, wide) u == Bswap(N, FALSE, wide) IN
              /\ LowBytes(s, N) = LowBytes(u, N) /\ LowBytes(u, N) = Rev(d)
              /\ \A i \in 1..(8 - N) : s[i] = (IF d[N] >= 128 THEN 255 ELSE 0) /\ u[i] = 0
ExtLaw == LET wide == Fill(8 - N, 0) \o d e == Ext(N, wide) IN
          /\ LowBytes(e, N) = d /\ Ext(N, e) = e      \* idempotent, keeps the narrow value
          /\ \A i \in 1..(8 - N) : e[i] = (IF d[1] >= 128 THEN 255 ELSE 0)
          /\ SignExtend(d, 8) = e
=============================================================================
