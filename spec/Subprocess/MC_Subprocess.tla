--------------------------- MODULE MC_Subprocess ---------------------------
EXTENDS Subprocess, TLC
CONSTANTS ProgName, FirstName
W(s, n) == [op |-> "W", s |-> s, n |-> n, code |-> 0]
I(o) == [op |-> o, s |-> "out", n |-> 0, code |-> 0]
R(n) == [op |-> "R", s |-> "out", n |-> n, code |-> 0]
X(c) == [op |-> "Exit", s |-> "out", n |-> 0, code |-> c]
Progs == [
  cat        |-> <<I("Cat"), X(0)>>,                              \* interleaved echo
  readwrite  |-> <<I("RAll"), W("out", 3), W("err", 2), X(0)>>,   \* read everything, then write
  writeread  |-> <<W("out", 3), I("RAll"), W("err", 1), X(3)>>,   \* write first, then read
  quick      |-> <<W("out", 2), W("err", 2), X(7)>>,              \* may exit before the parent ever polls
  closein    |-> <<R(1), I("CloseIn"), W("out", 2), X(0)>>,       \* closes stdin early
  closeout   |-> <<W("out", 1), I("CloseOut"), I("RAll"), W("err", 2), X(1)>>,
  both       |-> <<W("err", 3), W("out", 3), I("RAll"), X(0)>>,
  hang       |-> <<W("out", 2), I("Hang")>>,                      \* outlives every deadline
  ignhang    |-> <<I("IgnTerm"), W("out", 2), W("err", 1), I("Hang")>>,   \* ... and ignores SIGTERM
  slowexit   |-> <<I("IgnTerm"), W("out", 3), X(4)>> ]            \* may or may not finish before the deadline
MCProg == Progs[ProgName]
MCFirst == IF FirstName = "none" THEN <<>> ELSE Progs[FirstName]
=============================================================================
