SPECIFICATION FairSpec
CONSTANTS Cap = 3  Payload = 4  Variant = "communicate"  Drain = TRUE  CloseAll = TRUE  Timeout = FALSE  Escalate = TRUE  DtorSig = "KILL"  ProgName = "cat"
CONSTANT Prog <- MCProg
INVARIANTS OutputComplete StatusExact Reaped AllFdsClosed StdinDelivered NoThrowUnlessEpipe
PROPERTY Termination
