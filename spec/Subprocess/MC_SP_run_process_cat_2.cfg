SPECIFICATION FairSpec
CONSTANTS Cap = 2  Payload = 3  Variant = "run_process"  Drain = TRUE  CloseAll = TRUE  Timeout = FALSE  Escalate = TRUE  DtorSig = "KILL"  FirstName = "none"  ReapOnAssign = TRUE  ProgName = "cat"
CONSTANT Prog <- MCProg
CONSTANT FirstProg <- MCFirst
INVARIANTS OutputComplete StatusExact Reaped AllFdsClosed StdinDelivered NoThrowUnlessEpipe
PROPERTY Termination
