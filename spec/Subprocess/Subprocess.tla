----------------------------- MODULE Subprocess -----------------------------
(***************************************************************************)
(* run_process / Subprocess::communicate (src/Process.cc), property C15.   *)
(* Closed system of three components:                                      *)
(*   kernel : three pipes (in: parent -> child stdin, out / err: child ->  *)
(*            parent) with finite capacity, and the child's wait state;    *)
(*   child  : a program over R / RAll / Cat / W / CloseIn / CloseOut /     *)
(*            Exit instructions (blocking reads and writes);               *)
(*   parent : the poll loop of run_process or communicate, one action per  *)
(*            system-call level step, including the post-exit drain and    *)
(*            the closing of pipe ends still open at return.               *)
(* Bytes are numbered items, so "exactly the bytes the child wrote, in     *)
(* order" is sequence equality.                                            *)
(***************************************************************************)
EXTENDS Integers, Sequences, FiniteSets

CONSTANTS Cap,          \* pipe capacity
          Payload,      \* number of stdin bytes the parent has to deliver (0 = empty string given)
          Prog,         \* the child's program: sequence of instruction records
          Variant,      \* "run_process" | "communicate" | "abandon" (a Subprocess object destroyed right after creation)
          Drain,        \* TRUE: the parent drains the pipes after the child has exited (the code); FALSE: legacy
          CloseAll,     \* TRUE: pipe ends still open at return are closed (the code); FALSE: legacy (descriptor leak)
          Timeout,      \* TRUE: run_process was given a deadline (timeout_usecs > 0)
          FirstProg,    \* <<>>, or the program of a FIRST child that is still running when the Subprocess object is re-assigned
                        \* (sp = Subprocess(cmd)): operator=(Subprocess&&) must end and reap it before the run modelled here
          ReapOnAssign, \* TRUE: move assignment applies the destructor's protocol to the replaced child (the code);
                        \* FALSE: regression model - the pid is simply overwritten
          DtorSig,      \* signal ~Subprocess sends to a child that is still running: "KILL" (the code); "TERM": regression
                        \* model - a child that ignores SIGTERM is then waited for for ever
          Escalate      \* TRUE: a child that survives SIGTERM gets SIGKILL at the second deadline (the code);
                        \* FALSE: regression model - the termination request is only repeated

VARIABLES pin, pout, perr,   \* pipe buffers
          cfd,               \* child-side ends open?  [in, out, err]
          pfd,               \* parent-side ends open? [in, out, err]
          cpc, cprog, chold, cgot, cwrote,   \* child: program counter, progress within W, byte held by Cat, bytes read, bytes written per stream
          cstate,            \* "running" | "zombie" | "reaped"
          code,              \* exit code the child chose
          ppc, ready, sent, acc, status, threw,
          phase,             \* 1 while the first child (FirstProg) is the object's child, 2 for the run proper
          orphan,            \* TRUE once a replaced child was left without anybody to reap it
          tm                 \* deadline handling: [timer: "off" | "armed" | "expired", termed: SIGTERM already sent?,
                             \*                     ign: child ignores SIGTERM?, sig: signal pending for the child]
vars == <<pin, pout, perr, cfd, pfd, cpc, cprog, chold, cgot, cwrote, cstate, code, ppc, ready, sent, acc, status, threw, tm, phase, orphan>>

Streams == {"out", "err"}
Buf(s) == IF s = "out" THEN pout ELSE perr
Min(a, b) == IF a < b THEN a ELSE b

CurProg == IF phase = 1 THEN FirstProg ELSE Prog
Tm0 == [timer |-> IF Timeout THEN "armed" ELSE "off", termed |-> FALSE, ign |-> FALSE, sig |-> "none"]
Init ==
  /\ phase = (IF FirstProg = <<>> THEN 2 ELSE 1) /\ orphan = FALSE
  /\ pin = <<>> /\ pout = <<>> /\ perr = <<>>
  /\ cfd = [in |-> TRUE, out |-> TRUE, err |-> TRUE]
  /\ pfd = [in |-> TRUE, out |-> TRUE, err |-> TRUE]
  /\ cpc = 1 /\ cprog = 0 /\ chold = 0 /\ cgot = <<>> /\ cwrote = [out |-> <<>>, err |-> <<>>]
  /\ cstate = "running" /\ code = -1
  /\ ppc = (IF FirstProg = <<>> THEN "start" ELSE "assign") /\ ready = {} /\ sent = 0 /\ acc = [out |-> <<>>, err |-> <<>>] /\ status = -1 /\ threw = FALSE
  /\ tm = (IF FirstProg = <<>> THEN Tm0 ELSE [Tm0 EXCEPT !.timer = "off"])

(* ------------------------------------------------------------------ child *)
Ins == CurProg[cpc]
CUnch == UNCHANGED <<pfd, ppc, ready, sent, acc, status, threw, tm, phase, orphan>>
NextByte(s) == Len(cwrote[s]) + 1            \* bytes of a stream are numbered 1, 2, 3, ...

ChildWrite ==            \* W(stream, n): one write() call moves as much as fits, at least one byte
  /\ cstate = "running" /\ cpc <= Len(CurProg) /\ Ins.op = "W"
  /\ LET s == Ins.s
         space == Cap - Len(Buf(s))
         left == Ins.n - cprog IN
     /\ cfd[s] /\ pfd[s]                      \* (writing with the reader gone would be SIGPIPE; not in Progs)
     /\ space > 0
     /\ \E k \in 1..Min(space, left) :
          LET bytes == [i \in 1..k |-> NextByte(s) + i - 1] IN
          /\ IF s = "out" THEN pout' = pout \o bytes /\ perr' = perr ELSE perr' = perr \o bytes /\ pout' = pout
          /\ cwrote' = [cwrote EXCEPT ![s] = @ \o bytes]
          /\ IF k = left THEN cpc' = cpc + 1 /\ cprog' = 0 ELSE cpc' = cpc /\ cprog' = cprog + k
  /\ UNCHANGED <<pin, cfd, chold, cgot, cstate, code>> /\ CUnch

ChildRead ==             \* R(n) reads up to n bytes once; RAll reads until end of input
  /\ cstate = "running" /\ cpc <= Len(CurProg) /\ Ins.op \in {"R", "RAll"}
  /\ cfd.in
  /\ IF pin # <<>>
       THEN \E k \in 1..(IF Ins.op = "R" THEN Min(Ins.n, Len(pin)) ELSE Len(pin)) :
              /\ cgot' = cgot \o SubSeq(pin, 1, k) /\ pin' = SubSeq(pin, k + 1, Len(pin))
              /\ cpc' = IF Ins.op = "R" THEN cpc + 1 ELSE cpc
       ELSE /\ ~pfd.in                         \* blocks while the writer is open; end of input otherwise
            /\ cpc' = cpc + 1 /\ UNCHANGED <<cgot, pin>>
  /\ UNCHANGED <<pout, perr, cfd, cprog, chold, cwrote, cstate, code>> /\ CUnch

ChildCat ==              \* copy stdin to stdout byte by byte until end of input
  /\ cstate = "running" /\ cpc <= Len(CurProg) /\ Ins.op = "Cat"
  /\ IF chold # 0
       THEN /\ Len(pout) < Cap /\ pfd.out
            /\ pout' = Append(pout, NextByte("out")) /\ cwrote' = [cwrote EXCEPT !.out = Append(@, NextByte("out"))]
            /\ chold' = 0 /\ UNCHANGED <<pin, cgot, cpc>>
       ELSE IF pin # <<>>
         THEN /\ chold' = Head(pin) /\ cgot' = Append(cgot, Head(pin)) /\ pin' = Tail(pin)
              /\ UNCHANGED <<pout, cwrote, cpc>>
         ELSE /\ ~pfd.in /\ cpc' = cpc + 1 /\ UNCHANGED <<pin, pout, chold, cgot, cwrote>>
  /\ UNCHANGED <<perr, cfd, cprog, cstate, code>> /\ CUnch

ChildClose ==
  /\ cstate = "running" /\ cpc <= Len(CurProg) /\ Ins.op \in {"CloseIn", "CloseOut"}
  /\ cfd' = IF Ins.op = "CloseIn" THEN [cfd EXCEPT !.in = FALSE] ELSE [cfd EXCEPT !.out = FALSE]
  /\ cpc' = cpc + 1
  /\ UNCHANGED <<pin, pout, perr, cprog, chold, cgot, cwrote, cstate, code>> /\ CUnch

ChildExit ==             \* Exit(code): every descriptor of the child is closed, the child becomes a zombie
  /\ cstate = "running" /\ cpc <= Len(CurProg) /\ Ins.op = "Exit"
  /\ cstate' = "zombie" /\ code' = Ins.code
  /\ cfd' = [in |-> FALSE, out |-> FALSE, err |-> FALSE]
  /\ UNCHANGED <<pin, pout, perr, cpc, cprog, chold, cgot, cwrote>> /\ CUnch

ChildIgnTerm ==          \* signal(SIGTERM, SIG_IGN)
  /\ cstate = "running" /\ cpc <= Len(CurProg) /\ Ins.op = "IgnTerm"
  /\ tm' = [tm EXCEPT !.ign = TRUE] /\ cpc' = cpc + 1
  /\ UNCHANGED <<pin, pout, perr, cfd, pfd, cprog, chold, cgot, cwrote, cstate, code, ppc, ready, sent, acc, status, threw, phase, orphan>>
(* "Hang" has no action: the child blocks for ever (a child that outlives every deadline) *)

Child == ChildWrite \/ ChildRead \/ ChildCat \/ ChildClose \/ ChildExit \/ ChildIgnTerm

(* ------------------------------------------------------------------ kernel: timer and signals *)
TimerFire ==             \* the deadline passes (at any moment while it is armed)
  /\ tm.timer = "armed" /\ ppc \notin {"done", "threw", "gone"}
  /\ tm' = [tm EXCEPT !.timer = "expired"]
  /\ UNCHANGED <<pin, pout, perr, cfd, pfd, cpc, cprog, chold, cgot, cwrote, cstate, code, ppc, ready, sent, acc, status, threw, phase, orphan>>
SignalDeliver ==         \* a pending signal reaches the child: SIGKILL always ends it, SIGTERM unless ignored
  /\ tm.sig # "none" /\ cstate = "running"
  /\ tm' = [tm EXCEPT !.sig = "none"]
  /\ IF tm.sig = "KILL" \/ ~tm.ign
       THEN cstate' = "zombie" /\ code' = (IF tm.sig = "KILL" THEN 9 ELSE 15) /\ cfd' = [in |-> FALSE, out |-> FALSE, err |-> FALSE]
       ELSE UNCHANGED <<cstate, code, cfd>>
  /\ UNCHANGED <<pin, pout, perr, pfd, cpc, cprog, chold, cgot, cwrote, ppc, ready, sent, acc, status, threw, phase, orphan>>
Kernel == TimerFire \/ SignalDeliver

(* ------------------------------------------------------------------ parent *)
PUnch == UNCHANGED <<cfd, cpc, cprog, chold, cgot, cwrote, code, tm, phase, orphan>>
InRegistered == pfd.in /\ sent < Payload
(* descriptors poll() would report: readable data or hang-up on out/err, room (or a vanished reader) on in *)
(* communicate() services stdout only: the stderr pipe stays with the Subprocess object, unread *)
Serviced == IF Variant = "communicate" THEN {"out"} ELSE Streams
ReadySet == {s \in Serviced : pfd[s] /\ (Buf(s) # <<>> \/ ~cfd[s])}
              \cup (IF InRegistered /\ (Len(pin) < Cap \/ ~cfd.in) THEN {"in"} ELSE {})

P_Start ==               \* stdin is closed at once when there is nothing to send
  /\ ppc = "start"
  /\ pfd' = IF Payload = 0 /\ Variant # "abandon" THEN [pfd EXCEPT !.in = FALSE] ELSE pfd
  /\ ppc' = IF Variant = "abandon" THEN "kill" ELSE "wait"      \* abandon: straight into the destructor
  /\ UNCHANGED <<pin, pout, perr, cstate, ready, sent, acc, status, threw>> /\ PUnch

P_Wait ==                \* waitpid(WNOHANG)
  /\ ppc = "wait"
  /\ IF cstate = "zombie"
       THEN cstate' = "reaped" /\ status' = code /\ ppc' = (IF Drain THEN "drain" ELSE "close")
       ELSE cstate' = cstate /\ status' = status /\ ppc' = "poll"
  /\ UNCHANGED <<pin, pout, perr, pfd, ready, sent, acc, threw>> /\ PUnch

P_Poll ==                \* poll(): returns the ready descriptors, or times out with none
  /\ ppc = "poll"
  /\ ready' = ReadySet
  /\ ppc' = IF ReadySet = {} THEN "deadline" ELSE "handle"
  /\ UNCHANGED <<pin, pout, perr, pfd, cstate, sent, acc, status, threw>> /\ PUnch

P_HandleRead(s) ==       \* POLLIN: read what is there; communicate also sees end of stream here
  /\ ppc = "handle" /\ s \in ready /\ s \in Streams
  /\ ready' = ready \ {s}
  /\ IF Buf(s) # <<>>
       THEN /\ acc' = [acc EXCEPT ![s] = @ \o Buf(s)]
            /\ IF s = "out" THEN pout' = <<>> /\ perr' = perr ELSE perr' = <<>> /\ pout' = pout
            /\ pfd' = pfd
       ELSE /\ UNCHANGED <<acc, pout, perr>>
            /\ pfd' = IF Variant = "communicate" THEN [pfd EXCEPT ![s] = FALSE] ELSE pfd   \* run_process: POLLHUP only, nothing to do
  /\ UNCHANGED <<pin, cstate, sent, status, threw, ppc>> /\ PUnch

P_HandleWrite ==         \* POLLOUT: a non-blocking write moves 1..room bytes; EPIPE when the reader is gone
  /\ ppc = "handle" /\ "in" \in ready
  /\ ready' = ready \ {"in"}
  /\ IF ~cfd.in
       THEN /\ (IF Variant = "run_process" THEN threw' = TRUE /\ ppc' = "close" /\ pfd' = pfd
                ELSE threw' = threw /\ ppc' = ppc /\ pfd' = [pfd EXCEPT !.in = FALSE])
            /\ UNCHANGED <<pin, sent>>
       ELSE IF Len(pin) < Cap
         THEN \E k \in 1..Min(Cap - Len(pin), Payload - sent) :
                /\ pin' = pin \o [i \in 1..k |-> sent + i]
                /\ sent' = sent + k
                /\ pfd' = IF sent + k = Payload THEN [pfd EXCEPT !.in = FALSE] ELSE pfd
                /\ UNCHANGED <<threw, ppc>>
         ELSE UNCHANGED <<pin, sent, pfd, threw, ppc>>
  /\ UNCHANGED <<pout, perr, cstate, acc, status>> /\ PUnch

P_HandleDone == ppc = "handle" /\ ready = {} /\ ppc' = "deadline"
                /\ UNCHANGED <<pin, pout, perr, pfd, cstate, ready, sent, acc, status, threw>> /\ PUnch

P_Deadline ==            \* end of a loop iteration: past the deadline, request termination, then (5 s later) force it
  /\ ppc = "deadline"
  /\ ppc' = "wait"
  /\ IF tm.timer = "expired"
       THEN tm' = [tm EXCEPT !.timer = "armed", !.termed = TRUE,
                             !.sig = IF tm.termed /\ Escalate THEN "KILL" ELSE IF tm.sig = "KILL" THEN "KILL" ELSE "TERM"]
       ELSE tm' = tm
  /\ UNCHANGED <<pin, pout, perr, cfd, pfd, cpc, cprog, chold, cgot, cwrote, cstate, code, ready, sent, acc, status, threw, phase, orphan>>

P_Drain ==               \* after the child was reaped: read what is left in each pipe that is still open
  /\ ppc = "drain"
  /\ acc' = [s \in Streams |-> IF pfd[s] /\ (Variant = "run_process" \/ s = "out") THEN acc[s] \o Buf(s) ELSE acc[s]]
  /\ pout' = IF pfd.out THEN <<>> ELSE pout
  /\ perr' = IF pfd.err /\ Variant = "run_process" THEN <<>> ELSE perr
  /\ ppc' = "close"
  /\ UNCHANGED <<pin, pfd, cstate, ready, sent, status, threw>> /\ PUnch

P_Close ==               \* pipe ends still open are closed on every path out of the function
  /\ ppc = "close"
  /\ pfd' = IF CloseAll THEN [in |-> FALSE, out |-> FALSE, err |-> FALSE] ELSE pfd
  /\ ppc' = IF threw THEN "kill" ELSE "done"
  /\ UNCHANGED <<pin, pout, perr, cstate, ready, sent, acc, status, threw>> /\ PUnch

(* ~Subprocess (exception path of run_process, or an abandoned object): waitpid(WNOHANG); a child that is still
   running is sent DtorSig and then waited for WITHOUT a time limit *)
P_DtorTry ==
  /\ ppc = "kill"
  /\ IF cstate = "zombie"
       THEN cstate' = "reaped" /\ tm' = tm /\ ppc' = (IF threw THEN "threw" ELSE "gone")
       ELSE cstate' = cstate /\ tm' = [tm EXCEPT !.sig = IF tm.sig = "KILL" THEN "KILL" ELSE DtorSig] /\ ppc' = "dtorwait"
  /\ UNCHANGED <<pin, pout, perr, cfd, pfd, cpc, cprog, chold, cgot, cwrote, code, ready, sent, acc, status, threw, phase, orphan>>
P_DtorWait ==            \* blocking waitpid
  /\ ppc = "dtorwait" /\ cstate = "zombie"
  /\ cstate' = "reaped" /\ ppc' = (IF threw THEN "threw" ELSE "gone")
  /\ UNCHANGED <<pin, pout, perr, cfd, pfd, cpc, cprog, chold, cgot, cwrote, code, ready, sent, acc, status, threw, tm, phase, orphan>>

(* operator=(Subprocess&&) on an object whose first child may still be running: the destructor's protocol for the child
   that is replaced (non-blocking wait, else SIGKILL and a blocking wait), then the new child with fresh pipes *)
NewChild(orph) ==
  /\ pin' = <<>> /\ pout' = <<>> /\ perr' = <<>>
  /\ cfd' = [in |-> TRUE, out |-> TRUE, err |-> TRUE] /\ pfd' = [in |-> TRUE, out |-> TRUE, err |-> TRUE]
  /\ cpc' = 1 /\ cprog' = 0 /\ chold' = 0 /\ cgot' = <<>> /\ cwrote' = [out |-> <<>>, err |-> <<>>]
  /\ cstate' = "running" /\ code' = -1
  /\ ppc' = "start" /\ ready' = {} /\ sent' = 0 /\ acc' = [out |-> <<>>, err |-> <<>>] /\ status' = -1 /\ threw' = FALSE
  /\ tm' = Tm0 /\ phase' = 2 /\ orphan' = orph
P_Assign ==
  /\ ppc = "assign"
  /\ IF ~ReapOnAssign THEN NewChild(TRUE)                    \* regression model: nobody will ever wait for the first child
     ELSE IF cstate = "zombie" THEN NewChild(FALSE)          \* waitpid(WNOHANG) reaped it
     ELSE /\ tm' = [tm EXCEPT !.sig = "KILL"] /\ ppc' = "assignwait"
          /\ UNCHANGED <<pin, pout, perr, cfd, pfd, cpc, cprog, chold, cgot, cwrote, cstate, code, ready, sent, acc, status, threw, phase, orphan>>
P_AssignWait == ppc = "assignwait" /\ cstate = "zombie" /\ NewChild(FALSE)

Parent == P_Start \/ P_Wait \/ P_Poll \/ (\E s \in Streams : P_HandleRead(s)) \/ P_HandleWrite \/ P_HandleDone
          \/ P_Deadline \/ P_Drain \/ P_Close \/ P_DtorTry \/ P_DtorWait \/ P_Assign \/ P_AssignWait

Next == Child \/ Parent \/ Kernel
Spec == Init /\ [][Next]_vars
FairSpec == Spec /\ WF_vars(Child) /\ WF_vars(Parent) /\ WF_vars(TimerFire) /\ WF_vars(SignalDeliver)

(* ------------------------------------------------------------------ the property *)
Finished == ppc \in {"done", "threw", "gone"}
OutputComplete == ppc = "done" =>
                    /\ acc.out = cwrote.out
                    /\ (Variant = "run_process" => acc.err = cwrote.err)
StatusExact == ppc = "done" => status = code /\ cstate = "reaped"
Reaped == Finished => (cstate = "reaped" /\ ~orphan)
AllFdsClosed == (Finished /\ Variant = "run_process") => ~pfd.in /\ ~pfd.out /\ ~pfd.err
(* a child that reads its input to the end received the whole payload, in order *)
ReadsAll == \E i \in DOMAIN Prog : Prog[i].op \in {"RAll", "Cat"}
StdinDelivered == (ppc = "done" /\ ReadsAll /\ ~(\E i \in DOMAIN Prog : Prog[i].op = "CloseIn") /\ ~tm.termed)   \* (a child ended by the deadline may not have read everything)
                    => cgot = [i \in 1..Payload |-> i]
NoThrowUnlessEpipe == threw => (\E i \in DOMAIN Prog : Prog[i].op = "CloseIn") \/ ~ReadsAll \/ tm.termed
(* a deadline ends the child: it is dead and reaped when the call returns, with the signal that ended it as status *)
Hangs == \E i \in DOMAIN Prog : Prog[i].op = "Hang"
TimeoutEnds == (ppc = "done" /\ Hangs) => (cstate = "reaped" /\ status \in {9, 15})
Termination == <>Finished
=============================================================================
