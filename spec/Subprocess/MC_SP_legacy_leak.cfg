SPECIFICATION FairSpec
CONSTANTS Cap = 1  Payload = 3  Variant = "run_process"  Drain = TRUE  CloseAll = FALSE  Timeout = FALSE  Escalate = TRUE  DtorSig = "KILL"  ProgName = "quick"
CONSTANT Prog <- MCProg
INVARIANTS OutputComplete StatusExact Reaped AllFdsClosed StdinDelivered NoThrowUnlessEpipe
PROPERTY Termination
