SPECIFICATION FairSpec
CONSTANTS Cap = 2  Payload = 3  Variant = "run_process"  Drain = TRUE  CloseAll = TRUE  Timeout = FALSE  Escalate = TRUE  DtorSig = "KILL"  ProgName = "quick"
CONSTANT Prog <- MCProg
INVARIANTS OutputComplete StatusExact Reaped AllFdsClosed StdinDelivered NoThrowUnlessEpipe
PROPERTY Termination
