SPECIFICATION FairSpec
CONSTANTS Cap = 3  Payload = 2  Variant = "communicate"  Drain = TRUE  CloseAll = TRUE  Timeout = FALSE  Escalate = TRUE  DtorSig = "KILL"  FirstName = "quick"  ReapOnAssign = TRUE  ProgName = "cat"
CONSTANT Prog <- MCProg
CONSTANT FirstProg <- MCFirst
INVARIANTS OutputComplete StatusExact Reaped AllFdsClosed StdinDelivered NoThrowUnlessEpipe TimeoutEnds
PROPERTY Termination
