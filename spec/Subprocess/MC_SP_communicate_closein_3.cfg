SPECIFICATION FairSpec
CONSTANTS Cap = 3  Payload = 4  Variant = "communicate"  Drain = TRUE  CloseAll = TRUE  Timeout = FALSE  Escalate = TRUE  DtorSig = "KILL"  FirstName = "none"  ReapOnAssign = TRUE  ProgName = "closein"
CONSTANT Prog <- MCProg
CONSTANT FirstProg <- MCFirst
INVARIANTS OutputComplete StatusExact Reaped AllFdsClosed StdinDelivered NoThrowUnlessEpipe
PROPERTY Termination
