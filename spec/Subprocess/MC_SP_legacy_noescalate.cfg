SPECIFICATION FairSpec
CONSTANTS Cap = 1  Payload = 2  Variant = "run_process"  Drain = TRUE  CloseAll = TRUE  Timeout = TRUE  Escalate = FALSE  DtorSig = "KILL"  FirstName = "none"  ReapOnAssign = TRUE  ProgName = "ignhang"
CONSTANT Prog <- MCProg
CONSTANT FirstProg <- MCFirst
INVARIANTS OutputComplete StatusExact Reaped AllFdsClosed StdinDelivered NoThrowUnlessEpipe TimeoutEnds
PROPERTY Termination
