SPECIFICATION FairSpec
CONSTANTS Cap = 1  Payload = 3  Variant = "run_process"  Drain = TRUE  CloseAll = TRUE  Timeout = FALSE  Escalate = TRUE  DtorSig = "KILL"  FirstName = "none"  ReapOnAssign = TRUE  ProgName = "writeread"
CONSTANT Prog <- MCProg
CONSTANT FirstProg <- MCFirst
INVARIANTS OutputComplete StatusExact Reaped AllFdsClosed StdinDelivered NoThrowUnlessEpipe
PROPERTY Termination
