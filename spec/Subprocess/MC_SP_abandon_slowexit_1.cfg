SPECIFICATION FairSpec
CONSTANTS Cap = 1  Payload = 0  Variant = "abandon"  Drain = TRUE  CloseAll = TRUE  Timeout = FALSE  Escalate = TRUE  DtorSig = "KILL"  FirstName = "none"  ReapOnAssign = TRUE  ProgName = "slowexit"
CONSTANT Prog <- MCProg
CONSTANT FirstProg <- MCFirst
INVARIANTS OutputComplete StatusExact Reaped AllFdsClosed StdinDelivered NoThrowUnlessEpipe TimeoutEnds
PROPERTY Termination
