SPECIFICATION Spec
INVARIANT Done
