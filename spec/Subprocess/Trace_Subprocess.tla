-------------------------- MODULE Trace_Subprocess --------------------------
(***************************************************************************)
(* Trace validation for C15: each event is one complete run_process /      *)
(* communicate call against a scripted child (harness/drv_subprocess.cc).  *)
(* P-checks are the invariants of Subprocess.tla stated on the observed    *)
(* outcome: complete output on both streams, exact wait status, payload    *)
(* delivered, no descriptor left open, child reaped, throws iff status is  *)
(* non-zero when checking.  The expected output volumes are computed here  *)
(* from the child's program, not by the harness.                           *)
(* R-check: the logged parent-side system calls must be a word of the      *)
(* control skeleton of P_Wait / P_Poll / P_Handle* / P_Drain / P_Close     *)
(* (wait-poll-handle loop, then drain reads, then closes); a mismatch is   *)
(* reported as DRIFT, not as a violation.                                  *)
(***************************************************************************)
EXTENDS Integers, Sequences, SequencesExt, FiniteSets, TLC, Json, IOUtils
Tr == ndJsonDeserialize(IOEnv.TRACE)
VARIABLE l
Bad(why) == PrintT("BAD " \o ToJson([l |-> l, why |-> why]))
Chk(cond, why) == IF cond THEN TRUE ELSE Bad(why)
Drift(why) == PrintT("DRIFT " \o ToJson([l |-> l, why |-> why]))
Init == l = 1

SumOf(prog, opname) == FoldLeft(LAMBDA a, o : IF o.op = opname THEN a + o.n ELSE a, 0, prog)
Has(prog, opname) == \E i \in DOMAIN prog : prog[i].op = opname
PayloadLen(ev) == IF ev.payload > 0 THEN ev.payload ELSE 0
(* volumes the child writes *)
ExpOut(ev) == SumOf(ev.prog, "w1") + (IF Has(ev.prog, "cat") THEN PayloadLen(ev) ELSE 0)
ExpErr(ev) == SumOf(ev.prog, "w2")
(* wait status: exit code << 8, or the terminating signal *)
ExpStatus(ev) == LET ks == SelectSeq(ev.prog, LAMBDA o : o.op = "k")
                     xs == SelectSeq(ev.prog, LAMBDA o : o.op = "x") IN
                 IF ks # <<>> THEN ks[1].n ELSE IF xs # <<>> THEN xs[1].n * 256 ELSE 0
(* does the child read its standard input to the end (so that the whole payload must arrive)? *)
ConsumesAll(ev) == (Has(ev.prog, "rall") \/ Has(ev.prog, "cat")) /\ ~Has(ev.prog, "ci")
TimedOut(ev) == ev.timeout > 0 /\ ev.timeout < 2000000 /\ SumOf(ev.prog, "s") * 1000 > ev.timeout

(* control skeleton of the parent as a word automaton over the logged calls *)
SysStep(st, t) ==
  LET k == IF Len(t) > 0 THEN SubSeq(t, 1, 1) ELSE "" IN
  CASE st = "loop" /\ t = "cI" -> "loop"            \* P_Start: stdin closed at once when there is no payload
    [] st = "loop" /\ t = "w0" -> "needpoll"
    [] st = "loop" /\ t = "w1" -> "drain"
    [] st = "needpoll" /\ t = "p" -> "polled"
    [] st = "polled" /\ t = "w0" -> "needpoll"
    [] st = "polled" /\ t = "w1" -> "drain"
    [] st = "polled" /\ t \notin {"w0", "w1", "p", "we"} -> "polled"
    [] st = "drain" /\ t \in {"rO+", "rO0", "rO-", "rE+", "rE0", "rE-"} -> "drain"
    [] st \in {"drain", "closing"} /\ t \in {"cI", "cO", "cE"} -> "closing"
    [] OTHER -> "bad"

Run(ev) ==
  LET exact == ConsumesAll(ev) \/ ev.payload <= 0
      okOutcome == ev.out = "ok" IN
  /\ Chk(ev.fds_after = ev.fds_before, "a descriptor was left open (or closed twice) by the call")
  /\ Chk(ev.zombies = 0 /\ ev.alive = 0, "the child was not reaped (zombie or still running after return)")
  /\ IF ev.api = "abandon"        \* the object was destroyed with the child possibly alive: P_DtorTry / P_DtorWait
       THEN Chk(okOutcome, "destroying a Subprocess object threw")
     ELSE IF TimedOut(ev)
       THEN Chk(IF ev.check = 1 THEN ev.out # "ok" ELSE ev.out = "ok" /\ ev.status # 0, "a timeout must end the child")
       ELSE IF ~exact /\ ~okOutcome THEN Chk(ev.out = "runtime_error", "only a failed write to a vanished reader may throw here")
       ELSE IF ev.check = 1 /\ ev.api = "run_process" /\ ExpStatus(ev) # 0
         THEN Chk(ev.out = "runtime_error", "check=true must throw iff the wait status is non-zero")
       ELSE /\ Chk(okOutcome, "the call threw although the child ran to completion and the status allows returning")
            /\ Chk(ev.so_len = ExpOut(ev) /\ ev.so_eq = 1, "stdout is not exactly the bytes the child wrote")
            /\ Chk(ev.api = "communicate" \/ (ev.se_len = ExpErr(ev) /\ ev.se_eq = 1), "stderr is not exactly the bytes the child wrote")
            /\ Chk(ev.status = ExpStatus(ev), "wait status differs from the child's exit code / terminating signal")
            /\ Chk(~(exact /\ Has(ev.prog, "rep")) \/ (ev.got_n = PayloadLen(ev) /\ ev.got_ok = 1),
                   "the child did not receive the whole stdin payload")
  /\ IF ev.api = "run_process" /\ okOutcome /\ ev.timeout = 0 /\ ev.check = 0
        /\ FoldLeft(SysStep, "loop", ev.sys) \notin {"drain", "closing"}
       THEN Drift("parent-side system calls are not a word of the modelled poll loop: " \o ToJson(ev.sys))
       ELSE TRUE

Step(ev) ==
  CASE ev.e = "Reset" -> TRUE
    [] ev.e = "run" -> Run(ev)
    [] OTHER -> Bad("no specification action for event " \o ev.e)
Next == l <= Len(Tr) /\ l' = l + 1 /\ Step(Tr[l])
Spec == Init /\ [][Next]_l
Done == (l = Len(Tr) + 1) => PrintT("TRACE-DONE " \o ToString(Len(Tr)))
=============================================================================
