SPECIFICATION FairSpec
CONSTANTS Cap = 1  Payload = 0  Variant = "run_process"  Drain = TRUE  CloseAll = TRUE  Timeout = TRUE  Escalate = TRUE  DtorSig = "KILL"  ProgName = "slowexit"
CONSTANT Prog <- MCProg
INVARIANTS OutputComplete StatusExact Reaped AllFdsClosed StdinDelivered NoThrowUnlessEpipe TimeoutEnds
PROPERTY Termination
