SPECIFICATION FairSpec
CONSTANTS Cap = 3  Payload = 4  Variant = "communicate"  Drain = FALSE  CloseAll = TRUE  Timeout = FALSE  Escalate = TRUE  DtorSig = "KILL"  FirstName = "none"  ReapOnAssign = TRUE  ProgName = "quick"
CONSTANT Prog <- MCProg
CONSTANT FirstProg <- MCFirst
INVARIANTS OutputComplete StatusExact Reaped AllFdsClosed StdinDelivered NoThrowUnlessEpipe
PROPERTY Termination
