SPECIFICATION FairSpec
CONSTANTS Cap = 3  Payload = 4  Variant = "communicate"  Drain = FALSE  CloseAll = TRUE  Timeout = FALSE  Escalate = TRUE  DtorSig = "KILL"  ProgName = "quick"
CONSTANT Prog <- MCProg
INVARIANTS OutputComplete StatusExact Reaped AllFdsClosed StdinDelivered NoThrowUnlessEpipe
PROPERTY Termination
