SPECIFICATION Spec
CONSTANTS Bytes = {0, 1, 63, 127, 128, 255, 65, 61}  Syms = {65, 66, 47, 45, 61, 33}
INVARIANTS RoundTrip Strict Rot Rfc Unesc
