------------------------------ MODULE TextEnc ------------------------------
(***************************************************************************)
(* base64 (RFC 4648), rot13, URL / control / quote escaping, netloc         *)
(* rendering (src/Encoding.cc, src/Strings.cc, src/Network.cc): C11.       *)
(* Encoders are functions; the escapers are judged relationally through    *)
(* independent unescapers plus permitted-output-alphabet predicates.        *)
(***************************************************************************)
EXTENDS Integers, Sequences, SequencesExt, FiniteSets

Std == <<65,66,67,68,69,70,71,72,73,74,75,76,77,78,79,80,81,82,83,84,85,86,87,88,89,90,
         97,98,99,100,101,102,103,104,105,106,107,108,109,110,111,112,113,114,115,116,117,118,119,120,121,122,
         48,49,50,51,52,53,54,55,56,57,43,47>>
UrlSafe == [i \in 1..64 |-> IF i = 63 THEN 45 ELSE IF i = 64 THEN 95 ELSE Std[i]]
PAD == 61
Val(alph, c) == LET S == {i \in 1..64 : alph[i] = c} IN IF S = {} THEN -1 ELSE (CHOOSE i \in S : TRUE) - 1
InAlph(alph, c) == Val(alph, c) >= 0

(* ---- encode: 3 bytes -> 4 symbols, '=' padding ------------------------------- *)
Enc3(alph, a, b, c) == <<alph[(a \div 4) + 1], alph[((a % 4) * 16 + (b \div 16)) + 1], alph[((b % 16) * 4 + (c \div 64)) + 1], alph[(c % 64) + 1]>>
B64Enc(alph, s) ==
  LET n == Len(s) \div 3
      full == FoldLeft(LAMBDA acc, k : acc \o Enc3(alph, s[3 * k - 2], s[3 * k - 1], s[3 * k]), <<>>, [k \in 1..n |-> k])
      r == Len(s) - 3 * n IN
  IF r = 0 THEN full
  ELSE IF r = 1 THEN full \o SubSeq(Enc3(alph, s[3 * n + 1], 0, 0), 1, 2) \o <<PAD, PAD>>
  ELSE full \o SubSeq(Enc3(alph, s[3 * n + 1], s[3 * n + 2], 0), 1, 3) \o <<PAD>>

(* ---- decode: strict ------------------------------------------------------------ *)
Dec4(alph, q, npad) ==     \* bytes of one quartet with npad trailing '='
  LET v1 == Val(alph, q[1]) v2 == Val(alph, q[2])
      v3 == IF npad >= 2 THEN 0 ELSE Val(alph, q[3])
      v4 == IF npad >= 1 THEN 0 ELSE Val(alph, q[4])
      b1 == v1 * 4 + (v2 \div 16)
      b2 == (v2 % 16) * 16 + (v3 \div 4)
      b3 == (v3 % 4) * 64 + v4 IN
  IF npad = 2 THEN <<b1>> ELSE IF npad = 1 THEN <<b1, b2>> ELSE <<b1, b2, b3>>
B64Valid(alph, t) ==
  /\ Len(t) % 4 = 0
  /\ \A i \in DOMAIN t :
        \/ InAlph(alph, t[i])
        \/ t[i] = PAD /\ (i = Len(t) \/ (i = Len(t) - 1 /\ t[Len(t)] = PAD))      \* padding only as the last one or two symbols
B64Dec(alph, t) ==
  IF ~B64Valid(alph, t) THEN [ok |-> FALSE, bytes |-> <<>>]
  ELSE LET nq == Len(t) \div 4
           npadOf(k) == IF k < nq THEN 0 ELSE (IF t[Len(t)] = PAD THEN (IF t[Len(t) - 1] = PAD THEN 2 ELSE 1) ELSE 0) IN
       [ok |-> TRUE, bytes |-> FoldLeft(LAMBDA acc, k : acc \o Dec4(alph, SubSeq(t, 4 * k - 3, 4 * k), npadOf(k)), <<>>, [k \in 1..nq |-> k])]

(* ---- rot13 ------------------------------------------------------------------------ *)
Rot13(s) == [i \in DOMAIN s |->
  LET c == s[i] IN IF (c >= 97 /\ c <= 109) \/ (c >= 65 /\ c <= 77) THEN c + 13
                   ELSE IF (c >= 110 /\ c <= 122) \/ (c >= 78 /\ c <= 90) THEN c - 13 ELSE c]

(* ---- independent unescapers -------------------------------------------------------- *)
HexVal(c) == IF c >= 48 /\ c <= 57 THEN c - 48 ELSE IF c >= 65 /\ c <= 70 THEN c - 55 ELSE IF c >= 97 /\ c <= 102 THEN c - 87 ELSE -1
(* %HH -> byte; fold state: out, pend (0 none, 1 after '%', 2 after first digit), hi *)
UnescapeUrl(t) ==
  LET step(a, c) ==
        IF a.pend = 1 THEN [a EXCEPT !.pend = 2, !.hi = HexVal(c), !.ok = a.ok /\ HexVal(c) >= 0]
        ELSE IF a.pend = 2 THEN [a EXCEPT !.pend = 0, !.out = Append(a.out, a.hi * 16 + HexVal(c)), !.ok = a.ok /\ HexVal(c) >= 0]
        ELSE IF c = 37 THEN [a EXCEPT !.pend = 1]
        ELSE [a EXCEPT !.out = Append(a.out, c)]
      r == FoldLeft(step, [out |-> <<>>, pend |-> 0, hi |-> 0, ok |-> TRUE], t) IN
  [ok |-> r.ok /\ r.pend = 0, bytes |-> r.out]
IsAlnum(c) == (c >= 48 /\ c <= 57) \/ (c >= 65 /\ c <= 90) \/ (c >= 97 /\ c <= 122)
UrlAllowed(c, escapeSlash) == IsAlnum(c) \/ c \in {45, 95, 46, 126, 61, 38, 37} \/ (~escapeSlash /\ c = 47)

(* C-style: \" \' \\ \t \r \n \f \b \a \v \xHH *)
Named(c) == CASE c = 34 -> 34 [] c = 39 -> 39 [] c = 92 -> 92 [] c = 116 -> 9 [] c = 114 -> 13 [] c = 110 -> 10
              [] c = 102 -> 12 [] c = 98 -> 8 [] c = 97 -> 7 [] c = 118 -> 11 [] OTHER -> -1
UnescapeC(t) ==
  LET step(a, c) ==
        IF a.pend = 1 THEN (IF c = 120 THEN [a EXCEPT !.pend = 2]
                            ELSE [a EXCEPT !.pend = 0, !.out = Append(a.out, Named(c)), !.ok = a.ok /\ Named(c) >= 0])
        ELSE IF a.pend = 2 THEN [a EXCEPT !.pend = 3, !.hi = HexVal(c), !.ok = a.ok /\ HexVal(c) >= 0]
        ELSE IF a.pend = 3 THEN [a EXCEPT !.pend = 0, !.out = Append(a.out, a.hi * 16 + HexVal(c)), !.ok = a.ok /\ HexVal(c) >= 0]
        ELSE IF c = 92 THEN [a EXCEPT !.pend = 1]
        ELSE [a EXCEPT !.out = Append(a.out, c)]
      r == FoldLeft(step, [out |-> <<>>, pend |-> 0, hi |-> 0, ok |-> TRUE], t) IN
  [ok |-> r.ok /\ r.pend = 0, bytes |-> r.out]
Printable(c) == c >= 32 /\ c <= 126
(* no raw (unescaped) double quote: every quote is directly preceded by a backslash *)
NoRawQuote(t) == \A i \in DOMAIN t : t[i] = 34 => (i > 1 /\ t[i - 1] = 92)

(* ---- netloc --------------------------------------------------------------------------- *)
RECURSIVE DecText(_)
DecText(n) == IF n < 10 THEN <<48 + n>> ELSE DecText(n \div 10) \o <<48 + (n % 10)>>
RenderNetloc(host, port) == IF port = 0 THEN host ELSE host \o <<58>> \o DecText(port)
=============================================================================
