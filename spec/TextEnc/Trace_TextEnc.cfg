SPECIFICATION Spec
INVARIANT Done
