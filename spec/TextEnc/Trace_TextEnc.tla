---------------------------- MODULE Trace_TextEnc ----------------------------
EXTENDS TextEnc, TLC, Json, IOUtils
Tr == ndJsonDeserialize(IOEnv.TRACE)
VARIABLE l
Bad(why) == PrintT("BAD " \o ToJson([l |-> l, why |-> why]))
Chk(cond, why) == IF cond THEN TRUE ELSE Bad(why)
ChkAll(S, P(_), why) == LET f == {i \in S : ~P(i)} IN IF f = {} THEN TRUE ELSE Bad(why \o " [failing indices " \o ToString(f) \o "]")
Init == l = 1
Alph(ev) == IF ev.alph = 1 THEN UrlSafe ELSE Std
Good(ev, i) ==
  LET in == ev.ins[i] out == ev.outs[i] IN
  CASE ev.fn = "enc" -> out = B64Enc(Alph(ev), in)
    [] ev.fn = "encdec" -> out = <<1, in>>                 \* base64_decode(base64_encode(x)) = x
    [] ev.fn = "dec" -> LET d == B64Dec(Alph(ev), in) IN
                        IF d.ok THEN out = <<1, d.bytes>> ELSE out[1] = 0        \* 0 = invalid_argument, 2 = anything else
    [] ev.fn = "rot13" -> out = Rot13(in)
    [] ev.fn = "esc_url" -> LET u == UnescapeUrl(out) IN
                            u.ok /\ u.bytes = in /\ \A k \in DOMAIN out : UrlAllowed(out[k], ev.flag = 1)
    [] ev.fn = "esc_controls" -> LET u == UnescapeC(out) IN
                            u.ok /\ u.bytes = in /\ \A k \in DOMAIN out : Printable(out[k]) \/ (ev.flag = 0 /\ out[k] >= 128)
    [] ev.fn = "esc_quotes" -> (\A k \in DOMAIN out : Printable(out[k])) /\ NoRawQuote(out)
    [] ev.fn = "netloc" -> out[1] = RenderNetloc(in[1], in[2]) /\ out[2] = in[1] /\ out[3] = in[2]
    [] OTHER -> FALSE
Step(ev) ==
  CASE ev.e = "Reset" -> TRUE
    [] ev.e = "b" -> LET G(i) == Good(ev, i) IN ChkAll(DOMAIN ev.ins, G, ev.fn \o ": differs from the definition")
    [] ev.e = "declong" ->    \* a valid encoding of ev.len symbols with '=' written at position ev.pos[i] (and, for the
                              \* two-symbol form, the position before): padding anywhere before the last group is invalid
         /\ Chk(ev.base_ok = 1, "a long valid encoding did not decode back to its source")
         /\ Chk(\A i \in DOMAIN ev.pos : ev.pos[i] < ev.len - 4 => ev.outs[i] = 1,
                "padding in a group that is not the last one was accepted (or something other than invalid_argument was thrown)")
    [] OTHER -> Bad("no specification action for event " \o ev.e)
Next == l <= Len(Tr) /\ l' = l + 1 /\ Step(Tr[l])
Spec == Init /\ [][Next]_l
Done == (l = Len(Tr) + 1) => PrintT("TRACE-DONE " \o ToString(Len(Tr)))
=============================================================================
