----------------------------- MODULE MC_TextEnc -----------------------------
EXTENDS TextEnc, TLC
CONSTANTS Bytes, Syms
VARIABLE s
Init == s \in UNION {[1..n -> Bytes] : n \in 0..3} \cup [1..4 -> Syms]
Next == UNCHANGED s
Spec == Init /\ [][Next]_s
IsBytes == \A i \in DOMAIN s : s[i] \in Bytes
RoundTrip == IsBytes => \A alph \in {Std, UrlSafe} :
               LET e == B64Enc(alph, s) d == B64Dec(alph, e) IN d.ok /\ d.bytes = s /\ Len(e) = 4 * ((Len(s) + 2) \div 3)
(* strictness: a 4-symbol text is accepted iff every symbol is in the alphabet or it ends in one or two pads after
   alphabet symbols *)
Strict == (Len(s) = 4 /\ \A i \in DOMAIN s : s[i] \in Syms) =>
            \A alph \in {Std, UrlSafe} :
              B64Dec(alph, s).ok <=> (/\ InAlph(alph, s[1]) /\ InAlph(alph, s[2])
                                      /\ (InAlph(alph, s[3]) \/ (s[3] = PAD /\ s[4] = PAD))
                                      /\ (InAlph(alph, s[4]) \/ s[4] = PAD))
Rot == Rot13(Rot13(s)) = s /\ \A i \in DOMAIN s : (Rot13(s)[i] # s[i]) => ((s[i] >= 65 /\ s[i] <= 90) \/ (s[i] >= 97 /\ s[i] <= 122))
Rfc == /\ B64Enc(Std, <<102, 111, 111, 98, 97, 114>>) = <<90, 109, 57, 118, 89, 109, 70, 121>>        \* "foobar" -> "Zm9vYmFy"
       /\ B64Enc(Std, <<102, 111>>) = <<90, 109, 56, 61>> /\ B64Enc(Std, <<102>>) = <<90, 103, 61, 61>> /\ B64Enc(Std, <<>>) = <<>>
       /\ B64Enc(Std, <<251, 255>>) = <<43, 47, 56, 61>> /\ B64Enc(UrlSafe, <<251, 255>>) = <<45, 95, 56, 61>>
Unesc == /\ UnescapeUrl(<<97, 37, 50, 48, 98>>).bytes = <<97, 32, 98>> /\ ~UnescapeUrl(<<37, 50>>).ok
         /\ UnescapeC(<<92, 120, 48, 65, 92, 110, 92, 92>>).bytes = <<10, 10, 92>> /\ ~UnescapeC(<<92>>).ok
=============================================================================
