----------------------------- MODULE ImageCodec -----------------------------
(***************************************************************************)
(* Reference decoders for the image container formats phosg::Image reads   *)
(* and writes (property C06): Netpbm P5 / P6 / P7, Windows BMP (BI_RGB     *)
(* 24/32-bit, BI_BITFIELDS with byte masks, bottom-up or top-down), and a  *)
(* structural validity predicate for PNG files (chunk framing, CRCs by the *)
(* CRC-32 of spec/lib/Hash, IHDR fields, scanline layout of the inflated   *)
(* stream).  An image is [w, h, alpha, cw, raw]: raw = storage bytes,      *)
(* (3 + alpha) samples of cw/8 bytes per pixel, row-major, top row first.  *)
(***************************************************************************)
EXTENDS Integers, Sequences, SequencesExt, FiniteSets, Hash

IsDigit(c) == c >= 48 /\ c <= 57
IsWs(c) == c \in {32, 9, 10, 13, 11, 12}
Bad == [ok |-> FALSE, w |-> 0, h |-> 0, alpha |-> FALSE, cw |-> 8, raw |-> <<>>]
U16(b, i) == b[i] + 256 * b[i + 1]
U32(b, i) == b[i] + 256 * b[i + 1] + 65536 * b[i + 2] + 16777216 * (b[i + 3] % 128)      \* small values only
S32(b, i) == IF b[i + 3] >= 128 THEN 0 - ((255 - b[i]) + 256 * (255 - b[i + 1]) + 65536 * (255 - b[i + 2]) + 1) ELSE U32(b, i)
U32BE(b, i) == b[i + 3] + 256 * b[i + 2] + 65536 * b[i + 1] + 16777216 * (b[i] % 128)
(* ---- Netpbm ------------------------------------------------------------------------------ *)
(* Decimal fields are kept as digit sequences: MAXVAL goes up to 2^64 - 1, beyond the checker's integers. *)
RECURSIVE SkipWs(_, _)
SkipWs(f, i) == IF i <= Len(f) /\ IsWs(f[i]) THEN SkipWs(f, i + 1) ELSE i
RECURSIVE DigitsEnd(_, _)
DigitsEnd(f, i) == IF i <= Len(f) /\ IsDigit(f[i]) THEN DigitsEnd(f, i + 1) ELSE i
RECURSIVE StripZ(_)
StripZ(d) == IF Len(d) > 1 /\ d[1] = 48 THEN StripZ(Tail(d)) ELSE d
Num(f, i) == LET j == SkipWs(f, i) e == DigitsEnd(f, j) IN [ok |-> e > j, d |-> StripZ(SubSeq(f, j, e - 1)), next |-> e]
Small(d) == IF d = <<>> \/ Len(d) > 6 THEN -1 ELSE FoldLeft(LAMBDA acc, c : acc * 10 + (c - 48), 0, d)     \* dimensions: small integers only
DLe(d, bound) == \/ Len(d) < Len(bound)
                 \/ Len(d) = Len(bound) /\ (d = bound \/ \E k \in DOMAIN d : d[k] < bound[k] /\ SubSeq(d, 1, k - 1) = SubSeq(bound, 1, k - 1))
CwFor(d) ==      \* channel width selected by MAXVAL; 0 = not a usable value
  IF d = <<>> \/ d = <<48>> THEN 0
  ELSE IF DLe(d, <<50, 53, 53>>) THEN 8
  ELSE IF DLe(d, <<54, 53, 53, 51, 53>>) THEN 16
  ELSE IF DLe(d, <<52, 50, 57, 52, 57, 54, 55, 50, 57, 53>>) THEN 32
  ELSE IF DLe(d, <<49, 56, 52, 52, 54, 55, 52, 52, 48, 55, 51, 55, 48, 57, 53, 53, 49, 54, 49, 53>>) THEN 64 ELSE 0
(* expand gray samples to colour: every sample's bytes are replicated into r, g, b (alpha kept) *)
ExpandGray(payload, npix, bps, alpha) ==
  LET stride == (IF alpha THEN 2 ELSE 1) * bps
      s(k, c) == SubSeq(payload, (k - 1) * stride + c * bps + 1, (k - 1) * stride + (c + 1) * bps) IN
  FoldLeft(LAMBDA acc, k : acc \o s(k, 0) \o s(k, 0) \o s(k, 0) \o (IF alpha THEN s(k, 1) ELSE <<>>), <<>>, [k \in 1..npix |-> k])
Finish(f, start, wd, hd, maxd, gray, alpha) ==
  LET cw == CwFor(maxd)
      w == Small(wd)
      h == Small(hd)
      bps == cw \div 8
      chans == (IF gray THEN 1 ELSE 3) + (IF alpha THEN 1 ELSE 0)
      need == w * h * chans * bps IN
  IF w <= 0 \/ h <= 0 \/ cw = 0 \/ w * h > 1000000 \/ Len(f) < start - 1 + need THEN Bad
  ELSE LET payload == SubSeq(f, start, start - 1 + need) IN
       [ok |-> TRUE, w |-> w, h |-> h, alpha |-> alpha, cw |-> cw, raw |-> IF gray THEN ExpandGray(payload, w * h, bps, alpha) ELSE payload]
Lines7(f, i) ==       \* header lines of a P7 file from offset i: sequence of lines up to ENDHDR, and the payload start
  LET nl == SelectSeq([k \in 1..(Len(f) - i + 1) |-> k + i - 1], LAMBDA k : f[k] = 10) IN
  [k \in 1..Len(nl) |-> SubSeq(f, IF k = 1 THEN i ELSE nl[k - 1] + 1, nl[k] - 1)]
StartsW(s, p) == Len(s) >= Len(p) /\ SubSeq(s, 1, Len(p)) = p
RECURSIVE RStrip(_)
RStrip(s) == IF s # <<>> /\ s[Len(s)] \in {32, 9, 13, 10} THEN RStrip(SubSeq(s, 1, Len(s) - 1)) ELSE s
DecPNM(f) ==
  IF Len(f) < 3 \/ f[1] # 80 THEN Bad
  ELSE IF f[2] \in {53, 54}
    THEN LET a == Num(f, 3) b == Num(f, a.next) c == Num(f, b.next) IN
         IF ~a.ok \/ ~b.ok \/ ~c.ok \/ c.next > Len(f) \/ f[c.next] \notin {32, 9, 10} THEN Bad
         ELSE Finish(f, c.next + 1, a.d, b.d, c.d, f[2] = 53, FALSE)
  ELSE IF f[2] = 55 /\ f[3] = 10
    THEN LET ls == Lines7(f, 4)
             endS == {k \in DOMAIN ls : RStrip(ls[k]) = <<69, 78, 68, 72, 68, 82>>}
             e == IF endS = {} THEN 0 ELSE CHOOSE k \in endS : \A j \in endS : k <= j
             val(prefix) == LET S == {k \in 1..(e - 1) : StartsW(ls[k], prefix)} IN
                            IF S = {} THEN <<>> ELSE Num(RStrip(ls[CHOOSE k \in S : \A j \in S : k >= j]), Len(prefix) + 1).d
             tt == LET S == {k \in 1..(e - 1) : StartsW(ls[k], <<84, 85, 80, 76, 84, 89, 80, 69, 32>>)} IN
                   IF S = {} THEN <<>> ELSE LET x == RStrip(ls[CHOOSE k \in S : \A j \in S : k >= j]) IN SubSeq(x, 10, Len(x))
             hdrLen == FoldLeft(LAMBDA acc, k : acc + Len(ls[k]) + 1, 0, [k \in 1..e |-> k])
             gray == tt \in {<<71, 82, 65, 89, 83, 67, 65, 76, 69>>, <<71, 82, 65, 89, 83, 67, 65, 76, 69, 95, 65, 76, 80, 72, 65>>}
             alpha == tt \in {<<82, 71, 66, 95, 65, 76, 80, 72, 65>>, <<71, 82, 65, 89, 83, 67, 65, 76, 69, 95, 65, 76, 80, 72, 65>>}
             known == gray \/ alpha \/ tt = <<82, 71, 66>> IN
         IF e = 0 \/ ~known THEN Bad
         ELSE Finish(f, 4 + hdrLen, val(<<87, 73, 68, 84, 72, 32>>), val(<<72, 69, 73, 71, 72, 84, 32>>), val(<<77, 65, 88, 86, 65, 76, 32>>), gray, alpha)
  ELSE Bad

(* ---- BMP ----------------------------------------------------------------------------------- *)
MaskOffset(b, i) ==      \* byte position selected by a 32-bit little-endian channel mask, or -1
  LET m == SubSeq(b, i, i + 3) IN
  CASE m = <<255, 0, 0, 0>> -> 0 [] m = <<0, 255, 0, 0>> -> 1 [] m = <<0, 0, 255, 0>> -> 2 [] m = <<0, 0, 0, 255>> -> 3 [] OTHER -> -1
DecBMP(f) ==
  IF Len(f) < 18 \/ f[1] # 66 \/ f[2] # 77 THEN Bad
  ELSE LET off == U32(f, 11)
           hs == U32(f, 15) IN
    IF hs > 124 \/ hs < 40 \/ Len(f) < 14 + hs THEN Bad
    ELSE LET w == S32(f, 19) hh == S32(f, 23) planes == U16(f, 27) depth == U16(f, 29) comp == U32(f, 31)
             topdown == hh < 0
             h == IF topdown THEN 0 - hh ELSE hh
             pb == depth \div 8
             rowlen == w * pb
             pad == (4 - (rowlen % 4)) % 4
             rowStart(yf) == off + yf * (rowlen + pad) + 1                \* yf-th row in file order (0-based)
             fileRow(y) == IF topdown THEN y ELSE h - 1 - y               \* image row y (0 = top) -> row index in the file
             needed == off + (h - 1) * (rowlen + pad) + rowlen             \* the padding after the last row is never read
             ro == IF hs >= 56 THEN MaskOffset(f, 55) ELSE -1
             go == IF hs >= 56 THEN MaskOffset(f, 59) ELSE -1
             bo == IF hs >= 56 THEN MaskOffset(f, 63) ELSE -1
             ao == IF hs >= 56 THEN MaskOffset(f, 67) ELSE -1 IN
      IF planes # 1 \/ depth \notin {24, 32} \/ w <= 0 \/ h <= 0 \/ Len(f) < needed THEN Bad
      ELSE IF comp = 0
        THEN [ok |-> TRUE, w |-> w, h |-> h, alpha |-> FALSE, cw |-> 8,
              raw |-> FoldLeft(LAMBDA acc, y : acc \o FoldLeft(LAMBDA row, x : LET p == rowStart(fileRow(y)) + x * pb IN row \o <<f[p + 2], f[p + 1], f[p]>>,
                                                                <<>>, [x \in 1..w |-> x - 1]),
                               <<>>, [y \in 1..h |-> y - 1])]
      ELSE IF comp = 3 /\ depth = 32 /\ ro >= 0 /\ go >= 0 /\ bo >= 0 /\ ao >= 0
        THEN [ok |-> TRUE, w |-> w, h |-> h, alpha |-> TRUE, cw |-> 8,
              raw |-> FoldLeft(LAMBDA acc, y : acc \o FoldLeft(LAMBDA row, x : LET p == rowStart(fileRow(y)) + x * 4 IN
                                                                                row \o <<f[p + ro], f[p + go], f[p + bo], f[p + ao]>>,
                                                                <<>>, [x \in 1..w |-> x - 1]),
                               <<>>, [y \in 1..h |-> y - 1])]
      ELSE Bad

(* ---- PNG --------------------------------------------------------------------------------------- *)
PngSig == <<137, 80, 78, 71, 13, 10, 26, 10>>
RECURSIVE Chunks(_, _)
Chunks(f, i) ==      \* sequence of [type, data, crc] from offset i; ok = FALSE on broken framing
  IF i > Len(f) THEN [ok |-> TRUE, cs |-> <<>>]
  ELSE IF i + 11 > Len(f) THEN [ok |-> FALSE, cs |-> <<>>]
  ELSE LET n == U32BE(f, i) IN
       IF i + 11 + n > Len(f) THEN [ok |-> FALSE, cs |-> <<>>]
       ELSE LET rest == Chunks(f, i + 12 + n) IN
            [ok |-> rest.ok, cs |-> <<[type |-> SubSeq(f, i + 4, i + 7), data |-> SubSeq(f, i + 8, i + 7 + n), crc |-> SubSeq(f, i + 8 + n, i + 11 + n)]>> \o rest.cs]
(* Scanline reconstruction (PNG specification, section 9: filter types 0 None, 1 Sub, 2 Up, 3 Average, 4 Paeth). *)
AbsI(x) == IF x < 0 THEN 0 - x ELSE x
Paeth(a, b, c) == LET p == a + b - c pa == AbsI(p - a) pb == AbsI(p - b) pc == AbsI(p - c) IN
                  IF pa <= pb /\ pa <= pc THEN a ELSE IF pb <= pc THEN b ELSE c
UnfilterRow(ft, row, prior, bpp) ==      \* row, prior: sequences of rowlen bytes; result: reconstructed row
  FoldLeft(LAMBDA acc, i :
             LET a == IF i > bpp THEN acc[i - bpp] ELSE 0
                 b == prior[i]
                 c == IF i > bpp THEN prior[i - bpp] ELSE 0
                 pred == CASE ft = 0 -> 0 [] ft = 1 -> a [] ft = 2 -> b [] ft = 3 -> (a + b) \div 2 [] OTHER -> Paeth(a, b, c) IN
             Append(acc, (row[i] + pred) % 256),
           <<>>, [i \in 1..Len(row) |-> i])
Unfilter(inflated, rowlen, h, bpp) ==
  LET step(acc, y) == LET base == y * (rowlen + 1)
                          rec == UnfilterRow(inflated[base + 1], SubSeq(inflated, base + 2, base + 1 + rowlen), acc.prior, bpp) IN
                      [out |-> acc.out \o rec, prior |-> rec] IN
  FoldLeft(step, [out |-> <<>>, prior |-> [i \in 1..rowlen |-> 0]], [y \in 1..h |-> y - 1]).out
PNGOk(f, inflated, img) ==
  /\ Len(f) >= 8 /\ SubSeq(f, 1, 8) = PngSig
  /\ LET c == Chunks(f, 9) IN
     /\ c.ok /\ Len(c.cs) >= 3
     /\ \A k \in DOMAIN c.cs : c.cs[k].crc = BytesBE(CRC32(c.cs[k].type \o c.cs[k].data, <<0, 0>>))
     /\ c.cs[1].type = <<73, 72, 68, 82>> /\ Len(c.cs[1].data) = 13
     /\ U32BE(c.cs[1].data, 1) = img.w /\ U32BE(c.cs[1].data, 5) = img.h
     /\ SubSeq(c.cs[1].data, 9, 13) = <<8, IF img.alpha THEN 6 ELSE 2, 0, 0, 0>>
     /\ c.cs[Len(c.cs)].type = <<73, 69, 78, 68>> /\ c.cs[Len(c.cs)].data = <<>>
     /\ LET idat == {k \in DOMAIN c.cs : c.cs[k].type = <<73, 68, 65, 84>>} IN
        idat # {} /\ \A a, b \in idat : \A k \in a..b : k \in idat                    \* IDAT chunks are consecutive
     /\ \A k \in DOMAIN c.cs : k > 1 /\ k < Len(c.cs) => c.cs[k].type # <<73, 72, 68, 82>> /\ c.cs[k].type # <<73, 69, 78, 68>>
  /\ LET bpp == IF img.alpha THEN 4 ELSE 3
         rowlen == img.w * bpp IN
     /\ Len(inflated) = img.h * (rowlen + 1)
     /\ \A y \in 0..(img.h - 1) : inflated[y * (rowlen + 1) + 1] \in 0..4
     /\ Unfilter(inflated, rowlen, img.h, bpp) = img.raw
SameImage(a, b) == a.w = b.w /\ a.h = b.h /\ a.alpha = b.alpha /\ a.cw = b.cw /\ a.raw = b.raw
=============================================================================
