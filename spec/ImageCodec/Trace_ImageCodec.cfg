SPECIFICATION Spec
INVARIANT Done
