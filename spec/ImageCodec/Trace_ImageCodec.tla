-------------------------- MODULE Trace_ImageCodec --------------------------
EXTENDS ImageCodec, TLC, Json, IOUtils
Tr == ndJsonDeserialize(IOEnv.TRACE)
VARIABLE l
Bad2(why) == PrintT("BAD " \o ToJson([l |-> l, why |-> why]))
Chk(cond, why) == IF cond THEN TRUE ELSE Bad2(why)
Init == l = 1
Dec(f) == IF Len(f) >= 2 /\ f[1] = 66 /\ f[2] = 77 THEN DecBMP(f) ELSE DecPNM(f)
Step(ev) ==
  CASE ev.e = "Reset" -> TRUE
    [] ev.e = "save" ->
         /\ Chk(ev.out = "ok", "save threw")
         /\ IF ev.out # "ok" THEN TRUE
            ELSE IF ev.fmt = "png" THEN Chk(PNGOk(ev.file, ev.inflated, ev.img), "PNG output is not a valid file for the image (signature, chunk framing, CRCs, IHDR, scanlines)")
            ELSE LET d == Dec(ev.file) IN
                 /\ Chk(d.ok /\ SameImage(d, ev.img), "saved " \o ev.fmt \o " file does not decode (reference decoder) to the image's pixels")
                 /\ Chk(ev.fmt # "bmp" \/ (U32(ev.file, 3) = Len(ev.file) /\ U32(ev.file, 11) >= 14 + U32(ev.file, 15)), "BMP header: file size field / data offset before the end of the headers")
    [] ev.e = "load" ->
         LET d == Dec(ev.file) IN
         /\ Chk(~d.ok \/ (ev.out = "ok" /\ SameImage(d, ev.img)), "loading a valid " \o ev.variant \o " file does not yield the pixels the format defines")
         /\ Chk(ev.own = 0 \/ (ev.out = "ok" /\ SameImage(ev.img, ev.orig)), "load(save(image)) does not reproduce the image")
    [] ev.e = "prefixes" ->
         /\ Chk(\A i \in DOMAIN ev.cuts : ev.outs[i] = 1 \/ ev.same[i] = 1, "a truncated file was accepted with different pixels")
         /\ Chk(\A i \in DOMAIN ev.cuts : ev.cuts[i] = ev.n => (ev.outs[i] = 0 /\ ev.same[i] = 1), "the complete file must load")
         /\ Chk(\A i \in DOMAIN ev.cuts : ev.leaks[i] = 0, "loading a (truncated) file by name left a descriptor open")
         /\ Chk(\A i \in DOMAIN ev.cuts : ev.agree[i] = 1, "loading by name and loading from a stream disagree")
    [] OTHER -> Bad2("no specification action for event " \o ev.e)
Next == l <= Len(Tr) /\ l' = l + 1 /\ Step(Tr[l])
Spec == Init /\ [][Next]_l
Done == (l = Len(Tr) + 1) => PrintT("TRACE-DONE " \o ToString(Len(Tr)))
=============================================================================
