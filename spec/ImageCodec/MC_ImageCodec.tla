---------------------------- MODULE MC_ImageCodec ----------------------------
(* Reference encoders written here from the format definitions; the reference decoders invert them for every small image,
   every proper prefix of an encoded file is rejected by the reference decoder (or decodes identically). *)
EXTENDS ImageCodec, TLC
CONSTANTS MaxW, MaxH, Samples
VARIABLES w, h, alpha, seed
Init == w \in 1..MaxW /\ h \in 1..MaxH /\ alpha \in BOOLEAN /\ seed \in 0..2
Next == UNCHANGED <<w, h, alpha, seed>>
Spec == Init /\ [][Next]_<<w, h, alpha, seed>>
SamplesDef == <<0, 1, 255, 128>>
NCh == IF alpha THEN 4 ELSE 3
Img == [ok |-> TRUE, w |-> w, h |-> h, alpha |-> alpha, cw |-> 8, raw |-> [i \in 1..(w * h * NCh) |-> Samples[((i * 7 + seed * 3 + (i \div 5)) % Len(Samples)) + 1]]]
RECURSIVE DecStr(_)
DecStr(n) == IF n < 10 THEN <<48 + n>> ELSE DecStr(n \div 10) \o <<48 + (n % 10)>>
EncP6 == <<80, 54, 32>> \o DecStr(w) \o <<32>> \o DecStr(h) \o <<32, 50, 53, 53, 10>> \o Img.raw
LE32(n) == <<n % 256, (n \div 256) % 256, (n \div 65536) % 256, 0>>
EncBMP24(topdown) ==
  LET pad == (4 - ((w * 3) % 4)) % 4
      hv == IF topdown THEN LE32(256 - h) ELSE LE32(h)
      hbytes == IF topdown THEN <<256 - h, 255, 255, 255>> ELSE LE32(h)
      row(y) == FoldLeft(LAMBDA acc, x : LET p == (y * w + x) * 3 IN acc \o <<Img.raw[p + 3], Img.raw[p + 2], Img.raw[p + 1]>>, <<>>, [x \in 1..w |-> x - 1])
                  \o [k \in 1..pad |-> 0]
      rows == FoldLeft(LAMBDA acc, k : acc \o row(IF topdown THEN k ELSE h - 1 - k), <<>>, [k \in 1..h |-> k - 1])
      hdr == <<66, 77>> \o LE32(54 + Len(rows)) \o <<0, 0, 0, 0>> \o LE32(54) \o LE32(40) \o LE32(w) \o hbytes \o <<1, 0, 24, 0>> \o LE32(0) \o LE32(0)
               \o LE32(2834) \o LE32(2834) \o LE32(0) \o LE32(0) IN
  hdr \o rows
(* PNG filtering written from the definition (section 9.2: Filt(x) = Orig(x) - predictor, mod 256), one filter type per row
   chosen by (row + ft0) mod 5; reconstruction must invert it for every small image. *)
FilterRow(ft, row, prior, bpp) ==
  [i \in 1..Len(row) |->
     LET a == IF i > bpp THEN row[i - bpp] ELSE 0
         b == prior[i]
         c == IF i > bpp THEN prior[i - bpp] ELSE 0
         pred == CASE ft = 0 -> 0 [] ft = 1 -> a [] ft = 2 -> b [] ft = 3 -> (a + b) \div 2 [] OTHER -> Paeth(a, b, c) IN
     (row[i] - pred + 256) % 256]
Filtered(ft0) ==
  LET rowlen == w * NCh
      rowOf(y) == SubSeq(Img.raw, y * rowlen + 1, (y + 1) * rowlen) IN
  FoldLeft(LAMBDA acc, y : acc \o <<(y + ft0) % 5>> \o FilterRow((y + ft0) % 5, rowOf(y), IF y = 0 THEN [i \in 1..rowlen |-> 0] ELSE rowOf(y - 1), NCh),
           <<>>, [y \in 1..h |-> y - 1])
PngFilterLaw == \A ft0 \in 0..4 : Unfilter(Filtered(ft0), w * NCh, h, NCh) = Img.raw
P6Law == alpha \/ (SameImage(DecPNM(EncP6), Img) /\ \A k \in 0..(Len(EncP6) - 1) : ~DecPNM(SubSeq(EncP6, 1, k)).ok)
BmpLaw == alpha \/ \A td \in BOOLEAN :
            LET f == EncBMP24(td) pad == (4 - ((w * 3) % 4)) % 4 IN
            /\ SameImage(DecBMP(f), Img)
            /\ \A k \in 0..(Len(f) - 1) : LET d == DecBMP(SubSeq(f, 1, k)) IN ~d.ok \/ (k >= Len(f) - pad /\ SameImage(d, Img))
=============================================================================
