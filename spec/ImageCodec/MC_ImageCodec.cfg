SPECIFICATION Spec
CONSTANTS MaxW = 3  MaxH = 2
CONSTANT Samples <- SamplesDef
INVARIANTS P6Law BmpLaw PngFilterLaw
