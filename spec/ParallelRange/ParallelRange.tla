--------------------------- MODULE ParallelRange ---------------------------
(***************************************************************************)
(* phosg parallel_range / parallel_range_blocks / parallel_range_blocks_   *)
(* multi (src/Tools.hh), property C16.                                     *)
(*                                                                         *)
(* One action per atomic operation on the two shared atomics (cur = the    *)
(* claim cursor, res = the result) and one per callback invocation, so TLC *)
(* explores every interleaving a sequentially consistent execution can     *)
(* show.  Algo = "cas" is the algorithm in the tree (claim by load +        *)
(* compare_exchange); Algo = "fadd" is the former fetch_add algorithm,     *)
(* kept as a regression model: with Modulus close to End it re-issues the  *)
(* range (MC_ParallelRange_legacy.cfg must FAIL).                          *)
(***************************************************************************)
EXTENDS Integers, Sequences, FiniteSets

CONSTANTS Algo, Modulus

VARIABLES cfg,   \* the call's arguments [s, e, blk, ts, n, multi]: start, end, block size, values for which
                 \* fn is true, number of threads, _multi variant
          cur, res, pc, v, z, calls, sets, mainpc, ret
vars == <<cfg, cur, res, pc, v, z, calls, sets, mainpc, ret>>
Start == cfg.s
End == cfg.e
Blk == cfg.blk
TrueSet == cfg.ts
N == cfg.n
Multi == cfg.multi

T == 0..(N - 1)
Range == Start..(End - 1)
Hit(x) == ~Multi /\ x \in TrueSet       \* what the engine sees as the callback's result

InitFor(c) ==
  /\ cfg = c
  /\ cur = c.s /\ res = c.e
  /\ pc = [t \in 0..(c.n - 1) |-> IF Algo = "cas" THEN "load" ELSE "fadd"]
  /\ v = [t \in 0..(c.n - 1) |-> 0] /\ z = [t \in 0..(c.n - 1) |-> 0]
  /\ calls = <<>> /\ sets = [t \in 0..(c.n - 1) |-> {}]
  /\ mainpc = "join" /\ ret = -1

(* ---- Algo = "cas" ------------------------------------------------------ *)
Load(t) ==            \* v = current_value.load()
  /\ pc[t] = "load"
  /\ v' = [v EXCEPT ![t] = cur]
  /\ pc' = [pc EXCEPT ![t] = IF cur < End THEN "cas" ELSE "done"]
  /\ UNCHANGED <<cfg, cur, res, z, calls, sets, mainpc, ret>>

Cas(t) ==             \* current_value.compare_exchange_weak(v, v + Blk)
  /\ pc[t] = "cas"
  /\ IF cur = v[t]
       THEN /\ cur' = v[t] + Blk
            /\ z' = [z EXCEPT ![t] = v[t]]
            /\ pc' = [pc EXCEPT ![t] = "call"]
            /\ v' = v
       ELSE /\ v' = [v EXCEPT ![t] = cur]          \* failure reloads the expected value
            /\ pc' = [pc EXCEPT ![t] = IF cur < End THEN "cas" ELSE "done"]
            /\ UNCHANGED <<cur, z>>
  /\ UNCHANGED <<cfg, res, calls, sets, mainpc, ret>>

(* ---- Algo = "fadd" (former algorithm) ---------------------------------- *)
Fadd(t) ==            \* v = current_value.fetch_add(Blk), modulo the width of IntT
  /\ pc[t] = "fadd"
  /\ v' = [v EXCEPT ![t] = cur]
  /\ cur' = (cur + Blk) % Modulus
  /\ z' = [z EXCEPT ![t] = cur]
  /\ pc' = [pc EXCEPT ![t] = IF cur < End THEN "call" ELSE "done"]
  /\ UNCHANGED <<cfg, res, calls, sets, mainpc, ret>>

(* ---- common ------------------------------------------------------------ *)
NextClaim == IF Algo = "cas" THEN "load" ELSE "fadd"

Call(t) ==            \* fn(z, t)
  /\ pc[t] = "call"
  /\ calls' = Append(calls, <<z[t], t>>)
  /\ sets' = [sets EXCEPT ![t] = IF Multi /\ z[t] \in TrueSet THEN @ \cup {z[t]} ELSE @]
  /\ IF Hit(z[t])
       THEN pc' = [pc EXCEPT ![t] = "sres"] /\ z' = z
       ELSE IF z[t] + 1 < v[t] + Blk
              THEN z' = [z EXCEPT ![t] = @ + 1] /\ pc' = pc       \* next value of the block
              ELSE z' = z /\ pc' = [pc EXCEPT ![t] = NextClaim]
  /\ UNCHANGED <<cfg, cur, res, v, mainpc, ret>>

StoreRes(t) ==        \* result_value = z
  /\ pc[t] = "sres" /\ res' = z[t] /\ pc' = [pc EXCEPT ![t] = "scur"]
  /\ UNCHANGED <<cfg, cur, v, z, calls, sets, mainpc, ret>>

StoreCur(t) ==        \* current_value = end_value
  /\ pc[t] = "scur" /\ cur' = End /\ pc' = [pc EXCEPT ![t] = NextClaim]
  /\ UNCHANGED <<cfg, res, v, z, calls, sets, mainpc, ret>>

Worker(t) == Load(t) \/ Cas(t) \/ Fadd(t) \/ Call(t) \/ StoreRes(t) \/ StoreCur(t)

Join ==               \* main: all workers joined, then the result is read
  /\ mainpc = "join" /\ \A t \in T : pc[t] = "done"
  /\ mainpc' = "done"
  /\ ret' = res
  /\ UNCHANGED <<cfg, cur, res, pc, v, z, calls, sets>>

Next == (\E t \in T : Worker(t)) \/ Join

(* ---- the property ------------------------------------------------------- *)
Called == {calls[i][1] : i \in DOMAIN calls}
AtMostOnce == \A i, j \in DOMAIN calls : i # j => calls[i][1] # calls[j][1]
InRange == \A i \in DOMAIN calls : calls[i][1] \in Range /\ calls[i][2] \in T
MultiRet == UNION {sets[t] : t \in T}
Post == mainpc = "done" =>
          /\ \A t \in T : pc[t] = "done"                                 \* joined before return
          /\ IF Multi THEN /\ Called = Range
                           /\ MultiRet = TrueSet \cap Range
                           /\ ret = End
             ELSE IF TrueSet \cap Called = {}
                    THEN Called = Range /\ ret = End                      \* no hit: every value, result = end
                    ELSE ret \in TrueSet \cap Called                      \* a hit is reported, and it is a true one
NoHitMeansAll == (mainpc = "done" /\ TrueSet \cap Range = {}) => Called = Range
CursorBounded == Algo = "cas" => cur <= End
Termination == <>(mainpc = "done")
=============================================================================
