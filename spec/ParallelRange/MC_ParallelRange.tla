-------------------------- MODULE MC_ParallelRange --------------------------
(* One TLC run covers every TrueSet and several (start, length, block size)
   choices: the call's arguments are picked in the initial state. *)
EXTENDS ParallelRange, TLC
CONSTANTS MaxLen, Blks, Starts, NThreads, IsMulti
Cfgs == {[s |-> s, e |-> s + len, blk |-> b, ts |-> {s + x : x \in xs}, n |-> NThreads, multi |-> IsMulti] :
            s \in Starts, len \in 0..MaxLen, b \in Blks, xs \in SUBSET (0..(MaxLen - 1))}
GoodCfgs == {c \in Cfgs : (c.e - c.s) % c.blk = 0 /\ \A x \in c.ts : x < c.e}
Init == \E c \in GoodCfgs : InitFor(c)
Spec == Init /\ [][Next]_vars
FairSpec == Spec /\ (\A t \in 0..(NThreads - 1) : WF_vars(Worker(t))) /\ WF_vars(Join)
=============================================================================
