------------------------------- MODULE PRInd -------------------------------
(***************************************************************************)
(* Inductive-invariant form of the claim protocol of parallel_range         *)
(* (Algo = "cas", block size 1, spec/ParallelRange/ParallelRange.tla) for   *)
(* Apalache: a FIXED number of workers but an ARBITRARY range Start..End    *)
(* (unbounded integers) and behaviours of any length.                       *)
(*                                                                         *)
(* Instead of the history of all calls the module follows one arbitrary     *)
(* value G of the integers (a constant chosen by ConstInit) and counts how  *)
(* often the callback was invoked on it: since G is arbitrary, cnt <= 1 is  *)
(* "no value is visited twice", and the other conjuncts give "every visited *)
(* value lies in the range" and "the cursor never passes End".              *)
(***************************************************************************)
EXTENDS Integers

CONSTANTS
  \* @type: Int;
  Start,
  \* @type: Int;
  End,
  \* @type: Int;
  G

T == 1..3         \* three workers

VARIABLES
  \* @type: Int;
  cur,
  \* @type: Int -> Str;
  pc,
  \* @type: Int -> Int;
  v,
  \* @type: Int -> Int;
  z,
  \* @type: Int;
  cnt,            \* number of callback invocations on G so far
  \* @type: Bool;
  outside         \* some callback invocation was on a value outside Start..End-1

ConstInit == Start \in Int /\ End \in Int /\ G \in Int /\ Start <= End

Init ==
  /\ cur = Start
  /\ pc = [t \in T |-> "load"]
  /\ v = [t \in T |-> 0]
  /\ z = [t \in T |-> 0]
  /\ cnt = 0 /\ outside = FALSE

Load(t) ==
  /\ pc[t] = "load"
  /\ v' = [v EXCEPT ![t] = cur]
  /\ pc' = [pc EXCEPT ![t] = IF cur < End THEN "cas" ELSE "done"]
  /\ UNCHANGED <<cur, z, cnt, outside>>

Cas(t) ==
  /\ pc[t] = "cas"
  /\ IF cur = v[t]
       THEN /\ cur' = v[t] + 1
            /\ z' = [z EXCEPT ![t] = v[t]]
            /\ pc' = [pc EXCEPT ![t] = "call"]
            /\ v' = v
       ELSE /\ v' = [v EXCEPT ![t] = cur]
            /\ pc' = [pc EXCEPT ![t] = IF cur < End THEN "cas" ELSE "done"]
            /\ UNCHANGED <<cur, z>>
  /\ UNCHANGED <<cnt, outside>>

Call(t) ==
  /\ pc[t] = "call"
  /\ cnt' = IF z[t] = G THEN cnt + 1 ELSE cnt
  /\ outside' = (outside \/ z[t] < Start \/ z[t] >= End)
  /\ \E hit \in BOOLEAN :          \* the callback's verdict: any (each value is asked at most once anyway)
       pc' = [pc EXCEPT ![t] = IF hit THEN "scur" ELSE "load"]
  /\ UNCHANGED <<cur, v, z>>

StoreCur(t) ==        \* a hit: current_value = end_value (the store to the result cell does not touch these variables)
  /\ pc[t] = "scur" /\ cur' = End /\ pc' = [pc EXCEPT ![t] = "load"]
  /\ UNCHANGED <<v, z, cnt, outside>>

Next == \E t \in T : Load(t) \/ Cas(t) \/ Call(t) \/ StoreCur(t)

(* ---- the properties ------------------------------------------------------ *)
AtMostOnce == cnt <= 1
InRange == ~outside
CursorBounded == cur <= End
Safety == AtMostOnce /\ InRange /\ CursorBounded

(* ---- the inductive invariant ------------------------------------------------ *)
TypeOK ==
  /\ cur \in Int /\ cnt \in Int /\ outside \in BOOLEAN
  /\ pc \in [T -> {"load", "cas", "call", "scur", "done"}]
  /\ v \in [T -> Int] /\ z \in [T -> Int]
Claims(t) == pc[t] = "call" /\ z[t] = G           \* worker t holds G and has not called it yet
IndInv ==
  /\ TypeOK
  /\ Start <= cur /\ cur <= End
  /\ cnt >= 0 /\ cnt <= 1 /\ ~outside
  /\ \A t \in T : pc[t] = "cas" => (v[t] <= cur /\ v[t] < End /\ Start <= v[t])
  /\ \A t \in T : pc[t] = "call" => (Start <= z[t] /\ z[t] < cur)
  /\ \A t \in T : Claims(t) => cnt = 0                                  \* claimed and already called exclude each other
  /\ \A t, u \in T : (Claims(t) /\ Claims(u)) => t = u                    \* at most one claimant
  /\ (cnt = 1) => G < cur                                                \* a called value lies below the cursor
=============================================================================
