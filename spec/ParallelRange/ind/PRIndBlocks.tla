---------------------------- MODULE PRIndBlocks ----------------------------
(***************************************************************************)
(* Inductive-invariant form of parallel_range_blocks (claim by CAS of a     *)
(* whole block, then the values of the block one by one, early exit on a    *)
(* hit) for Apalache: fixed number of workers and fixed block size (the     *)
(* check script instantiates BLK and the worker count), ARBITRARY range     *)
(* Start..End whose length BLK divides, behaviours of any length.           *)
(* G is an arbitrary integer; cnt counts the callback invocations on it.    *)
(***************************************************************************)
EXTENDS Integers

CONSTANTS
  \* @type: Int;
  Start,
  \* @type: Int;
  End,
  \* @type: Int;
  G

BLK == 2
T == 1..3

VARIABLES
  \* @type: Int;
  cur,
  \* @type: Int -> Str;
  pc,
  \* @type: Int -> Int;
  v,
  \* @type: Int -> Int;
  z,
  \* @type: Int;
  cnt,
  \* @type: Bool;
  outside

ConstInit == Start \in Int /\ End \in Int /\ G \in Int /\ Start <= End /\ (End - Start) % BLK = 0

Init ==
  /\ cur = Start
  /\ pc = [t \in T |-> "load"]
  /\ v = [t \in T |-> 0]
  /\ z = [t \in T |-> 0]
  /\ cnt = 0 /\ outside = FALSE

Load(t) ==
  /\ pc[t] = "load"
  /\ v' = [v EXCEPT ![t] = cur]
  /\ pc' = [pc EXCEPT ![t] = IF cur < End THEN "cas" ELSE "done"]
  /\ UNCHANGED <<cur, z, cnt, outside>>

Cas(t) ==
  /\ pc[t] = "cas"
  /\ IF cur = v[t]
       THEN /\ cur' = v[t] + BLK
            /\ z' = [z EXCEPT ![t] = v[t]]
            /\ pc' = [pc EXCEPT ![t] = "call"]
            /\ v' = v
       ELSE /\ v' = [v EXCEPT ![t] = cur]
            /\ pc' = [pc EXCEPT ![t] = IF cur < End THEN "cas" ELSE "done"]
            /\ UNCHANGED <<cur, z>>
  /\ UNCHANGED <<cnt, outside>>

Call(t) ==
  /\ pc[t] = "call"
  /\ cnt' = IF z[t] = G THEN cnt + 1 ELSE cnt
  /\ outside' = (outside \/ z[t] < Start \/ z[t] >= End)
  /\ \E hit \in BOOLEAN :
       IF hit THEN pc' = [pc EXCEPT ![t] = "scur"] /\ z' = z
       ELSE IF z[t] + 1 < v[t] + BLK THEN z' = [z EXCEPT ![t] = @ + 1] /\ pc' = pc
       ELSE z' = z /\ pc' = [pc EXCEPT ![t] = "load"]
  /\ UNCHANGED <<cur, v>>

StoreCur(t) ==
  /\ pc[t] = "scur" /\ cur' = End /\ pc' = [pc EXCEPT ![t] = "load"]
  /\ UNCHANGED <<v, z, cnt, outside>>

Next == \E t \in T : Load(t) \/ Cas(t) \/ Call(t) \/ StoreCur(t)

AtMostOnce == cnt <= 1
InRange == ~outside
CursorBounded == cur <= End
Safety == AtMostOnce /\ InRange /\ CursorBounded

TypeOK ==
  /\ cur \in Int /\ cnt \in Int /\ outside \in BOOLEAN
  /\ pc \in [T -> {"load", "cas", "call", "scur", "done"}]
  /\ v \in [T -> Int] /\ z \in [T -> Int]
Aligned(x) == (x - Start) % BLK = 0
InBlock(t) == pc[t] = "call"
ToCall(t) == InBlock(t) /\ z[t] <= G /\ G < v[t] + BLK          \* G still lies ahead in t's block
Passed(t) == InBlock(t) /\ v[t] <= G /\ G < z[t]                 \* t has already called G in its current block
IndInv ==
  /\ TypeOK
  /\ Start <= cur /\ cur <= End /\ Aligned(cur) /\ Aligned(End)
  /\ cnt >= 0 /\ cnt <= 1 /\ ~outside
  /\ \A t \in T : pc[t] = "cas" => (Start <= v[t] /\ v[t] <= cur /\ v[t] < End /\ Aligned(v[t]))
  /\ \A t \in T : pc[t] \in {"call", "scur"} => (Start <= v[t] /\ v[t] + BLK <= cur /\ Aligned(v[t]) /\ v[t] <= z[t] /\ z[t] < v[t] + BLK)
  /\ \A t, u \in T : (pc[t] \in {"call", "scur"} /\ pc[u] \in {"call", "scur"} /\ t # u) => v[t] # v[u]      \* blocks are owned exclusively
  /\ \A t \in T : ToCall(t) => cnt = 0
  /\ \A t \in T : Passed(t) => cnt = 1
  /\ (cnt = 1) => G < cur
=============================================================================
