SPECIFICATION TSpec
CONSTANTS Algo = "cas"  Modulus = 1000
INVARIANT Done
