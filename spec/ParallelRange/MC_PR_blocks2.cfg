SPECIFICATION FairSpec
CONSTANTS MaxLen = 4  NThreads = 2  IsMulti = FALSE  Algo = "cas"  Modulus = 1000  Blks = {1,2}  Starts = {5}
INVARIANTS AtMostOnce InRange Post CursorBounded
PROPERTY Termination
