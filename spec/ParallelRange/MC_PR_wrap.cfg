SPECIFICATION FairSpec
CONSTANTS MaxLen = 3  NThreads = 3  IsMulti = FALSE  Algo = "cas"  Modulus = 8  Blks = {1}  Starts = {5}
INVARIANTS AtMostOnce InRange Post CursorBounded
PROPERTY Termination
