------------------------ MODULE Trace_ParallelRange ------------------------
(***************************************************************************)
(* Trace validation for C16.  A trace is a concatenation of runs of the    *)
(* real parallel_range templates (harness/drv_pr.cc, scheduler-controlled, *)
(* or harness/drv_prfree.cc, free-running under ThreadSanitizer).          *)
(*                                                                         *)
(* R-check (refinement): each logged atomic operation / callback / worker  *)
(* exit must be the step of ParallelRange that the worker's program        *)
(* counter allows, with the logged operands equal to the model's.  A       *)
(* mismatch prints DRIFT (the model no longer describes the code) and      *)
(* stops R-checking for that run; it is not a violation by itself.         *)
(* P-check (property): at the end of each run the observed callback        *)
(* invocations and the returned value must satisfy C16; any failure prints *)
(* BAD.  P-checks use only observed events, never the model's state.       *)
(***************************************************************************)
EXTENDS ParallelRange, TLC, Json, IOUtils

Tr == ndJsonDeserialize(IOEnv.TRACE)
VARIABLES l, run, seen, fin, joined, drift
allvars == <<vars, l, run, seen, fin, joined, drift>>
Bad(why) == PrintT("BAD " \o ToJson([l |-> l, why |-> why]))
Chk(cond, why) == IF cond THEN TRUE ELSE Bad(why)
Drift(why) == PrintT("DRIFT " \o ToJson([l |-> l, why |-> why]))
ToSet(s) == {s[i] : i \in DOMAIN s}
EmptyCfg == [s |-> 0, e |-> 0, blk |-> 1, ts |-> {}, n |-> 1, multi |-> FALSE]

Init == /\ l = 1 /\ run = [free |-> 0, variant |-> "range"] /\ seen = <<>> /\ fin = {} /\ joined = {}
        /\ drift = TRUE /\ InitFor(EmptyCfg)

ModelUnchanged == UNCHANGED vars

(* the model step a logged worker event corresponds to, with its guard *)
Guard(ev) ==
  LET t == ev.t IN
  /\ t \in T
  /\ CASE ev.e = "call" -> pc[t] = "call" /\ ev.v = z[t] /\ ev.tn = t
       [] ev.e = "fin"  -> pc[t] = "done"
       [] ev.e = "a" /\ ev.op = "load" /\ ev.obj = 0  -> pc[t] = "load" /\ ev.ret = cur
       [] ev.e = "a" /\ ev.op = "cas" /\ ev.obj = 0   ->
            pc[t] = "cas" /\ ev.a = v[t] /\ ev.b = v[t] + Blk /\ ev.ok = (IF cur = v[t] THEN 1 ELSE 0) /\ ev.ret = cur
       [] ev.e = "a" /\ ev.op = "store" /\ ev.obj = 1 -> pc[t] = "sres" /\ ev.a = z[t]
       [] ev.e = "a" /\ ev.op = "store" /\ ev.obj = 0 -> pc[t] = "scur" /\ ev.a = End
       [] OTHER -> FALSE
ModelStep(ev) ==
  LET t == ev.t IN
  CASE ev.e = "call" -> Call(t)
    [] ev.e = "fin"  -> ModelUnchanged
    [] ev.e = "a" /\ ev.op = "load"  -> Load(t)
    [] ev.e = "a" /\ ev.op = "cas"   -> Cas(t)
    [] ev.e = "a" /\ ev.op = "store" /\ ev.obj = 1 -> StoreRes(t)
    [] ev.e = "a" /\ ev.op = "store" /\ ev.obj = 0 -> StoreCur(t)

Refine(ev) ==
  IF drift THEN ModelUnchanged /\ drift' = drift
  ELSE IF Guard(ev) THEN ModelStep(ev) /\ drift' = FALSE
  ELSE /\ Drift("event is not the step the model allows here: " \o ToJson(ev) \o " pc=" \o ToJson(pc))
       /\ drift' = TRUE /\ ModelUnchanged

RangeOf(c) == c.s..(c.e - 1)
Vals == {seen[i][1] : i \in DOMAIN seen}

RetChecks(ev) ==
  LET called == Vals
      hits == cfg.ts \cap called IN
  /\ Chk(ev.exc = "", "parallel_range threw " \o ev.exc)
  /\ Chk(\A i, j \in DOMAIN seen : i # j => seen[i][1] # seen[j][1], "a value was passed to the callback twice")
  /\ Chk(\A i \in DOMAIN seen : seen[i][1] \in RangeOf(cfg), "callback invoked for a value outside [start,end)")
  /\ Chk(\A i \in DOMAIN seen : seen[i][2] \in 0..(cfg.n - 1), "thread number outside [0,num_threads)")
  /\ Chk(run.free = 1 \/ (fin = 0..(cfg.n - 1) /\ joined = 0..(cfg.n - 1)),
         "the call returned before every worker had finished and been joined")
  /\ IF cfg.multi
       THEN /\ Chk(called = RangeOf(cfg), "_multi: not every value of the range was visited")
            /\ Chk(ToSet(ev.set) = cfg.ts \cap RangeOf(cfg) /\ Len(ev.set) = Cardinality(ToSet(ev.set)),
                   "_multi: returned set differs from the values for which the callback returned true")
       ELSE IF hits = {}
              THEN /\ Chk(called = RangeOf(cfg), "no callback returned true, but not every value was visited exactly once")
                   /\ Chk(ev.val = cfg.e, "no callback returned true, but the result is not end_value")
              ELSE Chk(ev.val \in hits, "a callback returned true, but the result is not such a value")

Step(ev) ==
  CASE ev.e = "Reset" ->
         LET c == [s |-> ev.s, e |-> ev.end, blk |-> ev.blk, ts |-> ToSet(ev.ts), n |-> ev.n,
                   multi |-> (ev.variant = "multi")] IN
         /\ run' = [free |-> ev.free, variant |-> ev.variant]
         /\ seen' = <<>> /\ fin' = {} /\ joined' = {}
         /\ drift' = (ev.free = 1)
         /\ cfg' = c /\ cur' = c.s /\ res' = c.e
         /\ pc' = [t \in 0..(c.n - 1) |-> "load"] /\ v' = [t \in 0..(c.n - 1) |-> 0]
         /\ z' = [t \in 0..(c.n - 1) |-> 0] /\ calls' = <<>> /\ sets' = [t \in 0..(c.n - 1) |-> {}]
         /\ mainpc' = "join" /\ ret' = -1
    [] ev.e = "call" ->
         /\ Chk(ev.r = (IF ev.v \in cfg.ts THEN 1 ELSE 0), "harness: callback result is not TrueSet membership")
         /\ seen' = Append(seen, <<ev.v, ev.tn>>)
         /\ Refine(ev) /\ UNCHANGED <<run, fin, joined>>
    [] ev.e = "fin" -> fin' = fin \cup {ev.t} /\ Refine(ev) /\ UNCHANGED <<run, seen, joined>>
    [] ev.e = "joined" -> joined' = joined \cup {ev.t} /\ ModelUnchanged /\ UNCHANGED <<run, seen, fin, drift>>
    [] ev.e = "a" /\ ev.t >= 0 -> Refine(ev) /\ UNCHANGED <<run, seen, fin, joined>>
    [] ev.e = "a" /\ ev.t < 0 ->    \* main thread: only the final read of the result is modelled (part of Join)
         /\ IF drift \/ (ev.op = "load" /\ ev.obj = 1 /\ ev.ret = res /\ \A t \in T : pc[t] = "done")
              THEN drift' = drift
              ELSE Drift("main thread operation not in the model: " \o ToJson(ev)) /\ drift' = TRUE
         /\ ModelUnchanged /\ UNCHANGED <<run, seen, fin, joined>>
    [] ev.e = "ret" -> RetChecks(ev) /\ ModelUnchanged /\ UNCHANGED <<run, seen, fin, joined, drift>>
    [] OTHER -> Bad("no specification action for event " \o ev.e) /\ ModelUnchanged
                /\ UNCHANGED <<run, seen, fin, joined, drift>>

TNext == l <= Len(Tr) /\ l' = l + 1 /\ Step(Tr[l])
TSpec == Init /\ [][TNext]_allvars
Done == (l = Len(Tr) + 1) => PrintT("TRACE-DONE " \o ToString(Len(Tr)))
=============================================================================
