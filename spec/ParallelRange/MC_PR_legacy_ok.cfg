SPECIFICATION FairSpec
CONSTANTS MaxLen = 3  NThreads = 2  IsMulti = FALSE  Algo = "fadd"  Modulus = 1000  Blks = {1}  Starts = {5}
INVARIANTS AtMostOnce InRange Post CursorBounded
PROPERTY Termination
