SPECIFICATION Spec
CONSTANTS
  Flavor = "map"
  K = {1,2,3}
  S = {0,1,2}
  V = {7,8}
  Two = FALSE
  EMIT = FALSE
INVARIANTS NoDupKeys OrderIsRecency EvictIsLRU SizeCount
PROPERTY NonTouchingKeepOrder
