SPECIFICATION Spec
CONSTANTS
  Flavor = "set"
  K = {1,2}
  S = {0,1}
  V = {0}
  Two = TRUE
  EMIT = FALSE
INVARIANTS NoDupKeys OrderIsRecency EvictIsLRU SizeCount
PROPERTY NonTouchingKeepOrder
