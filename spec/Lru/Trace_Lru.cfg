SPECIFICATION Spec
INVARIANT Done
