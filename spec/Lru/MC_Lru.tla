------------------------------ MODULE MC_Lru ------------------------------
(***************************************************************************)
(* Bounded exhaustive model of one or two containers of one flavour.       *)
(* Checks the laws of C12 on the reference list itself, against an         *)
(* independent timestamp formulation of "least recently used" (ghost       *)
(* variable rank), and - when EMIT = TRUE - prints the complete labelled    *)
(* transition table that the C++ table walker replays into the real        *)
(* LRUSet / LRUMap (spec -> implementation direction).                     *)
(***************************************************************************)
EXTENDS Lru, TLC, Json

CONSTANTS Flavor, K, S, V, Two, EMIT

VARIABLES lst,   \* lst[i] : list of container i (1 or 2)
          rank   \* rank[i] : key -> position in time order of last refresh (ghost; 1 = oldest)
vars == <<lst, rank>>

Inst == IF Two THEN {1, 2} ELSE {1}
AllOps == Ops(Flavor, K, S, V)

Init == lst = [i \in Inst |-> <<>>] /\ rank = [i \in Inst |-> <<>>]

(* Independent definition of recency: rank is the sequence of keys in order
   of their last refresh, oldest first.  A refreshing operation moves the key
   to the end; a removal deletes it; nothing else changes it. *)
RankAfter(r, l2, o, touched) ==
  LET alive == SelectSeq(r, LAMBDA k : k \in KeysOf(l2))
  IN  IF touched /\ o.k \in KeysOf(l2)
      THEN SelectSeq(alive, LAMBDA k : k # o.k) \o <<o.k>>
      ELSE alive

Emit(i, o, res) ==
  EMIT => PrintT("T " \o ToJson(<<lst[i], o.op, o.k, o.s, o.v, o.t, res.r, res.l>>))

Do(i, o) ==
  LET res == Apply(Flavor, lst[i], o)
      isNew == o.op \in {"insert", "emplace"} /\ ~Has(lst[i], o.k)
      touched == isNew \/ (Touches(Flavor, o) /\ Has(lst[i], o.k))
  IN  /\ lst' = [lst EXCEPT ![i] = res.l]
      /\ rank' = [rank EXCEPT ![i] = RankAfter(rank[i], res.l, o, touched)]
      /\ Emit(i, o, res)

Swap == Two /\ lst' = [lst EXCEPT ![1] = lst[2], ![2] = lst[1]]
            /\ rank' = [rank EXCEPT ![1] = rank[2], ![2] = rank[1]]

Next == (\E i \in Inst, o \in AllOps : Do(i, o)) \/ Swap
Spec == Init /\ [][Next]_vars

\* ------------------------------------------------------------------ laws
Rev(s) == [i \in 1..Len(s) |-> s[Len(s) + 1 - i]]
NoDupKeys == \A i \in Inst : Cardinality(KeysOf(lst[i])) = Len(lst[i])
(* the list order is exactly "most recently refreshed first" *)
OrderIsRecency == \A i \in Inst : [j \in 1..Len(lst[i]) |-> lst[i][j][1]] = Rev(rank[i])
(* evict / peek return the least recently refreshed key *)
EvictIsLRU == \A i \in Inst : lst[i] # <<>> =>
                 /\ Apply(Flavor, lst[i], [op |-> "evict", k |-> 0, s |-> 0, v |-> 0, t |-> 0]).r[1] = rank[i][1]
                 /\ (Flavor = "set" =>
                       Apply(Flavor, lst[i], [op |-> "peek", k |-> 0, s |-> 0, v |-> 0, t |-> 0]).r[1] = rank[i][1])
(* operations that are not documented to touch never reorder surviving keys *)
NonTouchingKeepOrder ==
  [][\A i \in Inst : (\E o \in AllOps : ~Touches(Flavor, o) /\ lst'[i] = Apply(Flavor, lst[i], o).l
                          /\ ~(o.op = "emplace" /\ ~Has(lst[i], o.k)))
        => LET ks(l) == [j \in 1..Len(l) |-> l[j][1]]
           IN  SelectSeq(ks(lst[i]), LAMBDA k : k \in KeysOf(lst'[i])) = ks(lst'[i]) \/ lst' = [lst EXCEPT ![1] = lst[2], ![2] = lst[1]]]_vars
SizeCount == \A i \in Inst :
    /\ Apply(Flavor, lst[i], [op |-> "count", k |-> 0, s |-> 0, v |-> 0, t |-> 0]).r = <<Cardinality(KeysOf(lst[i]))>>
    /\ Apply(Flavor, lst[i], [op |-> "size", k |-> 0, s |-> 0, v |-> 0, t |-> 0]).r[1] >= 0
=============================================================================
