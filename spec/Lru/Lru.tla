------------------------------- MODULE Lru -------------------------------
(***************************************************************************)
(* Reference recency list for phosg's LRUSet<K> and LRUMap<K,V> (C12).     *)
(*                                                                         *)
(* Abstract state of one container: a sequence of entries <<k, s, v>>,     *)
(* most recently used first (v = 0 for the set flavour).  Every public     *)
(* call is one operation record `o`; Apply(flavor, l, o) gives the list    *)
(* after the call and the value the call returns (a tuple of integers;     *)
(* <<-1>> stands for std::out_of_range).                                    *)
(***************************************************************************)
EXTENDS Integers, Sequences, FiniteSets

KeysOf(l) == {l[i][1] : i \in DOMAIN l}
Has(l, k) == \E i \in DOMAIN l : l[i][1] = k
Idx(l, k) == CHOOSE i \in DOMAIN l : l[i][1] = k
Entry(l, k) == l[Idx(l, k)]
Without(l, k) == SelectSeq(l, LAMBDA e : e[1] # k)
ToFront(l, e) == <<e>> \o Without(l, e[1])
InPlace(l, e) == [i \in DOMAIN l |-> IF l[i][1] = e[1] THEN e ELSE l[i]]
RECURSIVE TotalSize(_)
TotalSize(l) == IF l = <<>> THEN 0 ELSE Head(l)[2] + TotalSize(Tail(l))
B(x) == IF x THEN <<1>> ELSE <<0>>
Exc == <<-1>>
R(l, r) == [l |-> l, r |-> r]

(* Which operations refresh recency, as documented / as the property puts it:
   "recency being refreshed by precisely the operations documented to touch". *)
Touches(flavor, o) ==
    \/ o.op \in {"insert", "touch", "at"}
    \/ o.op = "emplace" /\ flavor = "set"
    \/ o.op = "change_size" /\ flavor = "map" /\ o.t = 1

ApplySet(l, o) ==
  CASE o.op \in {"insert", "emplace"} -> R(ToFront(l, <<o.k, o.s, 0>>), B(~Has(l, o.k)))
    [] o.op = "erase"       -> R(Without(l, o.k), B(Has(l, o.k)))
    [] o.op = "change_size" -> IF Has(l, o.k) THEN R(InPlace(l, <<o.k, o.s, 0>>), B(TRUE)) ELSE R(l, B(FALSE))
    [] o.op = "touch"       -> IF Has(l, o.k)
                                 THEN R(ToFront(l, <<o.k, IF o.s >= 0 THEN o.s ELSE Entry(l, o.k)[2], 0>>), B(TRUE))
                                 ELSE R(l, B(FALSE))
    [] o.op = "evict"       -> IF l = <<>> THEN R(l, Exc)
                                 ELSE R(SubSeq(l, 1, Len(l) - 1), <<l[Len(l)][1], l[Len(l)][2]>>)
    [] o.op = "peek"        -> IF l = <<>> THEN R(l, Exc) ELSE R(l, <<l[Len(l)][1], l[Len(l)][2]>>)
    [] o.op = "clear"       -> R(<<>>, <<>>)
    [] o.op = "size"        -> R(l, <<TotalSize(l)>>)
    [] o.op = "count"       -> R(l, <<Len(l)>>)

ApplyMap(l, o) ==
  CASE o.op = "insert"      -> R(ToFront(l, <<o.k, o.s, o.v>>), B(~Has(l, o.k)))
    [] o.op = "emplace"     -> IF Has(l, o.k) THEN R(l, B(FALSE)) ELSE R(ToFront(l, <<o.k, o.s, o.v>>), B(TRUE))
    [] o.op = "erase"       -> R(Without(l, o.k), B(Has(l, o.k)))
    [] o.op = "at"          -> IF Has(l, o.k) THEN R(ToFront(l, Entry(l, o.k)), <<Entry(l, o.k)[3]>>) ELSE R(l, Exc)
    [] o.op = "item_size"   -> IF Has(l, o.k) THEN R(l, <<Entry(l, o.k)[2]>>) ELSE R(l, Exc)
    [] o.op = "change_size" -> IF Has(l, o.k)
                                 THEN LET e == <<o.k, o.s, Entry(l, o.k)[3]>>
                                      IN  R(IF o.t = 1 THEN ToFront(l, e) ELSE InPlace(l, e), B(TRUE))
                                 ELSE R(l, B(FALSE))
    [] o.op = "touch"       -> IF Has(l, o.k)
                                 THEN R(ToFront(l, <<o.k, IF o.s >= 0 THEN o.s ELSE Entry(l, o.k)[2], Entry(l, o.k)[3]>>), B(TRUE))
                                 ELSE R(l, B(FALSE))
    [] o.op = "evict"       -> IF l = <<>> THEN R(l, Exc)
                                 ELSE R(SubSeq(l, 1, Len(l) - 1), <<l[Len(l)][1], l[Len(l)][3], l[Len(l)][2]>>)
    [] o.op = "clear"       -> R(<<>>, <<>>)
    [] o.op = "size"        -> R(l, <<TotalSize(l)>>)
    [] o.op = "count"       -> R(l, <<Len(l)>>)
    [] o.op = "empty"       -> R(l, B(l = <<>>))

Apply(flavor, l, o) == IF flavor = "set" THEN ApplySet(l, o) ELSE ApplyMap(l, o)

OpNames(flavor) == IF flavor = "set"
    THEN {"insert", "emplace", "erase", "change_size", "touch", "evict", "peek", "clear", "size", "count"}
    ELSE {"insert", "emplace", "erase", "at", "item_size", "change_size", "touch", "evict", "clear", "size",
          "count", "empty"}

(* All operation records over a key / size / value universe. *)
Ops(flavor, K, S, V) ==
  LET O(n, ks, ss, vs, ts) == {[op |-> n, k |-> k, s |-> s, v |-> v, t |-> t] : k \in ks, s \in ss, v \in vs, t \in ts}
      Z == {0}
  IN  IF flavor = "set"
      THEN O("insert", K, S, Z, Z) \cup O("emplace", K, S, Z, Z) \cup O("erase", K, Z, Z, Z)
           \cup O("change_size", K, S, Z, Z) \cup O("touch", K, S \cup {-1}, Z, Z)
           \cup O("evict", Z, Z, Z, Z) \cup O("peek", Z, Z, Z, Z) \cup O("clear", Z, Z, Z, Z)
           \cup O("size", Z, Z, Z, Z) \cup O("count", Z, Z, Z, Z)
      ELSE O("insert", K, S, V, Z) \cup O("emplace", K, S, V, Z) \cup O("erase", K, Z, Z, Z)
           \cup O("at", K, Z, Z, Z) \cup O("item_size", K, Z, Z, Z) \cup O("change_size", K, S, Z, {0, 1})
           \cup O("touch", K, S \cup {-1}, Z, Z) \cup O("evict", Z, Z, Z, Z) \cup O("clear", Z, Z, Z, Z)
           \cup O("size", Z, Z, Z, Z) \cup O("count", Z, Z, Z, Z) \cup O("empty", Z, Z, Z, Z)
=============================================================================
