SPECIFICATION Spec
CONSTANTS
  Flavor = "set"
  K = {1,2,3}
  S = {0,1,2}
  V = {0}
  Two = FALSE
  EMIT = TRUE
INVARIANTS NoDupKeys OrderIsRecency EvictIsLRU SizeCount
PROPERTY NonTouchingKeepOrder
