----------------------------- MODULE Trace_Lru -----------------------------
(***************************************************************************)
(* Trace validation for C12: every recorded call on a real LRUSet/LRUMap   *)
(* (harness/drv_lru.cc) must be the step Apply() of the reference list     *)
(* allows from the state reached so far: same return value, same recency   *)
(* list read forwards (next links) and backwards (prev links), same        *)
(* size()/count().  Mismatches are printed as BAD records; validation      *)
(* resynchronises on the logged state and continues, so one defect does    *)
(* not hide later ones.  Events without an action (Crash, OOB, Leak, ...)  *)
(* are rejected.                                                           *)
(***************************************************************************)
EXTENDS Lru, TLC, Json, IOUtils

Tr == ndJsonDeserialize(IOEnv.TRACE)

VARIABLES l, fl, lst
vars == <<l, fl, lst>>

Rev(s) == [i \in 1..Len(s) |-> s[Len(s) + 1 - i]]
Bad(why) == PrintT("BAD " \o ToJson([l |-> l, why |-> why]))
Chk(cond, why) == IF cond THEN TRUE ELSE Bad(why)

Init == l = 1 /\ fl = "set" /\ lst = <<<<>>, <<>>>>

OpStep(ev) ==
  LET o   == [op |-> ev.op, k |-> ev.k, s |-> ev.s, v |-> ev.v, t |-> ev.t]
      res == Apply(fl, lst[ev.i], o)
  IN  /\ Chk(ev.op \in OpNames(fl), "unknown operation")
      /\ Chk(ev.ret = res.r, "return value differs from the reference list")
      /\ Chk(ev.fwd = res.l, "recency list (head->tail) differs from the reference list")
      /\ Chk(ev.bwd = Rev(ev.fwd), "prev links disagree with next links")
      /\ Chk(ev.size = TotalSize(res.l), "size() is not the sum of entry sizes")
      /\ Chk(ev.count = Len(res.l), "count() is not the number of keys")
      /\ lst' = [lst EXCEPT ![ev.i] = ev.fwd]
      /\ fl' = fl

(* an operation that ended with an exception from the key type's copy (harness: a key whose copies can be made to fail):
   the container is exactly what it was *)
FailStep(ev) ==
  /\ Chk(ev.fwd = lst[ev.i], "an operation that failed (the key could not be copied) changed the recency list")
  /\ Chk(ev.bwd = Rev(ev.fwd), "prev links disagree with next links after a failed operation")
  /\ Chk(ev.size = TotalSize(lst[ev.i]) /\ ev.count = Len(lst[ev.i]), "size() / count() changed by an operation that failed")
  /\ lst' = [lst EXCEPT ![ev.i] = ev.fwd]
  /\ fl' = fl

SwapStep(ev) ==
  /\ Chk(ev.fwd1 = lst[2] /\ ev.fwd2 = lst[1], "swap did not exchange the two recency lists")
  /\ Chk(ev.bwd1 = Rev(ev.fwd1) /\ ev.bwd2 = Rev(ev.fwd2), "prev links disagree with next links after swap")
  /\ Chk(ev.size1 = TotalSize(lst[2]) /\ ev.size2 = TotalSize(lst[1]), "swap did not exchange sizes")
  /\ Chk(ev.count1 = Len(lst[2]) /\ ev.count2 = Len(lst[1]), "swap did not exchange counts")
  /\ lst' = <<ev.fwd1, ev.fwd2>>
  /\ fl' = fl

Next ==
  /\ l <= Len(Tr)
  /\ l' = l + 1
  /\ LET ev == Tr[l] IN
       CASE ev.e = "Reset" -> fl' = ev.fl /\ lst' = <<<<>>, <<>>>>
         [] ev.e = "op"    -> OpStep(ev)
         [] ev.e = "opfail" -> FailStep(ev)
         [] ev.e = "swap"  -> SwapStep(ev)
         [] OTHER          -> Bad("no specification action for event " \o ev.e) /\ UNCHANGED <<fl, lst>>

Spec == Init /\ [][Next]_vars
Done == (l = Len(Tr) + 1) => PrintT("TRACE-DONE " \o ToString(Len(Tr)))
=============================================================================
