SPECIFICATION Spec
CONSTANTS
  Flavor = "map"
  K = {1,2}
  S = {0,1}
  V = {7,8}
  Two = TRUE
  EMIT = TRUE
INVARIANTS NoDupKeys OrderIsRecency EvictIsLRU SizeCount
PROPERTY NonTouchingKeepOrder
