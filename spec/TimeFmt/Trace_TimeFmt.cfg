SPECIFICATION Spec
INVARIANT Done
