----------------------------- MODULE MC_TimeFmt -----------------------------
(* Non-vacuity of the predicates: an exact-arithmetic reference formatter satisfies DurationOk around every unit
   boundary and for every precision; the calendar definition reproduces fixed known dates. *)
EXTENDS TimeFmt, TLC
VARIABLES base, off, prec
Init == base \in {0, 1, 60, 3600, 86400} /\ off \in {-2, -1, 0, 1, 999999, 500000, 499999, 1500000} /\ prec \in -1..6
Next == UNCHANGED <<base, off, prec>>
Spec == Init /\ [][Next]_<<base, off, prec>>
Usecs == LET b == Mul(FromInt(base), FromInt(1000000)) IN
         IF off < 0 THEN (IF IsZero(b) THEN <<>> ELSE Sub(b, FromInt(0 - off))) ELSE Add(b, FromInt(off))
(* reference formatter on small values (fits in TLC integers since base <= 86400 s and off < 2 s) *)
UsInt == base * 1000000 + (IF base = 0 /\ off < 0 THEN 0 ELSE off)
RefText(us, pr) ==
  LET unit == 10 ^ (6 - pr)
      r == ((us + unit \div 2) \div unit) * unit          \* rounded to the printed precision (ties up)
      s == r \div 1000000  f == (r % 1000000) \div unit
      d == s \div 86400 h == (s \div 3600) % 24 m == (s \div 60) % 60 ss == s % 60
      num(n) == LET RECURSIVE T(_) T(x) == IF x < 10 THEN <<48 + x>> ELSE T(x \div 10) \o <<48 + (x % 10)>> IN T(n)
      padded(x0, k0) == LET RECURSIVE P(_, _) P(x, k) == IF k = 0 THEN <<>> ELSE P(x \div 10, k - 1) \o <<48 + (x % 10)>> IN P(x0, k0)
      fr == IF pr = 0 THEN <<>> ELSE <<46>> \o padded(f, pr)
  IN  IF us < 60000000 THEN num(s) \o fr
      ELSE IF us < 2147000000 /\ s < 3600 THEN num(m) \o <<58>> \o Two(ss) \o fr
      ELSE IF s < 86400 THEN num(h) \o <<58>> \o Two(m) \o <<58>> \o Two(ss) \o fr
      ELSE num(d) \o <<58>> \o Two(h) \o <<58>> \o Two(m) \o <<58>> \o Two(ss) \o fr
RefSatisfies == base > 2000 \/       \* keep the integer reference within 32 bits
                LET pr == IF prec < 0 THEN DefaultPrecision(FromInt(UsInt)) ELSE prec IN
                DurationOk(FromInt(UsInt), prec, RefText(UsInt, pr))
Dates == /\ Civil(0) = [y |-> 1970, m |-> 1, d |-> 1] /\ Civil(789) = [y |-> 1972, m |-> 2, d |-> 29]
         /\ Civil(11016) = [y |-> 2000, m |-> 2, d |-> 29] /\ Civil(11017) = [y |-> 2000, m |-> 3, d |-> 1]
         /\ Civil(47540) = [y |-> 2100, m |-> 2, d |-> 28] /\ Civil(47541) = [y |-> 2100, m |-> 3, d |-> 1]
         /\ Civil(2932896) = [y |-> 9999, m |-> 12, d |-> 31] /\ Civil(19723) = [y |-> 2024, m |-> 1, d |-> 1]
         /\ Civil(365) = [y |-> 1971, m |-> 1, d |-> 1] /\ Civil(-1) = [y |-> 1969, m |-> 12, d |-> 31]
Sizes == /\ SizeOk(FromInt(1023), FALSE, <<49, 48, 50, 51, 32, 98, 121, 116, 101, 115>>)
         /\ SizeOk(FromInt(1536), FALSE, <<49, 46, 53, 48, 32, 75, 66>>)
         /\ ~SizeOk(FromInt(1536), FALSE, <<49, 46, 53, 50, 32, 75, 66>>)
         /\ ~SizeOk(FromInt(1536), FALSE, <<49, 46, 53, 48, 32, 77, 66>>)
         /\ SizeOk(FromInt(1536), TRUE, <<49, 53, 51, 54, 32, 98, 121, 116, 101, 115, 32, 40, 49, 46, 53, 48, 32, 75, 66, 41>>)
         /\ LadderExp(Pow2(60)) = 60 /\ LadderExp(Pow2(63)) = 60 /\ LadderExp(FromInt(1048575)) = 10
=============================================================================
