---------------------------- MODULE Trace_TimeFmt ----------------------------
EXTENDS TimeFmt, TLC, Json, IOUtils
Tr == ndJsonDeserialize(IOEnv.TRACE)
VARIABLE l
Bad(why) == PrintT("BAD " \o ToJson([l |-> l, why |-> why]))
ChkAll(S, P(_), why) == LET f == {i \in S : ~P(i)} IN IF f = {} THEN TRUE ELSE Bad(why \o " [failing indices " \o ToString(f) \o "]")
Init == l = 1
Step(ev) ==
  CASE ev.e = "Reset" -> TRUE
    [] ev.e = "dur" -> LET G(i) == ev.out[i] = 0 /\ DurationOk(ev.us[i], ev.prec, ev.text[i]) IN
         ChkAll(DOMAIN ev.us, G, "format_duration threw, or its text is not [d:][h:][m:]s[.f] with two-digit inner fields that evaluates back to the duration rounded at the printed precision")
    [] ev.e = "time" -> LET G(i) == /\ TimeSplitOk(ev.t[i], ev.days[i], ev.secs[i], ev.usecs[i])
                                    /\ ev.text[i] = TimeText(ev.days[i], ev.secs[i], ev.usecs[i]) IN
         ChkAll(DOMAIN ev.t, G, "format_time is not the UTC calendar date and time with exact microseconds")
    [] ev.e = "size" -> LET G(i) == SizeOk(ev.n[i], ev.ib = 1, ev.text[i]) /\ ParseAgrees(ev.n[i], ev.ib = 1, ev.parsed[i]) IN
         ChkAll(DOMAIN ev.n, G, "format_size / parse_size do not agree with the size to the printed precision")
    [] ev.e = "tv" -> LET G(i) == /\ Eq(Add(Mul(ev.sec[i], FromInt(1000000)), FromInt(ev.usec[i])), ev.us[i])
                                  /\ ev.usec[i] >= 0 /\ ev.usec[i] < 1000000 /\ Eq(ev.back[i], ev.us[i]) IN
         ChkAll(DOMAIN ev.us, G, "usecs_to_timeval / timeval_to_usecs are not exact inverses")
    [] OTHER -> Bad("no specification action for event " \o ev.e)
Next == l <= Len(Tr) /\ l' = l + 1 /\ Step(Tr[l])
Spec == Init /\ [][Next]_l
Done == (l = Len(Tr) + 1) => PrintT("TRACE-DONE " \o ToString(Len(Tr)))
=============================================================================
