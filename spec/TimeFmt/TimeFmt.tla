------------------------------ MODULE TimeFmt ------------------------------
(***************************************************************************)
(* format_duration / format_time / format_size / parse_size / timeval      *)
(* conversions (src/Time.cc, src/Strings.cc), property C18.  Relational:   *)
(* the predicates say when a produced text is faithful to the value; all   *)
(* arithmetic is exact (BigNat), no floating point.                        *)
(***************************************************************************)
EXTENDS Integers, Sequences, SequencesExt, FiniteSets, BigNat

IsDigit(b) == b >= 48 /\ b <= 57
AllDigits(s) == s # <<>> /\ \A i \in DOMAIN s : IsDigit(s[i])
Dec(s) == [i \in DOMAIN s |-> s[i] - 48]
Positions(s, b) == SelectSeq([i \in 1..Len(s) |-> i], LAMBDA i : s[i] = b)
CutAt(s, cuts) == [k \in 1..(Len(cuts) + 1) |->
                     SubSeq(s, IF k = 1 THEN 1 ELSE cuts[k - 1] + 1, IF k > Len(cuts) THEN Len(s) ELSE cuts[k] - 1)]
SplitOn(s, b) == CutAt(s, Positions(s, b))
SmallInt(s) == FoldLeft(LAMBDA acc, c : acc * 10 + (c - 48), 0, s)       \* for short digit strings only

(* ---- durations ------------------------------------------------------------------- *)
DefaultPrecision(usecs) ==       \* precision -1 means "default", which depends on the magnitude
  IF Lt(usecs, FromInt(60000000)) THEN 6 ELSE IF Lt(usecs, MulSmall(FromInt(60000000), 60)) THEN 3 ELSE 0
(* text = [d:][h:][m:]s[.f] ; value in microseconds *)
DurationParts(text) ==
  LET fields == SplitOn(text, 58)
      last == fields[Len(fields)]
      sf == SplitOn(last, 46)
  IN  [n |-> Len(fields), ints |-> [i \in 1..Len(fields) |-> IF i < Len(fields) THEN fields[i] ELSE sf[1]],
       hasFrac |-> Len(sf) = 2, frac |-> IF Len(sf) = 2 THEN sf[2] ELSE <<>>, wellformed |-> Len(sf) <= 2]
DurationValue(p) ==     \* microseconds denoted by the text, as BigNat (fraction of up to 6 digits)
  LET n == p.n
      mult == [i \in 1..4 |-> CASE i = 1 -> 1 [] i = 2 -> 60 [] i = 3 -> 3600 [] i = 4 -> 86400]
      secs == FoldLeft(LAMBDA acc, i : Add(acc, MulSmall(FromDec(Dec(p.ints[i])), mult[n - i + 1])), <<>>, [i \in 1..n |-> i])
      fracUs == IF p.hasFrac THEN MulSmall(FromDec(Dec(p.frac)), 10 ^ (6 - Len(p.frac))) ELSE <<>>
  IN  Add(Mul(secs, FromInt(1000000)), fracUs)
DurationOk(usecs, prec, text) ==
  LET p == DurationParts(text)
      pr == IF prec < 0 THEN DefaultPrecision(usecs) ELSE prec IN
  /\ p.wellformed /\ p.n >= 1 /\ p.n <= 4
  /\ \A i \in 1..p.n : AllDigits(p.ints[i])
  /\ \A i \in 2..p.n : Len(p.ints[i]) = 2                    \* inner fields are zero-padded to two digits
  /\ (p.n > 1 => Len(p.ints[1]) >= 1 /\ (Len(p.ints[1]) = 1 \/ p.ints[1][1] # 48))
  /\ (pr = 0 => ~p.hasFrac) /\ (pr > 0 => p.hasFrac /\ Len(p.frac) = pr /\ AllDigits(p.frac))
  (* evaluates back to the input rounded at the printed precision: |value - usecs| <= half a unit (ties either way) *)
  /\ Le(MulSmall(AbsDiff(DurationValue(p), usecs), 2), FromInt(10 ^ (6 - pr)))

(* ---- calendar ------------------------------------------------------------------------ *)
(* civil date from days since 1970-01-01 (proleptic Gregorian), after Hinnant *)
Civil(z0) ==
  LET z == z0 + 719468
      era == z \div 146097
      doe == z - era * 146097
      yoe == (doe - doe \div 1460 + doe \div 36524 - doe \div 146096) \div 365
      y == yoe + era * 400
      doy == doe - (365 * yoe + yoe \div 4 - yoe \div 100)
      mp == (5 * doy + 2) \div 153
      d == doy - (153 * mp + 2) \div 5 + 1
      m == IF mp < 10 THEN mp + 3 ELSE mp - 9
  IN  [y |-> IF m <= 2 THEN y + 1 ELSE y, m |-> m, d |-> d]
Two(n) == <<48 + (n \div 10), 48 + (n % 10)>>
Four(n) == <<48 + (n \div 1000), 48 + ((n \div 100) % 10), 48 + ((n \div 10) % 10), 48 + (n % 10)>>
Six(n) == <<48 + (n \div 100000), 48 + ((n \div 10000) % 10), 48 + ((n \div 1000) % 10), 48 + ((n \div 100) % 10), 48 + ((n \div 10) % 10), 48 + (n % 10)>>
TimeText(days, secs, usecs) ==
  LET c == Civil(days) IN
  Four(c.y) \o <<45>> \o Two(c.m) \o <<45>> \o Two(c.d) \o <<32>> \o Two(secs \div 3600) \o <<58>> \o Two((secs \div 60) % 60)
    \o <<58>> \o Two(secs % 60) \o <<46>> \o Six(usecs)
(* t = days * 86400e6 + secs * 1e6 + usecs, exactly *)
TimeSplitOk(t, days, secs, usecs) ==
  /\ secs >= 0 /\ secs < 86400 /\ usecs >= 0 /\ usecs < 1000000
  /\ Eq(t, Add(Mul(Mul(FromInt(days), FromInt(86400)), FromInt(1000000)), Add(Mul(FromInt(secs), FromInt(1000000)), FromInt(usecs))))

(* ---- sizes ------------------------------------------------------------------------------ *)
UnitExp(c) == CASE c \in {75, 107} -> 10 [] c \in {77, 109} -> 20 [] c \in {71, 103} -> 30 [] c \in {84, 116} -> 40
                [] c \in {80, 112} -> 50 [] c \in {69, 101} -> 60 [] OTHER -> 0
(* "X.YY UB" -> [ok, hundredths, exp] *)
HumanPart(s) ==
  LET sp == SplitOn(s, 32)
      num == SplitOn(sp[1], 46) IN
  IF Len(sp) # 2 \/ Len(num) # 2 \/ ~AllDigits(num[1]) \/ ~AllDigits(num[2]) \/ Len(num[2]) # 2 \/ Len(sp[2]) # 2 \/ sp[2][2] # 66
       \/ UnitExp(sp[2][1]) = 0 \/ Len(num[1]) > 4
    THEN [ok |-> FALSE, h |-> 0, e |-> 0]
    ELSE [ok |-> TRUE, h |-> SmallInt(num[1]) * 100 + SmallInt(num[2]), e |-> UnitExp(sp[2][1])]
(* the ladder: the unit is the largest power of 1024 not above the size (capped at EB) *)
LadderExp(n) == LET ks == {k \in 1..6 : Le(Pow2(10 * k), n)} IN IF ks = {} THEN 0 ELSE 10 * (CHOOSE k \in ks : \A j \in ks : k >= j)
(* |h/100 * 2^e - n| <= 0.006 * 2^e : the printed number agrees with n / unit to the printed precision *)
HumanOk(h, e, n) == Le(MulSmall(AbsDiff(Mul(FromInt(h), Pow2(e)), MulSmall(n, 100)), 10), MulSmall(Pow2(e), 6))
BytesSuffix == <<32, 98, 121, 116, 101, 115>>                       \* " bytes"
SizeOk(n, includeBytes, text) ==
  IF Lt(n, FromInt(1024))
    THEN Len(text) > 6 /\ SubSeq(text, Len(text) - 5, Len(text)) = BytesSuffix
         /\ AllDigits(SubSeq(text, 1, Len(text) - 6)) /\ Eq(FromDec(Dec(SubSeq(text, 1, Len(text) - 6))), n)
    ELSE IF includeBytes
      THEN LET op == Positions(text, 40) IN
           /\ Len(op) = 1 /\ text[Len(text)] = 41 /\ op[1] > 8
           /\ LET left == SubSeq(text, 1, op[1] - 2)       \* "N bytes"
                  hp == HumanPart(SubSeq(text, op[1] + 1, Len(text) - 1)) IN
              /\ Len(left) > 6 /\ SubSeq(left, Len(left) - 5, Len(left)) = BytesSuffix
              /\ AllDigits(SubSeq(left, 1, Len(left) - 6)) /\ Eq(FromDec(Dec(SubSeq(left, 1, Len(left) - 6))), n)
              /\ hp.ok /\ hp.e = LadderExp(n) /\ HumanOk(hp.h, hp.e, n)
      ELSE LET hp == HumanPart(text) IN hp.ok /\ hp.e = LadderExp(n) /\ HumanOk(hp.h, hp.e, n)
(* parse_size(format_size(n)) agrees with n to the printed precision: |m - n| <= 0.01 unit + 1 *)
ParseAgrees(n, includeBytes, m) ==
  IF Lt(n, FromInt(1024)) \/ includeBytes THEN Eq(m, n)
  ELSE Le(MulSmall(AbsDiff(m, n), 100), Add(Pow2(LadderExp(n)), FromInt(100)))
=============================================================================
