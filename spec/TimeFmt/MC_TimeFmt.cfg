SPECIFICATION Spec
INVARIANTS RefSatisfies Dates Sizes
