"""C08  string splitting / joining / trimming / replacing / printf (spec/Strings)."""
import vlib


def run(tier):
    c = vlib.Check("C08", tier)
    exe = vlib.build(["drv_strings"])["drv_strings"]
    quick = tier == "quick"
    c.mc("Strings", "MC_Strings", "MC_Strings.cfg" if quick else "MC_Strings_t.cfg", workers=12, timeout=2400)
    maxlen = 5 if quick else 7
    nsh = 3 if quick else 6
    sets = [["small", "@OUT", maxlen, a, i, nsh] for a in range(5) for i in range(nsh)]
    sets += [["rand", "@OUT", 150 if quick else 1000, vlib.SEED + k] for k in range(1 if quick else 4)]
    traces = c.drive(exe, sets, tag="str")
    bads = c.validate("Strings", "Trace_Strings", traces, timeout=3400, xmx="6g")
    c.judge(bads)
    c.exhaustive = True
    c.rule = ("every string of length <=%d over five 4-symbol adversarial alphabets (delimiters, brackets, quotes, "
              "backslash, blanks, comment markers, NUL) x every helper, every delimiter of the alphabet, max_splits "
              "0..3, every 1-2 symbol target; random strings over all 256 bytes up to 4 KiB; join on vectors with "
              "empty pieces; printf results at every length around 1024/4096/16384/65536 (thorough: 1 MiB), compared "
              "run-length encoded; distinct = (helper, parameter set) batches" % maxlen)
    c.assumptions = ["run-length encoding of printf results is done by the harness (canonical form)",
                     "str_replace_all targets/replacements are NUL-free (const char* API)"]
    return c.finish()
