"""C13  KDTree = brute-force multiset (spec/KdTree)."""
import vlib


def run(tier):
    c = vlib.Check("C13", tier)
    exe = vlib.build(["drv_kdtree"])["drv_kdtree"]
    quick = tier == "quick"
    # 1. MC of the reference multiset (query laws)
    c.mc("KdTree", "MC_KdTree", "MC_KdTree.cfg" if quick else "MC_KdTree_t.cfg", workers=8, timeout=1500)
    # 2. exhaustive small scope on the real tree: all insertion sequences x all erase orders
    nsh = 8 if quick else 16
    if quick:
        sets = [["small", "@OUT", 4, i, nsh, 6, vlib.SEED] for i in range(nsh)]
    else:
        sets = [["small", "@OUT", 5, i, nsh, 12, vlib.SEED] for i in range(nsh)]
    traces = c.drive(exe, sets, tag="small")
    # 3. random histories (2-D sides 2..12, 3-D), iterate+erase interleaved
    rsh = 4 if quick else 16
    for k, sd in enumerate(vlib.seeds(tier, 6)):
        traces += c.drive(exe, [["random", "@OUT", tier, sd, i, rsh] for i in range(rsh)], tag="rand%d" % k)
    bads = c.validate("KdTree", "Trace_KdTree", traces, timeout=2400, xmx="6g")
    c.judge(bads)
    c.exhaustive = True
    c.rule = ("small scope: every insertion sequence of <=3 grid points (3x3, ties and duplicates) followed by every "
              "erase order, plus a seeded sample of the length-4%s sequences, each fully observed (probe of all 9 "
              "points, all 256 boxes); random histories <=300 ops on grids of side 2..12 (2-D, 3-D, 4-D; unsigned 32/64-bit coordinates; inserts whose value copy throws) with "
              "iterate+erase; distinct = insertion-sequence tie/duplicate patterns + (operation, outcome) classes"
              % ("" if quick else "/5"))
    c.assumptions = ["entries are read by iterating the real tree; ASan/LSan sense memory errors (Crash events)"]
    return c.finish()
