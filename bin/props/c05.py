"""C05  JSON parser is total and standard-conformant; strict mode = no extensions (spec/Json)."""
from props import c04


def run(tier):
    return c04.run(tier, pid="C05", mode="parse")
