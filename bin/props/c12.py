"""C12  LRUSet / LRUMap = reference recency list (spec/Lru)."""
import json
import os
import re

import vlib


def tla_to_py(s):
    return json.loads(s.replace("<<", "[").replace(">>", "]"))


def make_table(out, path):
    """Convert the transition records TLC printed (PrintT(<<"T", pre, op, k, s, v, t, ret, post>>))
    into the flat text table the C++ walker loads."""
    states, ops, trans = {}, {}, {}

    def sid(l):
        key = json.dumps(l)
        if key not in states:
            states[key] = len(states)
        return states[key]
    sid([])
    for line in out.splitlines():
        if not line.startswith('"T '):
            continue
        rec = json.loads(json.loads(line)[2:])
        pre, op, k, s, v, t, ret, post = rec
        okey = (op, k, s, v, t)
        if okey not in ops:
            ops[okey] = len(ops)
        trans[(sid(pre), ops[okey])] = (sid(post), ret)
    with open(path, "w") as f:
        for key, i in states.items():
            l = json.loads(key)
            f.write("S %d %d %s\n" % (i, len(l), " ".join("%d %d %d" % tuple(e) for e in l)))
        for (op, k, s, v, t), i in ops.items():
            f.write("O %d %s %d %d %d %d\n" % (i, op, k, s, v, t))
        for (pre, op), (post, ret) in trans.items():
            f.write("T %d %d %d %d %s\n" % (pre, op, post, len(ret), " ".join(str(x) for x in ret)))
    assert len(trans) == len(states) * len(ops), "transition table incomplete"
    return len(states), len(ops), len(trans)


def run(tier):
    c = vlib.Check("C12", tier)
    exe = vlib.build(["drv_lru"])["drv_lru"]
    quick = tier == "quick"
    sd = os.path.join(vlib.VERIF, "spec", "Lru")

    # 1. MC: laws on the reference list (4 bounded models), with the transition table emitted
    walks = []
    combos = [(fl, two) for fl in ("set", "map") for two in (1, 2)]

    def mcjob(fl, two):
        return lambda: c.mc("Lru", "MC_Lru", "Gen_Lru_%s%d.cfg" % (fl, two), workers=1, timeout=600)
    for (fl, two), res in zip(combos, vlib.run_parallel([mcjob(fl, two) for fl, two in combos])):
        cfg = "Gen_Lru_%s%d.cfg" % (fl, two)
        tpath = os.path.join(c.scratch, "table_%s%d.txt" % (fl, two))
        ns, no, nt = make_table(res["out"], tpath)
        c.extra.setdefault("tables", []).append(dict(model=cfg, states=ns, ops=no, transitions=nt))
        if two == 1:
            depth = (4 if fl == "set" else 3) if quick else (5 if fl == "set" else 4)
        else:
            depth = 3 if quick else 4
        walks.append((fl, two, tpath, depth))

    # 2. GEN -> table walk: every path of the table up to depth D through the real containers
    bad_traces = []
    for fl, two, tpath, depth in walks:
        out = os.path.join(c.scratch, "walk_%s%d.ndjson" % (fl, two))
        cover = (1 if (two == 1 and fl == "set") else 0) if quick else ((2 if fl == "set" else 1) if two == 1 else 1)
        stats, r = c.run_driver(exe, ["walk", tpath, fl, depth, 1 if two == 2 else 0, out, cover], timeout=3000, check=False)
        if r.returncode != 0:
            with open(out, "a") as f:
                f.write(json.dumps({"e": "Crash", "rc": r.returncode, "mode": "walk %s%d" % (fl, two),
                                    "stderr": r.stderr[-1500:]}) + "\n")
            stats = {"paths": 0, "steps": 0, "mismatches": 1}
        c.extra.setdefault("table_walks", []).append(dict(flavor=fl, instances=two, **stats))
        c.evaluations += stats.get("steps", 0)
        c.traces += stats.get("paths", 0)
        if stats.get("mismatches", 0) or r.returncode != 0:
            bad_traces.append(out)

    # 3. TV: random histories -> TLC
    nsh = 4 if quick else 16
    traces = [os.path.join(c.scratch, "rand_%d.ndjson" % i) for i in range(nsh)]

    def mk(i):
        def f():
            stats, r = c.run_driver(exe, ["trace", traces[i], tier, vlib.SEED, i, nsh], check=False)
            if r.returncode != 0:
                with open(traces[i], "a") as fh:
                    fh.write(json.dumps({"e": "Crash", "rc": r.returncode, "stderr": r.stderr[-1500:]}) + "\n")
            return stats
        return f
    for st in vlib.run_parallel([mk(i) for i in range(nsh)]):
        c.add_stats(st)
    bads = c.validate("Lru", "Trace_Lru", traces + bad_traces, timeout=1200)
    c.judge(bads)
    c.rule = ("table walk: every operation path up to depth D of the bounded TLA+ model replayed into the real "
              "container (ASan), then every model state (pair of states for two instances) reached along a shortest path "
              "and every operation applied there followed by every suffix of <= 1-2 operations (transition coverage at any "
              "depth); random histories of 5..400 calls over 1..8 keys incl. swap; move / copy / argument-aliasing "
              "variants of insert rotate, values shifted onto the keys; distinct = "
              "(operation, container occupancy class, result class) combinations seen in random histories")
    c.exhaustive = True
    c.assumptions = ["projection reads head/tail/prev/next through a derived class",
                     "memory errors are sensed by AddressSanitizer/LeakSanitizer and reported as Crash events"]
    return c.finish()
