"""X02 (extension, not a listed property)  JSON as a mutable document: in-place operations through paths, with new
content taken from other parts of the same documents (spec/Json/JsonDoc)."""
import vlib


def run(tier):
    c = vlib.Check("X02", tier)
    exe = vlib.build(["drv_jsondoc"])["drv_jsondoc"]
    c.mc("Json", "MC_JsonDoc", "MC_JsonDoc.cfg", workers=8, timeout=1800)
    c.mc("Json", "MC_JsonDoc", "MC_JsonDoc_1.cfg", workers=8, timeout=1800)
    nsh = 8 if tier == "quick" else 16
    traces = []
    for k, sd in enumerate(vlib.seeds(tier, 6)):
        traces += c.drive(exe, [["@OUT", tier, sd, i, nsh] for i in range(nsh)], tag="jd%d" % k)
    bads = c.validate("Json", "Trace_JsonDoc", traces, timeout=3000, xmx="6g")
    c.judge(bads)
    c.rule = ("histories of 10..150 in-place operations on two documents (emplace_back, insert, emplace, erase, copy "
              "assignment, resize, clear, swap, size / empty / count / contains / front / back / ==) addressed through "
              "at() chains of depth <= 6; new content is a literal tree or a reference to any part of either document "
              "(the target itself, an ancestor, a member, the other document); both documents are compared with the "
              "model after every call; distinct = (operation, outcome, relation of source to target) classes")
    c.assumptions = ["resize(n, fill) with fill = the list itself or an ancestor of it, swap of a value with its own "
                     "ancestor / member, and front() / back() of an empty list are not driven (no defined meaning)",
                     "memory errors are sensed by AddressSanitizer / LeakSanitizer and reported as Crash events"]
    return c.finish()
