"""C01  typed binary writer/reader round trip and exact byte layout (spec/ByteIO)."""
import vlib


def run(tier, pid="C01", mode="rt"):
    c = vlib.Check(pid, tier)
    exe = vlib.build(["drv_byteio"])["drv_byteio"]
    quick = tier == "quick"
    c.mc("ByteIO", "MC_ByteIO", "MC_ByteIO.cfg", workers=8, timeout=1200)
    nsh = 4 if quick else 16
    traces = []
    for k, sd in enumerate(vlib.seeds(tier, 12)):
        traces += c.drive(exe, [[mode, "@OUT", tier, sd, i, nsh] for i in range(nsh)], tag="%s%d" % (mode, k))
    bads = c.validate("ByteIO", "Trace_ByteIO", traces, timeout=2400, xmx="6g")
    c.judge(bads)
    if mode == "rt":
        c.rule = ("random histories of appends / positional writes / raw, NUL-terminated and line blocks on "
                  "StringWriter, BufferWriter, BitWriter, read back in order through the matching accessors and "
                  "positionally through all 46 reader accessors (incl. 24/48-bit and sign-extending forms); every "
                  "writer and reader accessor additionally on single-lane patterns; readers / writers of 64, 128 and 192 KiB + "
                  "a few bytes (contents by a formula the specification evaluates) with every accessor at offsets around "
                  "the 2^16 / 2^17 marks and the end; back-reference writes from the writer's own buffer; distinct = accessor-name / "
                  "operation-outcome classes")
    else:
        c.rule = ("boundary sweep: buffer lengths {0,8} (thorough {0,1,2,7,8,64}) x all (offset,size) pairs from a "
                  "~20-value boundary set (0,1,n-1,n,n+1,2^31,2^32,2^63+-1,2^64-k) for every positional/cursor read "
                  "family, sub-readers, skip, peek; random cursor histories; BufferWriter and StringWriter "
                  "positional writes at boundary offsets; distinct = (accessor family, outcome, size class)")
        c.exhaustive = True
    c.assumptions = ["host is little-endian (logged in the trace header; the spec is parametric)",
                     "ASan build: an out-of-buffer access that ASan sees ends the driver => Crash event => rejected"]
    return c.finish()
