"""C06  image codecs: reference decoders for PNM / BMP, PNG validity, prefixes (spec/ImageCodec)."""
import vlib


def run(tier):
    c = vlib.Check("C06", tier)
    exe = vlib.build(["drv_imagecodec"])["drv_imagecodec"]
    c.mc("ImageCodec", "MC_ImageCodec", "MC_ImageCodec.cfg", workers=4, timeout=900)
    nsh = 12 if tier == "quick" else 16
    traces = []
    for k, sd in enumerate(vlib.seeds(tier, 20)):
        traces += c.drive(exe, [["@OUT", tier, sd, i, nsh] for i in range(nsh)], tag="img%d" % k)
    bads = c.validate("ImageCodec", "Trace_ImageCodec", traces, timeout=3400, xmx="6g")
    c.judge(bads)
    c.exhaustive = False
    c.rule = ("all sizes 1..5 x 1..5 (thorough 1..8 x 1..8) x alpha x channel width {8,16,32,64} plus sizes 9..64 incl. every "
              "residue of width mod 4: save as PPM/P7, BMP, PNG (string and FILE* entry points), reference-decode, load back; "
              "about 70 foreign container variants per size (P5/P6/P7 tuple types at 8..64-bit samples, BMP header sizes "
              "40..124, both row orders, 24/32-bit BI_RGB, all 24 BI_BITFIELDS byte-mask permutations); every prefix of "
              "every file up to 400 bytes (sampled beyond) from exact-size heap buffers under ASan + LSan; PNG save of noise "
              "images for EVERY (w, h, alpha) in 1..64 x 1..64 (validated in full for small and sampled sizes, and whenever "
              "save does not return normally); "
              "distinct = (operation, format, alpha, width, width mod 4 / outcome)")
    c.rule += " Every fourth prefix is also loaded by file name (both filename constructors) with the open descriptors counted."
    c.assumptions = ["zlib's uncompress is trusted to expose the PNG scanlines; CRCs, framing and IHDR are judged by the spec",
                     "pixel contents are sampled (random, ramp, extremes), not enumerated",
                     "dimensions above 64 are not driven"]
    return c.finish()
