"""C11  text encodings are exact inverses and strict (spec/TextEnc)."""
import os

import vlib


def run(tier):
    c = vlib.Check("C11", tier)
    exe = vlib.build(["drv_textenc"])["drv_textenc"]
    c.mc("TextEnc", "MC_TextEnc", workers=8, timeout=900)
    traces = c.drive(exe, [["@OUT", tier, sd] for sd in vlib.seeds(tier, 6)], tag="enc")
    c.traces = len(traces)
    lines = []
    for t in traces:
        ls = open(t).read().splitlines()
        lines += ls if not lines else ls[1:]
    nsh = 8 if tier == "quick" else 16
    shards = []
    for i in range(nsh):
        p = os.path.join(c.scratch, "shard_%d.ndjson" % i)
        with open(p, "w") as f:
            f.write(lines[0] + "\n" + "\n".join(lines[1:][i::nsh]) + "\n")
        shards.append(p)
    bads = c.validate("TextEnc", "Trace_TextEnc", shards, timeout=3000, xmx="6g")
    c.judge(bads)
    c.exhaustive = True
    c.rule = ("base64: every byte string of length 0..1, a dense grid of length 2 (thorough: all), 3k-65k of length 3, random "
              "longer, both alphabets interleaved in one process, encode = RFC 4648 and decode(encode) = identity; decode: "
              "every text of length 0..5 over a 6-8 symbol reduced alphabet (valid, pad, other-alphabet, invalid) and 8-symbol "
              "texts with every 5-symbol head / tail, single-symbol corruptions at every position, all 256 byte values at every position of five "
              "valid groups, alphabets alternating; "
              "rot13 and the three escapers on every single byte, the full byte table and random strings; netloc on 60 hosts "
              "x ports; distinct = (function, alphabet, flag) batches")
    c.assumptions = ["escape_quotes: 'no raw quote' is read as 'every quote is directly preceded by a backslash'",
                     "parse_netloc is called with default_port 0 (port 0 renders without a port)"]
    return c.finish()
