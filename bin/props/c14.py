"""C14  file and stream reads complete under any delivery; paths; scoped_fd; Poll (spec/FileIO)."""
import os

import vlib


def run(tier):
    c = vlib.Check("C14", tier)
    exe = vlib.build(["drv_fileio"])["drv_fileio"]
    for cfg in ("MC_FileIO_ra.cfg", "MC_FileIO_ra1.cfg", "MC_FileIO_fgets.cfg"):
        c.mc("FileIO", "MC_FileIO", cfg, workers=4, timeout=900)
    c.mc("FileIO", "MC_FileIO", "MC_FileIO_legacy.cfg", workers=4, timeout=600, expect_fail=True)
    work = os.path.join(c.scratch, "work")
    os.makedirs(work, exist_ok=True)
    works = []
    for k, sd in enumerate(vlib.seeds(tier, 8)):
        w = os.path.join(work, "r%d" % k)
        os.makedirs(w, exist_ok=True)
        works.append(["@OUT", tier, sd, w])
    traces = c.drive(exe, works, tag="fileio", timeout=2400)
    # shard the traces by Reset-delimited histories for parallel validation
    lines = []
    for t in traces:
        lines += open(t).read().splitlines()
    chunks, cur = [], []
    for ln in lines:
        if ln.startswith('{"e":"Reset"}') and cur:
            chunks.append(cur)
            cur = []
        cur.append(ln)
    if cur:
        chunks.append(cur)
    nsh = 8 if tier == "quick" else 16
    shards = []
    for i in range(nsh):
        p = os.path.join(c.scratch, "shard_%d.ndjson" % i)
        with open(p, "w") as f:
            f.write('{"e":"Reset"}\n')
            for ch in chunks[i::nsh]:
                f.write("\n".join(ch) + "\n")
        shards.append(p)
    bads = c.validate("FileIO", "Trace_FileIO", shards, timeout=2400, xmx="6g")
    c.judge(bads)
    c.exhaustive = True
    c.rule = ("read_all(fd) and read_all(FILE*): every delivery plan with chunks of 1..3 bytes for sizes 0..6 (thorough 9), "
              "random plans around 255/16384/32768 and up to 200 KiB, injected read errors; fgets(FILE*): line lengths "
              "around every multiple of 255 (thorough: every length 0..1100) with and without final newline under several "
              "chunkings; exact-size families with short first reads and early end; load_file(save_file) at block "
              "boundaries incl. shorter-over-longer; directory trees (incl. every 1..3-character name over {., a, -}); every path up to 5-7 symbols over {a,/,.}; random "
              "scoped_fd (incl. open() on live objects) and Poll histories; injected read errors of rotating errno kinds on "
              "descriptors and FILE* streams; trees with FIFOs, sockets and symbolic links (a link to a sibling directory with a sentinel); distinct = (operation, plan-length class, outcome) classes")
    c.assumptions = ["large results are compared with the source by memcmp in the harness (length and equality are logged)",
                     "closes of tracked descriptors are recorded by the interposed close() instead of being performed"]
    return c.finish()
