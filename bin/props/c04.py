"""C04  JSON serialize -> parse is the identity for every value and option set (spec/Json)."""
import vlib


def run(tier, pid="C04", mode="rt"):
    c = vlib.Check(pid, tier)
    exe = vlib.build(["drv_json"])["drv_json"]
    c.mc("Json", "MC_Json", "MC_Json.cfg" if tier == "quick" else "MC_Json_t.cfg", workers=12, timeout=2400)
    nsh = 12 if tier == "quick" else 16
    traces = []
    for k, sd in enumerate(vlib.seeds(tier, 8)):
        traces += c.drive(exe, [[mode, "@OUT", tier, sd, i, nsh] for i in range(nsh)], tag="%s%d" % (mode, k))
    bads = c.validate("Json", "Trace_Json", traces, timeout=3400, xmx="6g")
    c.judge(bads)
    if mode == "rt":
        c.rule = ("40 (thorough 1500) value trees built through the phosg API (all byte values in strings and keys incl. NUL, "
                  "INT64_MIN/MAX, floats with exponents -300..295 incl. those printed in exponent form, +-0.0, empty and "
                  "40-deep containers) x all 64 serialize option sets (thorough: all 64 on the first 60 trees, a rotating "
                  "subset afterwards): the text is read by the TLA+ RFC 8259 reader, by JSON::parse in default and strict "
                  "mode, re-serialized with sorted keys, copied, copy-assigned onto live destinations, onto itself and from its "
                  "own members; distinct = option sets exercised")
    else:
        c.rule = ("300 (thorough 5000) grammar-generated standard documents (all number shapes, every escape, whitespace in "
                  "all legal positions, nesting 500), the same with one documented extension applied, with trailing "
                  "garbage, single-byte edits, every prefix of 12 documents, truncations, random texts, inputs ending "
                  "inside a comment marker or escape; each through {default, strict} x {reader, ptr+size, string} with the "
                  "text in an exact-size heap buffer (ASan); distinct = (label, default outcome, strict outcome) classes")
    c.assumptions = ["doubles are compared at six significant digits via libc %.5e (exact half-way cases accept both roundings)",
                     "documents with duplicate keys, numbers outside int64 / 1e+-300, or \\u escapes above U+00FF have no "
                     "reference value: totality only"]
    return c.finish()
