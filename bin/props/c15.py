"""C15  subprocess I/O complete and deadlock-free (spec/Subprocess)."""
import glob
import os

import vlib


def run(tier):
    c = vlib.Check("C15", tier)
    exes = vlib.build(["drv_subprocess", "verif_child"])
    quick = tier == "quick"
    sd = os.path.join(vlib.VERIF, "spec", "Subprocess")
    cfgs = sorted(os.path.basename(x) for x in glob.glob(os.path.join(sd, "MC_SP_*.cfg")) if "legacy" not in x)
    if quick:
        cfgs = [x for x in cfgs if not x.endswith("_2.cfg")]
    vlib.run_parallel([(lambda cf: (lambda: c.mc("Subprocess", "MC_Subprocess", cf, workers=2, timeout=900)))(cf)
                       for cf in cfgs], jobs=8)
    for leg in ("MC_SP_legacy_nodrain.cfg", "MC_SP_legacy_leak.cfg", "MC_SP_legacy_comm_nodrain.cfg", "MC_SP_legacy_noescalate.cfg", "MC_SP_legacy_dtorterm.cfg", "MC_SP_legacy_assignleak.cfg"):
        c.mc("Subprocess", "MC_Subprocess", leg, workers=2, timeout=600, expect_fail=True)
    nsh = 16
    traces = c.drive(exes["drv_subprocess"], [["@OUT", tier, vlib.SEED, exes["verif_child"], i, nsh] for i in range(nsh)],
                     tag="sp", timeout=3000)
    bads = c.validate("Subprocess", "Trace_Subprocess", traces, timeout=1200)
    # a hang is reported only if the same shard hangs again (timing is never an oracle)
    hangs = [b for b in bads if b.get("event", {}).get("e") == "Hang"]
    if hangs:
        files = sorted(set(b["file"] for b in hangs))
        idx = [int(os.path.basename(f).split("_")[1].split(".")[0]) for f in files]
        again = c.drive(exes["drv_subprocess"], [["@OUT", tier, vlib.SEED, exes["verif_child"], i, nsh] for i in idx],
                        tag="sprerun", timeout=3000)
        bads2 = c.validate("Subprocess", "Trace_Subprocess", again, timeout=1200)
        hang_keys = set((b["event"].get("prog"), b["event"].get("payload"), b["event"].get("delay"), b["event"].get("api"))
                        for b in bads2 if b.get("event", {}).get("e") == "Hang")
        bads = [b for b in bads if b.get("event", {}).get("e") != "Hang" or
                (b["event"].get("prog"), b["event"].get("payload"), b["event"].get("delay"), b["event"].get("api")) in hang_keys]
    c.judge(bads)
    c.rule = ("14 child programs (read-all-then-write, write-then-read, cat, quick exit, large output, slow reader, pause "
              "then write, output just before exit, closes stdout / stdin early, killed by signal, ...) x payloads "
              "{none, 0, 1, 4096, 65537, 1 MiB} (thorough: 11 sizes) x delay plans at the parent's waitpid/poll/read "
              "(none, 80 ms before the first waitpid, 15 ms before every waitpid, 10 ms before every poll), for "
              "run_process (check on/off) and communicate; timeouts; repeated calls; Subprocess objects destroyed or re-assigned with the child alive (asleep, ignoring SIGTERM, blocked) or gone; each in a forked driver with a 40 s "
              "watchdog; distinct = (api, payload class, delay kind, program shape)")
    c.assumptions = ["SIGPIPE is ignored by the caller (as any user of pipes must)",
                     "content of large outputs is compared with the stream pattern by the harness; volumes and status are "
                     "computed by the specification from the child's program",
                     "a watchdog expiry counts only if the same scenario hangs again on an immediate re-run"]
    return c.finish()
