"""C02  bounds-checked readers/writers never leave their buffer (spec/ByteIO, bounds layer)."""
from props import c01


def run(tier):
    return c01.run(tier, pid="C02", mode="bounds")
