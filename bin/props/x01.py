"""X01 (extension, not a listed property)  JSON value layer: ordering, relational operators, accessors (spec/Json/JsonValue)."""
import vlib


def run(tier):
    c = vlib.Check("X01", tier)
    exe = vlib.build(["drv_jsonvalue"])["drv_jsonvalue"]
    c.mc("Json", "MC_JsonValue", "MC_JsonValue.cfg", workers=8, timeout=1800)
    nsh = 8 if tier == "quick" else 16
    traces = []
    for k, sd in enumerate(vlib.seeds(tier, 4)):
        traces += c.drive(exe, [["@OUT", tier, sd, i, nsh] for i in range(nsh)], tag="jv%d" % k)
    bads = c.validate("Json", "Trace_JsonValue", traces, timeout=3000, xmx="6g")
    c.judge(bads)
    c.rule = ("pools of 50 (thorough 200) value trees of depth <= 3 (null, bools, small and large ints, halves, NaN, strings "
              "incl. NUL and 0xFF bytes, lists, dicts) and copies: operator<=> and the six relational operators on sampled "
              "(thorough: all) ordered pairs and against int / double / NaN / bool / nullptr / string / C-string primitives; "
              "as_* for all six kinds; size; at / get_bool / get_int / get_float / get_string by key and by index, with and "
              "without defaults; get(key, default); distinct = (event, outcome) classes")
    c.assumptions = ["numbers stay below 2^30 so that int/double conversion is exact",
                     "as_int of NaN is undefined behaviour and not driven"]
    return c.finish()
