"""C16  parallel_range under all schedules (spec/ParallelRange)."""
import re

import vlib


def run(tier):
    c = vlib.Check("C16", tier)
    exes = vlib.build(["drv_pr", "drv_prfree"])
    quick = tier == "quick"
    # 1. MC: every interleaving of the modelled algorithm, every TrueSet, incl. liveness
    cfgs = ["MC_PR_range2.cfg", "MC_PR_range3.cfg", "MC_PR_blocks2.cfg", "MC_PR_multi2.cfg", "MC_PR_wrap.cfg"]
    if not quick:
        cfgs += ["MC_PR_range3_t.cfg", "MC_PR_blocks3_t.cfg", "MC_PR_multi3_t.cfg"]
    vlib.run_parallel([(lambda cf: (lambda: c.mc("ParallelRange", "MC_ParallelRange", cf, workers=4, timeout=2400)))(cf)
                       for cf in cfgs], jobs=4)
    # regression model: the former fetch_add algorithm with a small modulus must violate the property
    c.mc("ParallelRange", "MC_ParallelRange", "MC_PR_legacy.cfg", workers=4, timeout=600, expect_fail=True)
    # 2. systematic schedules on the real templates (controlled scheduler)
    sets = []
    nsh = 4 if quick else 16
    for variant in ("range", "blocks", "multi"):
        for i in range(nsh if variant == "range" else max(2, nsh // 2)):
            n = nsh if variant == "range" else max(2, nsh // 2)
            sets.append(["dfs", "@OUT", variant, 2, 3 if variant == "range" else 4 if not quick else 2,
                         100000 if not quick else 20000, i, n])
    if not quick:
        for i in range(16):
            sets.append(["dfs", "@OUT", "range", 3, 2, 200000, i, 16])
    for k, variant in enumerate(("range", "blocks", "multi")):
        sets.append(["rand", "@OUT", variant, 3, 4, 300 if quick else 6000, vlib.SEED * 10 + k])
        sets.append(["rand", "@OUT", variant, 4, 4, 100 if quick else 2000, vlib.SEED * 10 + k + 5])
    sets.append(["wrap", "@OUT", 400 if quick else 8000, vlib.SEED])
    sets.append(["signed", "@OUT", 300 if quick else 6000, vlib.SEED + 3])
    traces = c.drive(exes["drv_pr"], sets, tag="sched", timeout=2400)
    # 3. free-running stress under ThreadSanitizer
    fsh = 2 if quick else 8
    traces += c.drive(exes["drv_prfree"], [["@OUT", 100 if quick else 700, vlib.SEED * 100 + i] for i in range(fsh)],
                      tag="free", timeout=2400, env={"TSAN_OPTIONS": "halt_on_error=1:exitcode=66"})
    # 4. unbounded ranges: inductive invariants of the claim protocol discharged by Apalache (any Start..End, any number of
    #    steps; fixed worker count / block size).  About the specification only; thorough tier.
    if not quick:
        import os as _os
        ind = _os.path.join(vlib.VERIF, "spec", "ParallelRange", "ind")
        jobs = [("PRInd.tla", {"T == 1..3 ": "T == 1..%d " % n}, dict(workers=n, block=1)) for n in (2, 3, 5)]
        jobs += [("PRIndBlocks.tla", {"BLK == 2": "BLK == %d" % b, "T == 1..3": "T == 1..%d" % n}, dict(workers=n, block=b))
                 for (b, n) in ((2, 3), (3, 3), (4, 2))]
        res = vlib.run_parallel([(lambda m=m, sb=sb: vlib.apalache_inductive(_os.path.join(ind, m), sb)) for m, sb, _ in jobs], jobs=3)
        proofs = [dict(module=m, **meta, **r) for (m, _, meta), r in zip(jobs, res)]
        c.extra["inductive_invariants_apalache"] = proofs
        c.extra["obligations"] = 2 * len(proofs)
        c.extra["discharged"] = sum((p["base"] == "NoError") + (p["step"] == "NoError") for p in proofs)
        for p in proofs:
            if not p["ok"]:
                vlib.log("note: Apalache obligation not discharged for %s: %s" % (p["module"], p))
    bads = c.validate("ParallelRange", "Trace_ParallelRange", traces, timeout=2400, xmx="6g")
    c.judge(bads)
    c.exhaustive = True
    c.rule = ("every schedule (DFS over the scheduler's decisions at each atomic operation) of 2 threads over ranges "
              "<=3 (blocks/multi <=2 quick, <=4 thorough) for every TrueSet, 3 threads over ranges <=2 (thorough), "
              "random schedules for 3-4 threads, uint8_t ranges ending at 254/255, int64_t / int8_t ranges below and across zero and at the int8_t extremes, free runs under TSan with 1..16 "
              "threads; distinct = (variant, range length, block, |TrueSet|[, schedule length class]) classes")
    c.rule += (" Signed and narrow types: int8_t ranges wider than 127, ranges ending 0..threads*block+1 below the maximum of "
               "uint8_t / uint32_t / uint64_t / int32_t / int64_t (wide types logged relative to a base).")
    c.assumptions = ["std::atomic operations are sequentially consistent single steps (validated by TSan free runs)",
                     "compare_exchange_weak does not fail spuriously in the shim (a spurious failure only retries)"]
    return c.finish()
