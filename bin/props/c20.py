"""C20  integer, vector and matrix helpers satisfy their defining equations (spec/MathVec)."""
import json
import os

import vlib


def run(tier):
    c = vlib.Check("C20", tier)
    exe = vlib.build(["drv_mathvec"])["drv_mathvec"]
    c.mc("MathVec", "MC_MathVec", workers=8, timeout=900)
    traces = c.drive(exe, [["@OUT", tier, sd] for sd in vlib.seeds(tier, 12)], tag="math")
    c.traces = len(traces)
    lines = []
    for t in traces:
        ls = open(t).read().splitlines()
        lines += ls if not lines else ls[1:]
    nsh = 8 if tier == "quick" else 16
    shards = []
    for i in range(nsh):
        p = os.path.join(c.scratch, "shard_%d.ndjson" % i)
        with open(p, "w") as f:
            f.write(lines[0] + "\n" + "\n".join(lines[1:][i::nsh]) + "\n")
        shards.append(p)
    bads = c.validate("MathVec", "Trace_MathVec", shards, timeout=3000, xmx="6g")
    c.judge(bads)
    c.rule = ("gcd / reduce_fraction on [0,300]^2 (dense near 0) for six integer types and on boundary / structured wide "
              "operands (BigNat binary gcd); log2i on every power of two, +-1 and neighbours for all eight types; random_int "
              "on boundary and random (lo,hi) with 20k-100k draws; random_data request sequences around the 4096-byte refill "
              "on fresh threads; Vector2 exhaustively for components in [-4,4], Vector3/4 sampled pairs, every operator; "
              "random small-integer matrices; strictly diagonally dominant matrices for inversion (12-digit fixed point), "
              "every fourth scaled by 2^k, |k| <= 200; "
              "distinct = (operation, type) batches")
    c.assumptions = ["inverse() results are logged as llround(x * 1e12) split in two halves (trusted: libm llround)",
                     "random_data 'filled' means: no requested byte kept its pre-fill value in all six differently pre-filled calls"]
    return c.finish()
