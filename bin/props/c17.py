"""C17  command-line arguments: classification, typed getters, used flags (spec/Args)."""
import vlib


def run(tier):
    c = vlib.Check("C17", tier)
    exe = vlib.build(["drv_args"])["drv_args"]
    quick = tier == "quick"
    c.mc("Args", "MC_Args", workers=8, timeout=1500)
    nsh = 4 if quick else 16
    sets = [["lists", "@OUT", 2 if quick else 3, i, nsh, vlib.SEED] for i in range(nsh)]
    lo, hi = (-1000, 1000) if quick else (-70000, 70000)
    sets += [["ints", "@OUT", lo, hi, i, nsh] for i in range(nsh)]
    traces = c.drive(exe, sets, tag="args")
    bads = c.validate("Args", "Trace_Args", traces, timeout=3000, xmx="6g")
    c.judge(bads)
    c.exhaustive = True
    c.rule = ("every token list of <=%d tokens over an 18-token grammar (all five shapes, empty token, repeated flags, "
              "'=' forms) with random getter sequences and assert_none_unused, used flags compared after every call; "
              "every integer text n in [%d,%d] in decimal / 0x-hex / bare-hex / octal form plus ~85 boundary and "
              "malformed texts (2^31, 2^32, 2^63, 2^64, 10^23, blanks, signs, garbage) x 8 integer types x 4 formats; "
              "distinct = (getter kind, type, outcome) classes" % (2 if quick else 3, lo, hi))
    c.rule += " Float getters: 62 texts incl. decimal literals next to the midpoint of two adjacent doubles (exact bit patterns)."
    c.assumptions = ["float values are compared at 9 significant digits (libc %.8e) for double getters only",
                     "64-bit targets: outcomes for magnitudes >= 2^63 are unconstrained, as in the statement",
                     "tokenisation of a one-string command line is split_args (decided under C08)"]
    return c.finish()
