"""C07  canvas operations equal a per-pixel reference model (spec/Canvas)."""
import vlib


def run(tier):
    c = vlib.Check("C07", tier)
    exe = vlib.build(["drv_canvas"])["drv_canvas"]
    c.mc("Canvas", "MC_Canvas", "MC_Canvas.cfg", workers=12, timeout=1500)
    nsh = 10 if tier == "quick" else 16
    traces = []
    for k, sd in enumerate(vlib.seeds(tier, 20)):
        traces += c.drive(exe, [["@OUT", tier, sd, i, nsh] for i in range(nsh)], tag="canvas%d" % k)
    bads = c.validate("Canvas", "Trace_Canvas", traces, timeout=3400, xmx="6g")
    c.judge(bads)
    c.exhaustive = True
    c.rule = ("exhaustive 1-D sweeps (destination widths 0..4, thorough 0..8; source widths {0,1,3,4}; every x in [-3,w+3], "
              "width in {-1,0,1,2,5}, source offset in [-3,sw+1]; horizontal and vertical) over the seven blit kinds and "
              "fill_rect; random histories of 5..30 operations on canvases 0..8 x 0..8 with coordinates up to +-10^9 "
              "(pixel access, fill, all blits incl. image masks, dashed lines, Bresenham lines judged by the line law, "
              "mirror / invert / alpha / channel-width identities, deep copies); clipping invariance of draw_text, fill_rect "
              "and blit against a canvas enlarged by 9 pixels per side, with character cells placed exactly on the right and "
              "bottom edges; distinct = (operation, outcome / placement class)")
    c.assumptions = ["the per-pixel arithmetic model covers 8-bit channels; other widths are exercised through the identity laws and as image masks (pixels white under only one reading of white are not generated)",
                     "coordinates are limited to +-10^9 so that the checker's 32-bit integers cannot overflow",
                     "draw_line with an endpoint outside the canvas may draw any subset of the ideal segment (DESIGN 4.2)"]
    return c.finish()
