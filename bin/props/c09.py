"""C09  data strings and hex dumps decode back (spec/DataText)."""
import vlib


def run(tier):
    c = vlib.Check("C09", tier)
    exe = vlib.build(["drv_datatext"])["drv_datatext"]
    c.mc("DataText", "MC_DataText", workers=8, timeout=1500)
    nsh = 8 if tier == "quick" else 16
    traces = []
    for k, sd in enumerate(vlib.seeds(tier, 10)):
        traces += c.drive(exe, [["@OUT", tier, sd, i, nsh] for i in range(nsh)], tag="dt%d" % k)
    bads = c.validate("DataText", "Trace_DataText", traces, timeout=3400, xmx="6g")
    c.judge(bads)
    c.rule = ("format_data_string: every byte string of length <=1, all pairs over 21 syntax-relevant characters, random "
              "strings up to 600 bytes x 4 mask styles x both flags, decoded by the TLA+ parser and by parse_data_string; parser: "
              "grammar-generated texts over 57 atoms (every documented construct), single edits, truncations, random bytes, "
              "in exact-size heap buffers under ASan; hex dumps: 260 (thorough 4000) buffers x 12 start addresses (aligned, "
              "unaligned, around 2^32, near 2^64) x 15 flag sets x colour/diff mode, each re-dumped under 2-4-way iovec "
              "partitions and through the other entry points; all 2^L zero / non-zero line patterns (L = 3..5) with the "
              "collapse flag, half against an all-zero previous version; distinct = (function, flag set, diff mode, alignment) classes")
    c.assumptions = ["float/double columns of the dump are checked for geometry only",
                     "% float literals are evaluated by the specification for a fixed table of literals; other literals and "
                     "numerals outside [+-]?(0x..|0..|dec) make the expected bytes unconstrained (totality only)"]
    return c.finish()
