"""C03  endian-explicit scalars and bswap/ext helpers (spec/Endian)."""
import vlib


def run(tier):
    c = vlib.Check("C03", tier)
    exe = vlib.build(["drv_endian"])["drv_endian"]
    c.mc("Endian", "MC_Endian", workers=8, timeout=900)
    traces = c.drive(exe, [["@OUT", tier, sd] for sd in vlib.seeds(tier, 3)], tag="endian")
    c.traces = len(traces)
    # split the (large) traces into shards of lines so that 16 TLC processes validate in parallel
    import os
    head, body = None, []
    for t in traces:
        lines = open(t).read().splitlines()
        head = head or lines[0]
        body += lines[1:]
    nsh = 8 if tier == "quick" else 16
    shards = []
    for i in range(nsh):
        p = os.path.join(c.scratch, "shard_%d.ndjson" % i)
        with open(p, "w") as f:
            f.write(head + "\n")
            f.write("\n".join(body[i::nsh]) + "\n")
        shards.append(p)
    bads = c.validate("Endian", "Trace_Endian", shards, timeout=2400, xmx="8g")
    c.judge(bads)
    c.rule = ("all 24 wrapper types x 18 operators (11 for float types) x boundary-set^2 operand pairs (+ random), "
              "compound assignments with int32/int64/double operands, exhaustive 16-bit unary/assign batches, "
              "exhaustive bswap16/sign_extend from 8 and 16 bits, stratified samples (3k quick / 200k thorough per "
              "helper) for 24/32/48/64-bit bswap*, ext24/48, sign_extend; distinct = (type, operator) and helper names")
    c.assumptions = ["native results are produced by the same C++ operator on a plain T in the harness",
                     "not exhaustive above 16 bits (stratified sampling)"]
    return c.finish()
