"""X03 (extension, not a listed property)  BitmapImage: the one-bit-per-pixel canvas as packed rows (spec/Canvas/Bitmap)."""
import vlib


def run(tier):
    c = vlib.Check("X03", tier)
    exe = vlib.build(["drv_bitmap"])["drv_bitmap"]
    c.mc("Canvas", "MC_Bitmap", "MC_Bitmap.cfg", workers=4, timeout=900)
    c.mc("Canvas", "MC_Bitmap", "MC_Bitmap_2.cfg", workers=4, timeout=900)
    nsh = 8 if tier == "quick" else 16
    traces = []
    for k, sd in enumerate(vlib.seeds(tier, 4)):
        traces += c.drive(exe, [["@OUT", tier, sd, i, nsh] for i in range(nsh)], tag="bm%d" % k)
    bads = c.validate("Canvas", "Trace_Bitmap", traces, timeout=3000, xmx="6g")
    c.judge(bads)
    c.rule = ("histories of 10..80 calls on two BitmapImage objects of widths 0..31 and heights 0..4: construction, copy / "
              "move construction and assignment, loading from FILE* / file name (complete, over-long and short files), "
              "write_pixel / read_pixel inside, at the edge and far outside, clear, invert, write_row with 0..row+2 bytes "
              "given as bits (exactly-sized heap buffer under AddressSanitizer), ==, !=, to_color with and without alpha; "
              "both bitmaps (width, height, empty, get_data_size, packed rows including padding bits) are compared with "
              "the model after every call; distinct = (operation, outcome, width mod 8) classes")
    c.assumptions = ["copy assignment of a bitmap to itself is not driven (frees the rows before copying them; outside every "
                     "listed statement, see DESIGN section 8)",
                     "memory errors are sensed by AddressSanitizer / LeakSanitizer and reported as Crash events"]
    return c.finish()
