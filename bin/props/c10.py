"""C10  hash functions equal their published definitions and chain (spec/Hash)."""
import vlib


def run(tier):
    c = vlib.Check("C10", tier)
    exe = vlib.build(["drv_hash"])["drv_hash"]
    c.mc("Hash", "MC_Hash", workers=8, timeout=1500)
    nsh = 12 if tier == "quick" else 16
    traces = c.drive(exe, [["@OUT", tier, vlib.SEED, i, nsh] for i in range(nsh)], tag="hash")
    bads = c.validate("Hash", "Trace_Hash", traces, timeout=3400, xmx="6g")
    c.judge(bads)
    c.exhaustive = True
    c.rule = ("MD5 / SHA-1 / SHA-256 (binary and hex) and CRC-32 / FNV-1a 32 / 64 on every length 0..130 (thorough 0..300 x 4 "
              "fill patterns), lengths around 184/248/256/512, 4 KiB..64 KiB (thorough; checksums to 1 MiB); seeded CRC / FNV "
              "at every split point (incl. empty prefix, empty suffix, empty middle chunk) of 12-64 random messages; "
              "distinct = functions")
    c.assumptions = ["constant tables of the specification are generated from the published formulas by bin/gen_hash_spec.py",
                     "long messages are regenerated inside the specification from (kind, length, seed) closed forms"]
    return c.finish()
