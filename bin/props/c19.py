"""C19  expectation helpers are a sound and complete oracle (spec/Expect)."""
import vlib


def run(tier):
    c = vlib.Check("C19", tier)
    exe = vlib.build(["drv_expect"])["drv_expect"]
    c.mc("Expect", "MC_Expect", workers=2, timeout=300)
    traces = c.drive(exe, [["@OUT"]], tag="expect")
    bads = c.validate("Expect", "Trace_Expect", traces, timeout=600)
    c.judge(bads)
    c.exhaustive = True
    c.rule = ("the whole 10 x 12 matrix (expected type E x behaviour of fn: returns, throws int, throws each of ten types "
              "incl. expectation_failed itself and a type outside std::exception; seven what() texts incl. % sequences), and the six relation macros plus "
              "expect/expect_msg over all operand pairs from boundary sets of int64, uint64, int, string, double and "
              "float (incl. NaN, +-inf, -0.0, denormal); everything in four calling contexts (plain, inside a catch handler, from a destructor during stack unwinding, from a destructor on normal exit); distinct = (helper, outcome) classes")
    c.assumptions = ["operands are identified by their rank in the (sorted) boundary set"]
    return c.finish()
