"""C18  time, duration and size formatting is total and value-faithful (spec/TimeFmt)."""
import vlib


def run(tier):
    c = vlib.Check("C18", tier)
    exe = vlib.build(["drv_timefmt"])["drv_timefmt"]
    c.mc("TimeFmt", "MC_TimeFmt", workers=8, timeout=900)
    nsh = 8 if tier == "quick" else 16
    traces = []
    for k, sd in enumerate(vlib.seeds(tier, 20)):
        traces += c.drive(exe, [["@OUT", tier, sd, i, nsh] for i in range(nsh)], tag="time%d" % k)
    bads = c.validate("TimeFmt", "Trace_TimeFmt", traces, timeout=3000, xmx="6g")
    c.judge(bads)
    c.rule = ("durations around every unit boundary (1 s, 10 s, 60 s, 600 s, 1 h, 10 h, 1 d, 10 d, 100 d) +-20 us densely and "
              "+-2 s at a coarser step, every seconds-in-minute value 0..61 x rounding-critical fractions in every branch, powers "
              "of ten, random up to 2^63, x precision -1..6; timestamps at day boundaries +-1 us, second 59, leap days, random "
              "days 1970..9999; sizes at every power of 1024 +-2, rounding-critical values, random; timeval conversions; "
              "distinct = (function, precision / flag) batches")
    c.assumptions = ["sizes >= 15.99 EB print '16.00 EB', which parse_size cannot represent in 64 bits: not driven",
                     "a seconds field of 60 produced by rounding is accepted (value and padding are what the statement fixes)"]
    return c.finish()
