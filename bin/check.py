#!/usr/bin/env python3
"""Entry point:  check.py <ID> [--tier quick|thorough] [--replay <file>] | --setup"""
import importlib
import json
import os
import sys

sys.path.insert(0, os.path.dirname(os.path.abspath(__file__)))
import vlib  # noqa: E402
import drivers  # noqa: E402,F401  (registers driver build recipes)


def setup():
    # build every driver once and parse every specification
    import glob
    import subprocess
    vlib.build(sorted(n for n in vlib.DRIVERS if os.path.exists(os.path.join(vlib.VERIF, "harness", n + ".cc"))))
    bad = 0
    for f in sorted(glob.glob(os.path.join(vlib.VERIF, "spec", "*", "*.tla"))):
        if os.path.basename(os.path.dirname(f)) == "lib":
            continue
        r = subprocess.run(["java", "-cp", vlib.TLA_JAR + ":" + vlib.TLA_CM, "-DTLA-Library=" +
                            os.path.join(vlib.VERIF, "spec", "lib"), "tla2sany.SANY", os.path.basename(f)],
                           cwd=os.path.dirname(f), stdout=subprocess.PIPE, stderr=subprocess.STDOUT, text=True)
        if r.returncode != 0 or "error" in r.stdout.lower().replace("errors: 0", ""):
            if "Semantic errors" in r.stdout or "Parse Error" in r.stdout or "Fatal" in r.stdout or r.returncode:
                print("SANY failed for", f)
                print(r.stdout[-2000:])
                bad += 1
    return 1 if bad else 0


def main():
    args = sys.argv[1:]
    if args and args[0] == "--setup":
        return setup()
    pid = args[0]
    tier = os.environ.get("VERIF_TIER", "quick")
    replay = None
    i = 1
    while i < len(args):
        if args[i] == "--tier":
            tier = args[i + 1]
            i += 2
        elif args[i] == "--replay":
            replay = args[i + 1]
            i += 2
        else:
            i += 1
    mod = importlib.import_module("props." + pid.lower())
    if replay:
        rec = json.load(open(replay))
        print(json.dumps({k: v for k, v in (rec.get("verdict") or {}).items() if k != "event"}, indent=1)[:3000])
        if hasattr(mod, "replay"):
            return mod.replay(rec)
        return vlib.replay(rec)
    return mod.run(tier)


if __name__ == "__main__":
    vlib.main_wrapper(main)
