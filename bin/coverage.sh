#!/bin/bash
# coverage.sh [tier]: line coverage of the phosg sources reached by the conformance drivers (development aid, not a check).
# Builds a scratch copy of /repo with gcov instrumentation, runs every check's quick tier against it, writes
# /verif/doc/coverage.txt (uncovered line ranges of the anchored files), removes the scratch copy and its build.
tier=${1:-quick}
W=/tmp/vcov-$$
rsync -a --exclude _build --exclude .git /repo/ $W/
export VERIF_REPO=$W VERIF_EXTRA_CFLAGS="--coverage" VERIF_EVIDENCE_DIR=$W/_ev VERIF_REPLAY_DIR=$W/_ev
cd /verif
for id in C01 C02 C03 C04 C05 C06 C07 C08 C09 C10 C11 C12 C13 C14 C15 C16 C17 C18 C19 C20 X01; do
  timeout 3000 python3 bin/check.py $id --tier $tier 2>&1 | tail -n 1 | cut -c1-120
done
key=$(python3 -c "import hashlib,os;print(hashlib.sha1(os.path.realpath('$W').encode()).hexdigest()[:10])")
B=/verif/build/$key
mkdir -p $W/_gcov && cd $W/_gcov
for v in plain asan tsan; do
  [ -d $B/$v ] || continue
  for g in $B/$v/*.gcda; do gcov -o $B/$v $g >/dev/null 2>&1; mkdir -p $v; mv *.gcov $v/ 2>/dev/null; done
done
python3 - "$W" <<'PY' > /verif/doc/coverage.txt
import glob,os,re,sys,collections
W=sys.argv[1]
cov=collections.defaultdict(dict)   # file -> line -> max count
for f in glob.glob(W+"/_gcov/*/*.gcov"):
    src=None
    for ln in open(f,errors="replace"):
        m=re.match(r"\s*([^:]+):\s*(\d+):(.*)",ln)
        if not m: continue
        cnt,no,text=m.group(1).strip(),int(m.group(2)),m.group(3)
        if no==0:
            if text.startswith("Source:"): src=text[7:]
            continue
        if src is None or "/src/" not in src: continue
        key=os.path.basename(src)
        if cnt=="-": continue
        c=0 if cnt.startswith("#") or cnt.startswith("=") else int(re.sub(r"\D","",cnt) or 0)
        cov[key][no]=max(cov[key].get(no,0),c)
print("Line coverage of phosg sources by the conformance drivers (quick tier); uncovered executable line ranges per file")
for key in sorted(cov):
    lines=cov[key]; tot=len(lines); hit=sum(1 for v in lines.values() if v>0)
    unc=sorted(n for n,v in lines.items() if v==0)
    rs=[]; 
    for n in unc:
        if rs and n<=rs[-1][1]+2: rs[-1][1]=n
        else: rs.append([n,n])
    print("%-22s %5d/%5d %5.1f%%  uncovered: %s"%(key,hit,tot,100.0*hit/max(tot,1)," ".join("%d-%d"%(a,b) if a!=b else str(a) for a,b in rs)))
PY
rm -rf $B $W
echo "written /verif/doc/coverage.txt"
