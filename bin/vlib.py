#!/usr/bin/env python3
"""Shared glue for the phosg TLA+ verification checks (stdlib only).

Glue only: it builds the harness against the repository's *current working
tree*, runs drivers, runs TLC, collects the verdicts TLC printed, matches them
against known_findings.json and writes evidence.  It is never an oracle: every
VIOLATION originates from a line printed by TLC while evaluating a TLA+
specification (a `BAD` record from a trace specification, or a violated
invariant / property of a model-checking run).
"""
import fcntl
import hashlib
import json
import os
import re
import shutil
import subprocess
import sys
import time

VERIF = os.path.dirname(os.path.dirname(os.path.abspath(__file__)))
REPO = os.environ.get("VERIF_REPO", "/repo")
SEED = int(os.environ.get("VERIF_SEED", "1") or "1")


def seeds(tier, n_thorough):
    """Seeds of the random parts: one round in the quick tier, n rounds (distinct seeds) in the thorough tier."""
    global ROUNDS
    n = 1 if tier == "quick" else int(os.environ.get("VERIF_ROUNDS", n_thorough))
    ROUNDS = max(ROUNDS, n)
    return [SEED + 7919 * k for k in range(n)]


ROUNDS = 1
JOBS = int(os.environ.get("VERIF_JOBS", "0") or "0") or (os.cpu_count() or 4)
TLA_JAR = "/opt/veriftools/tla/tla2tools.jar"
TLA_CM = "/opt/veriftools/tla/CommunityModules-deps.jar"

LIB_SOURCES = ["Arguments", "Encoding", "Filesystem", "Hash", "Image", "JSON", "Network",
               "Process", "Random", "Strings", "Time", "Tools", "UnitTest"]

VARIANTS = {
    "plain": "-O1 -g",
    "asan": "-O1 -g -fno-omit-frame-pointer -fsanitize=address,undefined "
            "-fno-sanitize=signed-integer-overflow,alignment,shift,float-cast-overflow,vptr "
            "-fno-sanitize-recover=undefined",
    "tsan": "-O1 -g -fsanitize=thread",
}

# driver name -> dict(variant, extra compile flags, extra link flags, links phosg lib?)
DRIVERS = {}


def driver(name, variant="plain", cflags="", ldflags="", lib=True):
    DRIVERS[name] = dict(variant=variant, cflags=cflags, ldflags=ldflags, lib=lib)


def log(*a):
    print(*a, file=sys.stderr, flush=True)


def repo_key():
    return hashlib.sha1(os.path.realpath(REPO).encode()).hexdigest()[:10]


def build_root():
    return os.path.join(VERIF, "build", repo_key())


def scratch_dir(name):
    d = os.path.join(build_root(), "scratch", name)
    shutil.rmtree(d, ignore_errors=True)
    os.makedirs(d, exist_ok=True)
    return d


def _write_if_changed(path, text):
    try:
        if open(path).read() == text:
            return
    except OSError:
        pass
    with open(path, "w") as f:
        f.write(text)


def build(names):
    """Build the named drivers (and the phosg objects they need) from REPO's
    working tree.  Incremental through ninja + gcc depfiles."""
    root = build_root()
    os.makedirs(root, exist_ok=True)
    inc = os.path.join(root, "inc")
    os.makedirs(inc, exist_ok=True)
    link = os.path.join(inc, "phosg")
    target = os.path.join(os.path.realpath(REPO), "src")
    if not (os.path.islink(link) and os.readlink(link) == target):
        try:
            os.unlink(link)
        except OSError:
            pass
        os.symlink(target, link)
    by_variant = {}
    for n in names:
        by_variant.setdefault(DRIVERS[n]["variant"], []).append(n)
    out = {}
    with open(os.path.join(root, ".lock"), "w") as lk:
        fcntl.flock(lk, fcntl.LOCK_EX)
        for variant, drvs in by_variant.items():
            vdir = os.path.join(root, variant)
            os.makedirs(vdir, exist_ok=True)
            flags = VARIANTS[variant] + " " + os.environ.get("VERIF_EXTRA_CFLAGS", "")   # e.g. --coverage for bin/coverage.sh
            lines = [
                "cxx = g++",
                "cflags = -std=c++20 -fPIC -w %s -I%s -I%s" % (flags, inc, os.path.join(VERIF, "harness")),
                "rule cc",
                "  command = $cxx $cflags $extra -MMD -MF $out.d -c $in -o $out",
                "  depfile = $out.d",
                "  deps = gcc",
                "  description = CC $out",
                "rule ar",
                "  command = rm -f $out && ar rcs $out $in",
                "rule link",
                "  command = $cxx $cflags -o $out $in $ldflags -lz -lpthread",
                "  description = LINK $out",
            ]
            objs = []
            for s in LIB_SOURCES:
                src = os.path.join(target, s + ".cc")
                if not os.path.exists(src):
                    continue
                o = "lib_%s.o" % s
                lines.append("build %s: cc %s" % (o, src))
                objs.append(o)
            lines.append("build libphosg.a: ar %s" % " ".join(objs))
            for n, d in DRIVERS.items():
                if d["variant"] != variant:
                    continue
                src = os.path.join(VERIF, "harness", n + ".cc")
                if not os.path.exists(src):
                    continue
                lines.append("build %s.o: cc %s" % (n, src))
                lines.append("  extra = %s" % d["cflags"])
                lines.append("build %s: link %s.o %s" % (n, n, "libphosg.a" if d["lib"] else ""))
                lines.append("  ldflags = %s" % d["ldflags"])
            _write_if_changed(os.path.join(vdir, "build.ninja"), "\n".join(lines) + "\n")
            r = subprocess.run(["ninja", "-C", vdir, "-j", str(JOBS)] + drvs,
                               stdout=subprocess.PIPE, stderr=subprocess.STDOUT, text=True)
            if r.returncode != 0:
                log(r.stdout[-6000:])
                raise InfraError("build failed for %s (%s)" % (drvs, variant))
            for n in drvs:
                out[n] = os.path.join(vdir, n)
    return out


class InfraError(Exception):
    pass


# ----------------------------------------------------------------------------
# TLC

_META_N = 0
TLC_STATS = re.compile(r"(\d+) states generated, (\d+) distinct states found")


def tlc(spec_dir, module, cfg=None, env=None, workers=1, timeout=600, simulate=None,
        xmx="4g", meta=None, extra=(), deadlock=False, depth_first=False):
    """Run TLC; returns dict(rc, out, generated, distinct, wall)."""
    e = dict(os.environ)
    opts = "-Xss512m -Xmx%s -DTLA-Library=%s" % (xmx, os.path.join(VERIF, "spec", "lib"))
    if depth_first:
        opts += " -Dtlc2.tool.queue.IStateQueue=StateDeque"
    e["JAVA_TOOL_OPTIONS"] = opts
    if env:
        e.update({k: str(v) for k, v in env.items()})
    global _META_N
    _META_N += 1
    meta = meta or scratch_dir("meta-%s-%d-%d" % (module, os.getpid(), _META_N))
    cmd = ["timeout", str(timeout), "java", "-XX:+UseParallelGC", "-cp", TLA_JAR + ":" + TLA_CM,
           "tlc2.TLC", "-noGenerateSpecTE", "-metadir", meta, "-workers", str(workers)]
    if not deadlock:
        cmd += ["-deadlock"]
    if simulate:
        cmd += ["-simulate", simulate]
    cmd += list(extra)
    cmd += ["-config", cfg or (module + ".cfg"), module + ".tla"]
    t0 = time.time()
    r = subprocess.run(cmd, cwd=spec_dir, env=e, stdout=subprocess.PIPE, stderr=subprocess.STDOUT, text=True,
                       errors="replace")
    wall = time.time() - t0
    gen = dist = 0
    for m in TLC_STATS.finditer(r.stdout):
        gen, dist = int(m.group(1)), int(m.group(2))
    shutil.rmtree(meta, ignore_errors=True)
    return dict(rc=r.returncode, out=r.stdout, generated=gen, distinct=dist, wall=wall, cmd=" ".join(cmd))


def tlc_ok(res):
    return res["rc"] == 0 and "Model checking completed. No error has been found." in res["out"] or \
        (res["rc"] == 0 and "Finished in" in res["out"] and "Error:" not in res["out"])


BAD_RE = re.compile(r'^"?BAD (.*?)"?$', re.M)


def parse_bad(out):
    """Trace specs print one line `BAD {json}` (through PrintT(ToJson(..)))."""
    bads = []
    for line in out.splitlines():
        line = line.strip()
        if line.startswith('"BAD ') and line.endswith('"'):
            line = json.loads(line)  # TLC prints strings quoted/escaped
        if line.startswith("BAD "):
            try:
                bads.append(json.loads(line[4:]))
            except ValueError:
                bads.append({"raw": line[4:]})
    return bads


def run_parallel(fns, jobs=None):
    """Run thunks in a thread pool (they spawn subprocesses)."""
    from concurrent.futures import ThreadPoolExecutor
    with ThreadPoolExecutor(max_workers=jobs or JOBS) as ex:
        return list(ex.map(lambda f: f(), fns))


# ----------------------------------------------------------------------------
# a check run


def replay(rec):
    """Re-validate the recorded history of a violation against the trace specification (check.py <ID> --replay <file>)."""
    area, module = rec.get("area"), rec.get("module")
    hist = rec.get("history")
    if not area or not module or not hist:
        print("replay file has no history / specification reference; verdict was:", json.dumps(rec.get("verdict"))[:2000])
        return 0
    d = scratch_dir("replay-%d" % os.getpid())
    path = os.path.join(d, "history.ndjson")
    with open(path, "w") as f:
        if '"Reset"' not in json.dumps(hist[0]):
            f.write('{"e":"Reset"}\n')
        for e in hist:
            f.write(json.dumps(e, separators=(",", ":")) + "\n")
    res = tlc(os.path.join(VERIF, "spec", area), module, module + ".cfg", env={"TRACE": path}, workers=1, timeout=1800, xmx="6g",
              meta=os.path.join(d, "meta"))
    bads = parse_bad(res["out"])
    shutil.rmtree(d, ignore_errors=True)
    for b in bads:
        print("REJECTED line %s: %s" % (b.get("l"), b.get("why")))
    if bads:
        print("VIOLATION property=%s replay=%s" % (rec.get("property"), "(replayed)"))
        return 1
    print("history accepted by the specification (%d events)" % len(hist))
    return 0


def apalache_inductive(module_path, subst=None, timeout=900):
    """Discharge the two obligations of an inductive invariant with Apalache: Init => IndInv (length 0) and
    IndInv /\ Next => IndInv' (length 1).  `subst` textually instantiates definitions such as the worker count.
    Returns dict(ok, base, step, wall_s).  Concerns the specification only (never the code under test)."""
    d = scratch_dir("apalache-%d-%d" % (os.getpid(), int(time.time() * 1000) % 100000))
    name = os.path.splitext(os.path.basename(module_path))[0]
    text = open(module_path).read()
    for a, b in (subst or {}).items():
        assert a in text, a
        text = text.replace(a, b)
    with open(os.path.join(d, name + ".tla"), "w") as f:
        f.write(text)
    t0 = time.time()
    out = {}
    for label, init, length in (("base", "Init", "0"), ("step", "IndInv", "1")):
        try:
            r = subprocess.run(["apalache-mc", "check", "--cinit=ConstInit", "--init=" + init, "--inv=IndInv", "--length=" + length,
                                "--out-dir=" + os.path.join(d, "out"), name + ".tla"], cwd=d, stdout=subprocess.PIPE,
                               stderr=subprocess.STDOUT, text=True, timeout=timeout)
            out[label] = "NoError" if ("The outcome is: NoError" in r.stdout and r.returncode == 0) else (
                "Error" if "The outcome is: Error" in r.stdout else "failed(rc=%d)" % r.returncode)
        except Exception as ex:  # tool missing / timeout: reported, never a verdict about the code
            out[label] = "failed(%s)" % type(ex).__name__
    shutil.rmtree(d, ignore_errors=True)
    out["ok"] = out["base"] == "NoError" and out["step"] == "NoError"
    out["wall_s"] = round(time.time() - t0, 1)
    return out


def abbreviate(v, keep=24):
    """Shorten long arrays inside an event so that it can be shown as a sample."""
    if isinstance(v, list):
        if len(v) > keep:
            return [abbreviate(x, keep) for x in v[:keep]] + ["...(%d more)" % (len(v) - keep)]
        return [abbreviate(x, keep) for x in v]
    if isinstance(v, dict):
        return {k: abbreviate(x, keep) for k, x in v.items()}
    return v


class Check:
    def __init__(self, pid, tier):
        self.pid = pid
        self.tier = tier
        self.t0 = time.time()
        self.states = 0
        self.transitions = 0
        self.traces = 0
        self.evaluations = 0
        self.distinct = 0
        self.samples = []
        self.violations = []   # dicts
        self.known = []
        self.notes = []
        self.assumptions = []
        self.extra = {}
        self.exhaustive = False
        self.rule = ""
        self.scratch = scratch_dir("%s-%d" % (pid, os.getpid()))
        kf = json.load(open(os.path.join(VERIF, "known_findings.json")))
        self.kf = [f for f in kf.get("findings", []) if f["property"] == pid]
        self.kf_seen = set()

    # --- model checking of the specification itself
    def mc(self, area, module, cfg=None, workers=None, timeout=900, expect_fail=False, xmx="8g", simulate=None,
           env=None, label=None):
        sd = os.path.join(VERIF, "spec", area)
        res = tlc(sd, module, cfg, workers=workers or min(JOBS, 8), timeout=timeout, xmx=xmx, simulate=simulate,
                  env=env, extra=())
        label = label or (cfg or module)
        ok = "No error has been found" in res["out"] or (simulate and res["rc"] == 0)
        self.states += res["distinct"]
        self.transitions += res["generated"]
        self.extra.setdefault("mc_runs", []).append(
            dict(model=label, distinct=res["distinct"], generated=res["generated"], wall_s=round(res["wall"], 2),
                 ok=bool(ok)))
        if expect_fail:
            if ok:
                raise InfraError("legacy model %s unexpectedly passed" % label)
            return res
        if not ok:
            if res["rc"] in (12, 13) or "is violated" in res["out"] or "Invariant" in res["out"] and "violated" in res["out"]:
                # the specification's own law fails on the reference definitions: this is a
                # defect of the machinery (spec), never of phosg -> infrastructure error
                log(res["out"][-4000:])
                raise InfraError("model check %s: law violated on the reference definition (spec bug)" % label)
            log(res["out"][-4000:])
            raise InfraError("model check %s failed rc=%s" % (label, res["rc"]))
        return res

    # --- trace validation
    def validate(self, area, module, traces, cfg=None, timeout=900, env=None, xmx="4g", depth_first=False):
        """traces: list of ndjson paths; each is validated by its own TLC process.
        Returns the list of BAD records (each augmented with file/event)."""
        sd = os.path.join(VERIF, "spec", area)

        def one(path):
            def f():
                e = {"TRACE": path}
                if env:
                    e.update(env)
                for attempt in (0, 1):
                    res = tlc(sd, module, cfg, env=e, workers=1, timeout=timeout, xmx=xmx,
                              meta=os.path.join(self.scratch, "meta-" + os.path.basename(path) + str(attempt)),
                              depth_first=depth_first)
                    if "TRACE-DONE" in res["out"]:
                        break
                return path, res
            return f
        for p in traces:
            if len(self.samples) >= 4:
                break
            try:
                with open(p) as fh:
                    took = 0
                    for _ in range(40):
                        ln = fh.readline()
                        if not ln:
                            break
                        if ln.strip() and len(ln) < 200000 and '"Reset"' not in ln:
                            self.samples.append(abbreviate(json.loads(ln)))
                            took += 1
                            if took >= 2:
                                break
            except Exception:
                pass
        results = run_parallel([one(p) for p in traces])
        bads = []
        for path, res in results:
            if "TRACE-DONE" not in res["out"]:
                if not parse_bad(res["out"]):
                    log(res["out"][-5000:])
                    raise InfraError("trace validation of %s did not complete (rc=%s)" % (path, res["rc"]))
                # the specification rejected events and then could not continue (e.g. a logged value outside the
                # domain the model reached): the rejections stand, the remainder of this trace is unexamined
                self.notes.append("trace %s: validation stopped after a rejected event" % os.path.basename(path))
            self.states += res["distinct"]
            self.transitions += res["generated"]
            nd = res["out"].count('"DRIFT ')
            if nd:
                self.extra["model_drift_events"] = self.extra.get("model_drift_events", 0) + nd
                first = [x for x in res["out"].splitlines() if x.startswith('"DRIFT ')][0]
                print("MODEL-DRIFT property=%s %s" % (self.pid, first[:300]), flush=True)
            m = re.search(r"TRACE-DONE (\d+)", res["out"])
            lines = None
            for b in parse_bad(res["out"]):
                b["file"] = path
                b["area"], b["module"] = area, module
                if "l" in b:
                    if lines is None:
                        lines = open(path).read().splitlines()
                    try:
                        b["event"] = json.loads(lines[int(b["l"]) - 1])
                    except Exception:
                        pass
                bads.append(b)
        return bads

    # --- verdict handling
    def judge(self, bads, history_of=None):
        for b in bads:
            ev = b.get("event", {})
            hit = None
            for f in self.kf:
                if all(ev.get(k) == v for k, v in f["match"].items()):
                    hit = f
                    break
            if hit:
                if hit["id"] not in self.kf_seen:
                    self.kf_seen.add(hit["id"])
                    print("KNOWN-FINDING: property=%s %s" % (self.pid, hit["what"]), flush=True)
                self.known.append(b)
                continue
            self.violations.append(b)

    def report_violations(self, limit=20):
        rdir = os.environ.get("VERIF_REPLAY_DIR") or os.path.join(VERIF, "replay")
        os.makedirs(rdir, exist_ok=True)
        n = 0
        for b in self.violations[:limit]:
            n += 1
            path = os.path.join(rdir, "%s-%d.json" % (self.pid, n))
            rec = dict(property=self.pid, tier=self.tier, seed=SEED, verdict=b, repo=REPO, area=b.get("area"), module=b.get("module"))
            # keep the history that led to the event (since the last Reset) for stateful traces
            try:
                if "file" in b and "l" in b:
                    lines = open(b["file"]).read().splitlines()
                    i = int(b["l"]) - 1
                    j = i
                    while j > 0 and '"e":"Reset"' not in lines[j].replace(" ", "") and i - j < 2000:
                        j -= 1
                    rec["history"] = [json.loads(x) for x in lines[j:i + 1]]
            except Exception as ex:  # pragma: no cover
                rec["history_error"] = str(ex)
            with open(path, "w") as f:
                json.dump(rec, f, indent=1)
            print("VIOLATION property=%s replay=%s" % (self.pid, path), flush=True)
            log("  reason: %s" % json.dumps({k: v for k, v in b.items() if k not in ("event", "file")})[:600])
            if "event" in b:
                log("  event: %s" % json.dumps(b["event"])[:800])

    def finish(self, level="model_checking"):
        wall = time.time() - self.t0
        cov = dict(states=max(self.states, 0), transitions=max(self.transitions, 0),
                   traces_validated_against_impl=self.traces, evaluations=self.evaluations,
                   distinct_nontrivial=self.distinct, rule=self.rule + (" [the seeded parts were run with %d distinct seeds]" % ROUNDS if ROUNDS > 1 else ""), samples=self.samples[:8],
                   exhaustive=self.exhaustive)
        cov.update(self.extra)
        if self.notes:
            cov["notes"] = self.notes
        if self.known:
            cov["known_findings_reproduced"] = sorted(self.kf_seen)
        ev = dict(property_id=self.pid, tier=self.tier, seed=SEED, level=level, coverage=cov,
                  assumptions=self.assumptions, wall_s=round(wall, 2), violations=len(self.violations))
        evdir = os.environ.get("VERIF_EVIDENCE_DIR") or os.path.join(VERIF, "evidence")
        os.makedirs(evdir, exist_ok=True)
        with open(os.path.join(evdir, self.pid + ".json"), "w") as f:
            json.dump(ev, f, indent=1, sort_keys=True)
            f.write("\n")
        if self.violations:
            self.report_violations()
            return 1
        shutil.rmtree(self.scratch, ignore_errors=True)
        print("OK property=%s tier=%s states=%d transitions=%d traces=%d events=%d wall=%.1fs" % (
            self.pid, self.tier, self.states, self.transitions, self.traces, self.evaluations, wall), flush=True)
        return 0

    # --- drivers
    def run_driver(self, exe, args, timeout=1200, env=None, check=True):
        e = dict(os.environ)
        e.setdefault("ASAN_OPTIONS", "detect_leaks=1:abort_on_error=0:exitcode=99:allocator_may_return_null=1")
        e.setdefault("UBSAN_OPTIONS", "halt_on_error=1:print_stacktrace=1")
        if env:
            e.update(env)
        r = subprocess.run(["timeout", str(timeout), exe] + [str(a) for a in args], env=e, stdout=subprocess.PIPE,
                           stderr=subprocess.PIPE, text=True, errors="replace")
        if check and r.returncode != 0:
            log(r.stdout[-3000:])
            log(r.stderr[-3000:])
            raise InfraError("driver %s failed rc=%s" % (os.path.basename(exe), r.returncode))
        stats = {}
        for line in r.stdout.splitlines():
            if line.startswith("STATS "):
                stats = json.loads(line[6:])
        return stats, r

    def drive(self, exe, argsets, timeout=1800, env=None, tag="t"):
        """Run one driver process per element of argsets (each a list in which the string
        "@OUT" is replaced by that shard's trace path) in parallel.  A driver that dies
        (signal, sanitizer report, watchdog) leaves its partial trace; a Crash event with
        the tail of stderr is appended so that the trace specification rejects it."""
        paths = [os.path.join(self.scratch, "%s_%d.ndjson" % (tag, i)) for i in range(len(argsets))]

        def mk(i):
            def f():
                args = [paths[i] if a == "@OUT" else a for a in argsets[i]]
                stats, r = self.run_driver(exe, args, timeout=timeout, env=env, check=False)
                if r.returncode != 0:
                    with open(paths[i], "a") as fh:
                        fh.write(json.dumps({"e": "Crash", "rc": r.returncode, "args": [str(a) for a in args[1:]],
                                             "stderr": r.stderr[-2500:]}) + "\n")
                    if not stats:
                        stats = {"events": 0, "histories": 0, "distinct": 0}
                return stats
            return f
        for st in run_parallel([mk(i) for i in range(len(argsets))]):
            self.add_stats(st)
        return paths

    def add_stats(self, stats):
        self.traces += stats.get("histories", 0)
        self.evaluations += stats.get("events", 0)
        self.distinct += stats.get("distinct", 0)
        for s in stats.get("samples", []):
            if len(self.samples) < 8:
                self.samples.append(abbreviate(s))


def main_wrapper(fn):
    try:
        rc = fn()
    except InfraError as ex:
        log("INFRASTRUCTURE-ERROR: %s" % ex)
        sys.exit(3)
    sys.exit(rc)
