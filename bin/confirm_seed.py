#!/usr/bin/env python3
"""confirm_seed.py <seed dir with patch.diff demo.cc meta.json> : independently confirm a seeded change in a
scratch copy of /repo: baseline demo passes; with the patch the repo builds, its 14 tests pass, the demo fails."""
import json
import os
import shutil
import subprocess
import sys


def sh(cmd, **kw):
    return subprocess.run(cmd, shell=True, stdout=subprocess.PIPE, stderr=subprocess.STDOUT, text=True, **kw)


def main():
    d = os.path.abspath(sys.argv[1])
    w = "/tmp/vseed-%d" % os.getpid()
    shutil.rmtree(w, ignore_errors=True)
    subprocess.check_call(["rsync", "-a", "--exclude", "_build", "--exclude", ".git", "/repo/", w + "/"])
    os.makedirs(w + "/inc")
    os.symlink(w + "/src", w + "/inc/phosg")
    res = {}
    try:
        def build():
            r = sh("cmake -G Ninja -B %s/_build -S %s >/dev/null && cmake --build %s/_build 2>&1 | tail -3" % (w, w, w))
            return r.returncode == 0 and "FAILED" not in r.stdout and "error" not in r.stdout.lower()

        def demo():
            r = sh("g++ -std=c++20 -O1 -I%s/inc %s/demo.cc %s/_build/libphosg.a -lz -lpthread -o %s/demo 2>&1 | tail -5"
                   % (w, d, w, w))
            if not os.path.exists(w + "/demo"):
                return None, r.stdout
            r = sh("timeout 600 %s/demo 2>&1 | tail -3" % w)
            r2 = sh("timeout 600 %s/demo >/dev/null 2>&1; echo $?" % w)
            os.unlink(w + "/demo")
            return int(r2.stdout.strip().splitlines()[-1]), r.stdout
        assert build(), "baseline build failed"
        rc0, out0 = demo()
        res["demo_without"] = (rc0, out0.strip()[-200:])
        r = sh("patch -p1 -s -d %s -i %s/patch.diff" % (w, d))
        assert r.returncode == 0, "patch failed: " + r.stdout
        res["build_with"] = build()
        r = sh("ctest --test-dir %s/_build -j8 --timeout 900 2>&1 | tail -4" % w)
        res["tests_with"] = "100% tests passed" in r.stdout
        rc1, out1 = demo()
        res["demo_with"] = (rc1, out1.strip()[-300:])
        res["confirmed"] = bool(rc0 == 0 and res["build_with"] and res["tests_with"] and rc1 not in (0, None))
    finally:
        shutil.rmtree(w, ignore_errors=True)
    print(json.dumps(res, indent=1))
    return 0 if res.get("confirmed") else 1


if __name__ == "__main__":
    sys.exit(main())
