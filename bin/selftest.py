#!/usr/bin/env python3
"""Run every kept seeded change (seeded/<id>-<n>/patch.diff) and the reverse of every "fix:" commit
recorded in known_findings.json against the check of its property, on scratch copies of the repository
(bin/mutant.py; /repo is never touched), and write seeded/RESULTS.json + seeded/RESULTS.md.

  selftest.py [--tier quick] [--jobs 4] [--only C06,C07] [--out RESULTS]      (VERIF_SEED is passed on to the checks)
"""
import json
import os
import re
import subprocess
import sys
import tempfile
from concurrent.futures import ThreadPoolExecutor

VERIF = os.path.dirname(os.path.dirname(os.path.abspath(__file__)))


def arg(name, default):
    return sys.argv[sys.argv.index(name) + 1] if name in sys.argv else default


def run_one(job):
    kind, name, pid, patch, tier = job
    r = subprocess.run([sys.executable, os.path.join(VERIF, "bin", "mutant.py"), patch, pid, "--tier", tier],
                       stdout=subprocess.PIPE, stderr=subprocess.STDOUT, text=True)
    out = r.stdout
    m = re.search(r"== %s rc=(\d+) violations=(\d+)" % pid, out)
    rc, nv = (int(m.group(1)), int(m.group(2))) if m else (-1, 0)
    reasons = re.findall(r'reason: (\{.*)', out)
    why = ""
    if reasons:
        try:
            why = json.loads(reasons[0]).get("why", "")
        except Exception:
            why = reasons[0][:160]
    if rc == 3:
        why = "driver does not build / infrastructure error (the reverted code cannot be instantiated)"
    if "patch" in out and "FAILED" in out:
        why = "reverse patch does not apply on the current tree (later fixes touch the same lines)"
        rc = -2
    verdict = "caught" if rc == 1 and nv > 0 else "not-applicable" if rc in (3, -2) else "MISSED" if rc == 0 else "error"
    return dict(kind=kind, change=name, property=pid, tier=tier, rc=rc, violations=nv, verdict=verdict, first_reason=why[:220])


def main():
    tier = arg("--tier", "quick")
    jobs = int(arg("--jobs", "4"))
    only = set(arg("--only", "").split(",")) - {""}
    todo = []
    sd = os.path.join(VERIF, "seeded")
    for d in sorted(os.listdir(sd)):
        p = os.path.join(sd, d, "patch.diff")
        if os.path.isfile(p):
            pid = d.split("-")[0]
            todo.append(("seeded", d, pid, p, tier))
    tmp = tempfile.mkdtemp(prefix="vselftest-")
    kf = json.load(open(os.path.join(VERIF, "known_findings.json")))
    for f in kf.get("fixed", []):
        m = re.match(r"fixed: property=(C\d\d) (\w+) (.*)", f)
        pid, commit, _ = m.groups()
        p = os.path.join(tmp, "revert_%s.diff" % commit)
        with open(p, "w") as fh:
            fh.write(subprocess.check_output(["git", "-C", "/repo", "diff", commit, commit + "~1"], text=True))
        todo.append(("revert-of-fix", commit, pid, p, tier))
    if only:
        todo = [t for t in todo if t[2] in only]
    with ThreadPoolExecutor(max_workers=jobs) as ex:
        results = list(ex.map(run_one, todo))
    subprocess.call(["rm", "-rf", tmp])
    # --out NAME: write seeded/NAME.json / NAME.md instead (e.g. a run under another VERIF_SEED, to see which catches
    # depend on the seed)
    outname = arg("--out", "RESULTS")
    path = os.path.join(sd, outname + ".json")
    old = []
    if only and os.path.exists(path):
        old = [r for r in json.load(open(path)) if r["property"] not in only]
    results = sorted(old + results, key=lambda r: (r["property"], r["kind"], r["change"]))
    json.dump(results, open(path, "w"), indent=1)
    with open(os.path.join(sd, outname + ".md"), "w") as f:
        f.write("| property | change | kind | verdict (%s tier) | first rejection |\n|---|---|---|---|---|\n" % tier)
        for r in results:
            f.write("| %s | %s | %s | %s (%d) | %s |\n" % (r["property"], r["change"], r["kind"], r["verdict"], r["violations"],
                                                     r["first_reason"].replace("|", "/")))
    for r in results:
        print(r["property"], r["change"], r["verdict"], r["violations"], r["first_reason"][:100])
    return 1 if any(r["verdict"] in ("MISSED", "error") for r in results) else 0


if __name__ == "__main__":
    sys.exit(main())
