#!/usr/bin/env python3
"""Run checks against a mutated scratch copy of the repository (never /repo).

  mutant.py <patch.diff | 'sed:<file>:<expr>'> <ID>[,<ID>...] [--tier quick] [--tests]

Copies $REPO (without _build) to /tmp/vmut-<pid>, applies the change, optionally
builds + runs the repository's own tests there, runs the checks with
VERIF_REPO pointing at the copy (evidence/replay redirected), then removes the
copy and its build output under /verif/build.
"""
import hashlib
import os
import shutil
import subprocess
import sys

VERIF = os.path.dirname(os.path.dirname(os.path.abspath(__file__)))


def main():
    change, ids = sys.argv[1], sys.argv[2].split(",")
    tier = "quick"
    tests = "--tests" in sys.argv
    if "--tier" in sys.argv:
        tier = sys.argv[sys.argv.index("--tier") + 1]
    dst = "/tmp/vmut-%d" % os.getpid()
    shutil.rmtree(dst, ignore_errors=True)
    subprocess.check_call(["rsync", "-a", "--exclude", "_build", "--exclude", ".git", "/repo/", dst + "/"])
    rc_all = {}
    try:
        if change.startswith("sed:"):
            _, f, expr = change.split(":", 2)
            before = open(os.path.join(dst, f)).read()
            subprocess.check_call(["sed", "-i", expr, os.path.join(dst, f)])
            if open(os.path.join(dst, f)).read() == before:
                print("MUTATION DID NOT CHANGE", f)
                return 2
        elif change != "none":
            subprocess.check_call(["patch", "-p1", "-s", "-d", dst, "-i", os.path.abspath(change)])
        if tests:
            b = dst + "/_build"
            r = subprocess.run("cmake -G Ninja -B %s -S %s >/dev/null && cmake --build %s 2>&1 | tail -3 && ctest --test-dir %s -j8 2>&1 | tail -3" % (b, dst, b, b), shell=True)
            print("repo tests rc", r.returncode)
        out = dst + "/_verif_out"
        env = dict(os.environ, VERIF_REPO=dst, VERIF_EVIDENCE_DIR=out, VERIF_REPLAY_DIR=out)
        for i in ids:
            r = subprocess.run([sys.executable, os.path.join(VERIF, "bin", "check.py"), i, "--tier", tier], env=env,
                               stdout=subprocess.PIPE, stderr=subprocess.STDOUT, text=True)
            lines = r.stdout.splitlines()
            v = [l for l in lines if l.startswith("VIOLATION")]
            print("== %s rc=%d violations=%d" % (i, r.returncode, len(v)))
            for l in (lines[-60:] if r.returncode == 3 else lines[-12:] if r.returncode else lines[-2:]):
                print("   ", l[:300])
            rc_all[i] = r.returncode
    finally:
        key = hashlib.sha1(os.path.realpath(dst).encode()).hexdigest()[:10]
        shutil.rmtree(os.path.join(VERIF, "build", key), ignore_errors=True)
        shutil.rmtree(dst, ignore_errors=True)
    return 0


if __name__ == "__main__":
    sys.exit(main())
