import json,sys,subprocess,os
rec=json.load(open(sys.argv[1])); ev=rec['verdict']['event']; idxs=[int(x) for x in sys.argv[2:]]
os.makedirs('/tmp/st',exist_ok=True)
for i in idxs:
    t=ev['texts'][i-1]
    print('text',bytes(t)); print('impl data',ev['datas'][i-1],'mask',ev['masks'][i-1], 'out', ev.get('outs',[0]*len(ev['texts']))[i-1])
    open('/tmp/st/T.tla','w').write('---- MODULE T ----\nEXTENDS DataText, TLC\nASSUME PrintT(ParseDataString(<<%s>>))\nVARIABLE x\nInit == x = 0\nNext == x\' = x\n====\n'%(','.join(map(str,t))))
    for f in ('DataText.tla',): subprocess.run(['cp','/verif/spec/DataText/'+f,'/tmp/st/'])
    subprocess.run(['cp','/verif/spec/lib/BigNat.tla','/tmp/st/'])
    open('/tmp/st/T.cfg','w').write('INIT Init\nNEXT Next\n')
    r=subprocess.run('cd /tmp/st && JAVA_TOOL_OPTIONS=-Xss512m timeout 60 tlc -workers 1 T.tla 2>&1 | grep -A3 "exact"',shell=True,capture_output=True,text=True)
    print('spec',r.stdout.replace('\n',' ')[:400])
