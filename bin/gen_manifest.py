#!/usr/bin/env python3
"""Writes MANIFEST.json from the table below (single source of truth for what is claimed)."""
import json
import os

VERIF = os.path.dirname(os.path.dirname(os.path.abspath(__file__)))
ALL = ["C%02d" % i for i in range(1, 21)]

# id -> (technique, level text, level note, design ref)
CLAIMED = {
    "C12": ("TLA+ reference recency list (spec/Lru): TLC model-checks the laws, emits the full transition table that "
            "a C++ walker replays into the real containers along every path up to depth D (ASan), and validates "
            "recorded random histories (trace validation)",
            "Exhaustive within the bounded model (3 keys x sizes 0..2; 2 instances x 2 keys with swap): every "
            "operation path up to depth 3-5 is executed on the real LRUSet/LRUMap and compared step by step with "
            "the TLC-generated table; random histories up to 400 calls over 1..8 keys are validated by TLC against "
            "the same specification. Memory-safety clause sensed by ASan/LSan, decided by the spec having no action "
            "for Crash events.",
            "Trusted: TLC, the projection through a derived class (head/tail/prev/next), ASan/LSan as sensors. "
            "Not covered: key/value types other than int, histories longer than 400 calls.",
            "DESIGN.md 3.12"),
    "C13": ("TLA+ multiset model (spec/KdTree): TLC model-checks the query laws; every recorded call of the real "
            "KDTree in exhaustive small-scope and random histories is validated by TLC against the model",
            "Exhaustive small scope on the real tree: every insertion sequence of up to 3 points of a 3x3 grid "
            "(coordinate ties and duplicate points) followed by every erase order, sampled 4/5-point sequences, "
            "with exists/at probed on all grid points and all 256 boxes queried; random histories up to 300 "
            "operations on 2-D/3-D grids with iterate+erase_advance loops; each event is checked by TLC as a step "
            "of the multiset specification; tree destroyed in every reached state under ASan/LSan.",
            "Trusted: TLC, iteration of the real tree as the projection, ASan/LSan as sensors. at() is judged "
            "relationally (any value stored at the point). Not covered: emplace (does not compile upstream), "
            "coordinate types other than int64.",
            "DESIGN.md 3.13"),
    "C16": ("TLA+ model of the claim/callback/result protocol (spec/ParallelRange), one action per atomic operation: "
            "TLC checks all interleavings incl. liveness; the real templates run under a controlled scheduler "
            "(std::atomic/std::thread retargeted to shims) and every schedule's event trace is validated by TLC "
            "(refinement + property checks); TSan free runs validated for the property",
            "Model: every interleaving for 2-3 threads, ranges 0..4, every TrueSet, block sizes 1-2, plain/_blocks/"
            "_multi, with termination under weak fairness; a regression configuration of the former fetch_add "
            "algorithm must fail. Implementation: DFS over all scheduler decisions (2 threads, ranges <=3; 3 threads "
            "thorough) plus random schedules (3-4 threads) and uint8_t ranges ending at 254/255; each run is checked "
            "by TLC both as a path of the model (drift => MODEL-DRIFT, not a violation) and against exactly-once / "
            "in-range / result / joined-before-return; signed element types and ranges across zero; free runs with 1..16 real "
            "threads under ThreadSanitizer. Thorough tier: inductive invariants of the claim protocol for ARBITRARY integer "
            "ranges (2-5 workers, block sizes 1-4) discharged by Apalache (specification only).",
            "Trusted: TLC; the shim executes one atomic operation per scheduling step (sequential consistency, as "
            "the code uses default memory order); TSan as data-race sensor on the free runs only; the shim's "
            "compare_exchange_weak never fails spuriously.",
            "DESIGN.md 3.16"),
    "C01": ("TLA+ reference semantics of the typed writers/readers (spec/ByteIO): TLC checks round-trip/layout laws "
            "in small scope and validates every recorded call of the real classes against Enc/Dec/Extend as the "
            "independent decoder (trace validation)",
            "Every one of the 66 writer and 46 reader accessor names (StringWriter, BufferWriter, StringReader, "
            "BitWriter/BitReader) is driven with extremes, NaN payloads, -0.0, denormals and single-lane patterns in "
            "random append / positional-write / raw / cstr / line histories and read back in order and positionally; "
            "each event (buffer bytes after the call, returned value, cursor) is checked by TLC against the "
            "specification's byte-order definitions.",
            "Trusted: TLC; the harness converts between C++ scalars and bit patterns with memcpy; little-endian "
            "host only (spec parametric). BitReader is unchecked by design and only driven in range.",
            "DESIGN.md 3.1"),
    "C02": ("TLA+ bounds layer of spec/ByteIO with non-wrapping size_t arithmetic: TLC checks InBounds on the "
            "reference and validates recorded boundary sweeps and cursor histories of the real classes",
            "For buffer lengths {0,8} (thorough {0,1,2,7,8,64}) every (offset,size) pair from a ~20-value boundary "
            "set incl. 2^31, 2^32, 2^63+-1, 2^64-k is applied to every positional and cursor read family, "
            "sub-readers, skip, peek, get_line/get_cstr, BufferWriter and StringWriter positional writes, plus random "
            "cursor histories; TLC decides each outcome (exact slice / in-range prefix / out_of_range, cursor never "
            "past the end except after go()). ASan-built; a sanitizer report is a Crash event without action.",
            "Trusted: TLC, ASan as memory sensor. Offsets between 2^30 and 2^63 that would make StringWriter really "
            "allocate are not driven. For void* readx/preadx a zero-size request at offset = length may throw "
            "(follows the code; the statement allows either).",
            "DESIGN.md 3.2"),
    "C03": ("TLA+ definitions of byte-order layout, bswapN, ext24/48, sign_extend (spec/Endian): TLC checks the "
            "involution / sign-replication laws and validates every recorded wrapper operation and helper call "
            "(relational to the native operator, as the property states)",
            "All 24 wrapper types x every assignment / compound-assignment / increment / decrement operator over "
            "boundary-set^2 operand pairs incl. operands of wider and floating types, exhaustive 16-bit batches, "
            "exhaustive 8/16-bit helpers, stratified 3k-200k samples per 24/32/48/64-bit helper; TLC checks sizeof, "
            "stored bytes = named-order layout of the native result, returned value = native operator's value, and "
            "helper results = definition.",
            "Trusted: TLC; the native reference value comes from the same C++ operator applied to a plain T in the "
            "harness. Not exhaustive above 16 bits. Little-endian host only.",
            "DESIGN.md 3.3"),
    "C17": ("TLA+ definitions of token classification, C numeral grammar with unbounded (base-256 digit) magnitudes, "
            "float literal grammar and the used-flag state machine (spec/Args): TLC checks the laws in small scope and "
            "validates every recorded constructor/getter call (trace validation)",
            "Every token list up to 2 (thorough 3) tokens over an 18-token grammar plus random longer lists, each with "
            "a random getter sequence and assert_none_unused, with the implementation's used flags compared with the "
            "model after every call; every integer text in [-1000,1000] (thorough [-70000,70000]) in four renderings and "
            "~85 boundary/malformed texts against 8 integer types x 4 formats, interleaved so that texts that set ERANGE "
            "precede valid ones; TLC decides value / invalid_argument / out_of_range / default for each.",
            "Trusted: TLC; libc %.8e for the 9-digit rendering of returned doubles; classification and used flags are "
            "read with -fno-access-control. 64-bit targets unconstrained for magnitudes >= 2^63 (as stated). "
            "split_args tokenisation itself is decided under C08.",
            "DESIGN.md 3.17"),
    "C08": ("TLA+ plain reference definitions of the string helpers written as folds (spec/Strings): TLC checks the "
            "split/join, strip, replace, argument-splitting laws on every string up to length 5-6 over an adversarial "
            "alphabet, and validates batched (input, result) pairs recorded from the real helpers",
            "Exhaustive: every string up to length 5 (thorough 7) over five 4-symbol alphabets x every helper x every "
            "delimiter / max_splits 0..3 / 1-2 symbol target; random strings over all 256 byte values up to 4 KiB; join "
            "on vectors with empty pieces; string_printf results at every length around 1024 / 4096 / 16384 / 65536 "
            "(thorough 1 MiB) compared run-length encoded against a TLA+ rendering of the directive list.",
            "Trusted: TLC; the harness's run-length encoder; printf reference restricted to %s %d %x %c %% with "
            "width / '-' / '0' flags. split_args follows phosg's dialect (DESIGN 4.2).",
            "DESIGN.md 3.8"),
    "C14": ("TLA+ closed model 'chunked source || reader loop' plus sequential definitions for paths, descriptor "
            "ownership and Poll-as-map (spec/FileIO): TLC checks completeness and termination over every delivery plan; "
            "recorded executions under link-time interposed read()/pread()/close() and fopencookie streams are validated "
            "against it",
            "Model: every source up to 5-6 bytes over {a, newline}, every chunking, for the read-to-end and line-reader "
            "loops, with termination; the former stop-at-first-short-read loop must fail. Implementation: every plan of "
            "1..3-byte chunks for sizes 0..6 (thorough 9) on read_all(fd)/read_all(FILE*), random plans around 255 / "
            "16 KiB / 32 KiB up to 200 KiB, injected errors, line lengths around every multiple of 255 (thorough: all "
            "0..1100), exact-size families with short and early-ending sources, file round trips incl. shorter over "
            "longer, directory trees, all paths up to 5-7 symbols, random scoped_fd and Poll histories with every "
            "close() recorded.",
            "Trusted: TLC; memcmp in the harness for large buffers; closes of tracked descriptors are recorded rather "
            "than performed. Real pipes with staggered writers are not used (delivery is scripted instead, which "
            "covers the same short-read behaviours deterministically).",
            "DESIGN.md 3.14"),
    "C15": ("TLA+ closed model kernel pipes || scripted child || parent poll loop (spec/Subprocess), one action per "
            "system-call level step: TLC checks completeness, status, reaping, descriptor closing and termination over "
            "all interleavings; real runs against scripted children with interposed, delayable parent system calls are "
            "validated (property checks + refinement of the logged system-call word)",
            "Model: 7 child programs x pipe capacities 1-3 x run_process/communicate, every interleaving, with "
            "termination under fairness, plus deadline configurations (SIGTERM -> SIGKILL escalation), the destructor's "
            "protocol for a child that is still alive (abandoned object) and move assignment over a live first child; six "
            "legacy variants (no drain, no closing, communicate without drain, no escalation, SIGTERM from the destructor, "
            "no reaping on re-assignment) must fail. Implementation: 14 child programs x payloads {none,0,1,4096,65537,1 MiB} (thorough 11 sizes) x "
            "delay plans injected at the parent's waitpid/poll/read via link-time interposition, check on/off, "
            "timeouts, repeated calls, objects destroyed / re-assigned / reused with live or finished children, each under "
            "a watchdog; TLC computes the expected output volumes and status from "
            "the child's program and decides every run; the parent's system-call sequence must be a word of the "
            "modelled loop (else MODEL-DRIFT).",
            "Trusted: TLC; the harness's comparison of large outputs with the stream pattern; SIGPIPE ignored by the "
            "caller. communicate() does not service a piped stderr: children writing more than a pipe-full to stderr "
            "are not driven through communicate. Hangs are confirmed by an immediate re-run before being reported.",
            "DESIGN.md 3.15"),
    "C19": ("TLA+ definition of the exception hierarchy, ExpectRaises and the relation macros (spec/Expect): TLC checks "
            "the hierarchy is a partial order and soundness/completeness of the definition, and validates the recorded "
            "outcome of every cell of the real helpers",
            "Exhaustive over the property's finite quantifier: all 10 expected types x 12 behaviours of fn, and all seven "
            "macros over every operand pair of six boundary sets (ints, strings, doubles/floats incl. NaN); TLC decides for "
            "each call whether expectation_failed must be thrown and that it carries the call site's file, line and message.",
            "Trusted: TLC; operands are identified by rank in a sorted boundary set; __LINE__ of each call site is "
            "captured next to the call.",
            "DESIGN.md 3.19"),
    "C20": ("TLA+ definitions with BigNat (base-256 digit) arithmetic for wide integers, componentwise vector "
            "operators, 4x4 matrix product, and a fixed-point statement of M * inverse(M) = I (spec/MathVec): TLC checks the "
            "definitions against Euclid / order / orthogonality laws in small scope and validates recorded batches",
            "gcd / reduce_fraction on [0,300]^2 for six integer types plus boundary and structured wide operands checked "
            "by a TLA+ binary gcd and BigNat multiplication; log2i on every power of two +-1 for all eight widths; random_int "
            "for boundary / random ranges with 20k-100k draws; random_data request sequences straddling the 4096-byte "
            "refill on fresh threads (canaries + six differently pre-filled calls); Vector2 exhaustive on [-4,4]^2, "
            "Vector3/4 sampled, every operator; random integer matrices for (AB)v = A(Bv), transposition; diagonally "
            "dominant matrices for inversion to 1e-9.",
            "Trusted: TLC; llround(x*1e12) in the harness for the fixed-point form of inverse(); norm1()/norm() are not "
            "part of the statement and not checked; matrices are exported in mathematical (row, column) form from "
            "phosg's column-major storage.",
            "DESIGN.md 3.20"),
    "C18": ("TLA+ relational predicates in exact BigNat arithmetic (spec/TimeFmt): DurationOk (format, padding, value "
            "within half a unit at the printed precision), civil-from-days calendar, SizeOk / ParseAgrees; TLC checks "
            "non-vacuity against an exact reference formatter and known dates, and validates recorded batches",
            "Durations around nine unit boundaries +-20 us densely and +-2 s coarsely, every seconds-in-minute value 0..61 "
            "with rounding-critical fractions in every magnitude branch, powers of ten, random up to 2^63, for every "
            "precision -1..6 (totality: an exception is a failure); timestamps at day boundaries +-1 us, leap days, second "
            "59 across 1970..9999 under a non-UTC local time zone; sizes at every power of 1024 +-2 and rounding-critical "
            "values in both forms with parse_size of the result; timeval conversions.",
            "Trusted: TLC. Sizes >= 15.99 EB are not driven (\"16.00 EB\" cannot be parsed back into 64 bits). A seconds "
            "field of 60 after rounding is accepted.",
            "DESIGN.md 3.18"),
    "C11": ("TLA+ definitions of RFC 4648 encoding, strict decoding, rot13, independent %HH and C-style unescapers with "
            "permitted-alphabet predicates, netloc rendering (spec/TextEnc): TLC checks round trip, strictness on every "
            "4-symbol text over a reduced alphabet and RFC vectors, and validates recorded batches",
            "Exhaustive: every byte string of length 0..1 (length 2 on a dense grid; thorough: all), 3k-65k strings of length "
            "3, random longer, both alphabets interleaved in one process so that state carried between calls is exercised; "
            "every text of length 0..5 over a reduced symbol set and 8-symbol texts with every 5-symbol head or tail, "
            "single-symbol corruptions at every position; rot13 / escapers on every byte value and random strings; netloc "
            "for 60 hosts x ports 0..65535 on a grid.",
            "Trusted: TLC. Non-canonical trailing bits in a padded quartet are accepted (the statement is silent).",
            "DESIGN.md 3.11"),
    "C10": ("TLA+ transcriptions of CRC-32, FNV-1a, MD5 (RFC 1321), SHA-1 and SHA-256 (FIPS 180-4) on 16-bit limbs with "
            "tables generated from the published formulas (spec/Hash): TLC checks RFC/FIPS known answers, padding and "
            "chaining laws, and validates every recorded digest of the real functions",
            "Every message length 0..130 (thorough 0..300 x 4 fill patterns) so that every padding case around the 55/56/63/64 "
            "boundaries occurs, boundary lengths to 1000, 4 KiB-64 KiB messages, both renderings; CRC/FNV up to 1 MiB and "
            "chaining at every split point incl. empty chunks; TLC evaluates the reference algorithm for every message.",
            "Trusted: TLC and CommunityModules Bitwise; messages above 300 bytes use one pseudo-random fill pattern.",
            "DESIGN.md 3.10"),
    "C09": ("TLA+ character-driven state machine of the data-string syntax (a fold with explicit `exact` flag) and a "
            "decoder of hex-dump lines incl. colour escapes, collapsing and address arithmetic in BigNat (spec/DataText): "
            "TLC checks the losslessness law on a reference formatter and every documented construct, and validates "
            "recorded round trips, parser runs and dumps",
            "format_data_string: every byte string of length <=1, pairs over 21 syntax characters, random strings up to 600 "
            "bytes x 4 mask styles x both flags - the text must parse back to (bytes, mask) under the TLA+ parser and under "
            "parse_data_string; parser totality on grammar-generated, edited, truncated and random texts in exact-size heap "
            "buffers (ASan), with exact expected bytes inside the modelled grammar; hex dumps over 12 start addresses "
            "(unaligned, around 2^32, near 2^64) x 15 flag sets x diff mode, collapsing edge cases, 1-4-way iovec partitions.",
            "Trusted: TLC, ASan. Float/double dump columns: geometry only. One known finding (end address 2^64) is listed "
            "in known_findings.json and reported as KNOWN-FINDING.",
            "DESIGN.md 3.9"),
    "C04": ("TLA+ RFC 8259 reference reader (lexer as a fold, recursive descent over tokens, exact decimal rounding to six "
            "significant digits) with phosg's documented extensions as a switch (spec/Json): TLC checks totality and "
            "'extensions never break standard documents' on every text up to length 4-5, and validates each recorded "
            "(value tree, option set, serialized text, re-parse, re-serialization, copy) tuple",
            "40 (thorough 1500) value trees built through the API x all 64 SerializeOption sets: the serialized text must be "
            "read back to the original value by the independent TLA+ reader (extensions on), by JSON::parse in default mode "
            "with the same int/float kind, and - for the four standard option sets - by the TLA+ reader with extensions off "
            "and by strict mode; sorted re-serialization must reproduce the text; copies must be deep and equal.",
            "Trusted: TLC; libc %.5e for the six-digit rendering of doubles; gson's 255 nesting limit in the trace reader is "
            "avoided by logging deep single-element chains compactly.",
            "DESIGN.md 3.4"),
    "C05": ("the same TLA+ reference reader (spec/Json) decides, for every recorded text, whether it is a standard document, "
            "a standard document with one documented extension, or neither, and what value it denotes; every outcome of the "
            "six (mode x entry point) combinations of the real parser is validated against that",
            "300 (thorough 5000) grammar-generated standard documents incl. all number shapes, every escape, whitespace in "
            "every legal position and nesting 500; extension variants (n/t/f, trailing commas, // comments, hex integers); "
            "trailing garbage; single-byte edits; every prefix of 12 documents; truncations; random texts; 50 hand-picked "
            "malformed inputs incl. non-string keys and inputs ending inside a comment marker or escape; all in exact-size "
            "heap buffers under ASan. Standard documents must be accepted with the reference value in both modes, extensions "
            "accepted by default and rejected by strict mode, everything else must yield a value, parse_error or out_of_range; "
            "the reader entry point must stop exactly after the value.",
            "Trusted: TLC, ASan as out-of-bounds sensor. Documents with duplicate keys, out-of-range numbers or \\u escapes "
            "above U+00FF have no reference value (totality only).",
            "DESIGN.md 3.5"),
    "C06": ("TLA+ reference decoders for Netpbm P5/P6/P7 and Windows BMP and a structural PNG validity predicate using the "
            "CRC-32 of spec/lib/Hash (spec/ImageCodec): TLC checks in small scope that the reference decoders invert "
            "reference encoders written from the format definitions and reject every proper prefix; every file saved or "
            "loaded by the real Image class is recorded byte for byte and validated against the reference decoders",
            "All sizes 1..5 x 1..5 (thorough 1..8 x 1..8) plus sizes 9..64 incl. every residue of width mod 4, alpha on/off, "
            "channel widths 8/16/32/64, three pixel styles: save as PPM/P7, BMP, PNG through both the string and the FILE* "
            "entry points, decode with the reference decoder, load back and compare; 70 foreign variants per size (P5, P6 "
            "with irregular whitespace, P7 with the four tuple types and permuted header lines at 8/16/32/64-bit samples, "
            "BMP header sizes 40/52/56/108/124, bottom-up / top-down, 24- and 32-bit BI_RGB with a gap before the pixel "
            "data, all 24 byte-mask permutations of BI_BITFIELDS); every prefix of every file up to 400 bytes (sampled "
            "beyond) loaded from an exact-size heap buffer under ASan + LSan.",
            "Trusted: TLC, zlib's inflate (used only to expose the scanlines of the PNG that are then judged by the spec), "
            "ASan/LSan as memory sensors. Dimensions beyond 64 are not driven.",
            "DESIGN.md 3.6"),
    "C07": ("TLA+ per-pixel model of the canvas (spec/Canvas): one generic clipped-blit operator parameterised by the "
            "colour rule, fill, dashed lines, the relational line law, mirror / invert / alpha identities, crop for clipping "
            "invariance: TLC checks clipping invariance and involutions of the model in small scope and validates recorded "
            "operation histories (the whole pixel buffer is logged after each call)",
            "Exhaustive 1-D sweeps of every (x, width, source offset) in [-3, size+3] for destination widths 0..4 (thorough "
            "0..8) in both orientations over the seven blit kinds and fill_rect; random operation histories on canvases up to "
            "8x8 with coordinates up to +-10^9, both alpha modes; Bresenham lines judged by the line law on a freshly painted "
            "canvas; transforms and copies as identity laws through 8/16/32/64-bit channel widths; clipping invariance of "
            "draw_text / fill_rect / blit with glyph cells placed exactly on the canvas edges. ASan build with exact-size "
            "pixel buffers; any out_of_range escaping a drawing call is a rejected outcome.",
            "Trusted: TLC, ASan. The arithmetic model is for 8-bit channels; coordinates are limited to +-10^9 (32-bit checker "
            "integers); resize_blit is not modelled.",
            "DESIGN.md 3.7"),
}

NOT_YET = "check not built yet in this round (planned: see DESIGN.md section 3)"


def main():
    checks = []
    for pid in ALL:
        if pid not in CLAIMED:
            continue
        tech, text, note, ref = CLAIMED[pid]
        checks.append({
            "property_id": pid,
            "quick_cmd": "python3 bin/check.py %s --tier quick" % pid,
            "thorough_cmd": "python3 bin/check.py %s --tier thorough" % pid,
            "evidence_file": "/verif/evidence/%s.json" % pid,
            "replay_cmd_template": "python3 bin/check.py %s --replay {path}" % pid,
            "engine": "tlc",
            "level_claimed": {"category": "model_checking", "text": text, "design_ref": ref},
            "level_note": note,
            "technique": tech,
        })
    m = {
        "version": 1,
        "setup_cmd": "python3 bin/check.py --setup",
        "hooks": {
            "guard": "PHOSG_VERIF",
            "enable": "no source hooks: the harness observes through public APIs, derived classes, "
                      "-fno-access-control, -Wl,--wrap syscall interposition and macro retargeting of "
                      "std::atomic/std::thread around #include <phosg/Tools.hh>; nothing in /repo is guarded",
            "baseline_off_cmd": "cmake -G Ninja -B /repo/_build -S /repo && cmake --build /repo/_build && "
                                "ctest --test-dir /repo/_build -j8 --timeout 900",
            "source_commits": [],
            "add_only": True,
        },
        "engines": [
            {"name": "tlc", "path": "bin/vlib.py", "serves_properties": sorted(CLAIMED),
             "kind_free_text": "TLC 1.8 model checking of spec/<Area>/MC_*.cfg, transition-table emission replayed "
                               "into the C++ implementation, and trace validation of ndjson traces recorded by "
                               "harness/drv_*.cc against spec/<Area>/Trace_*.tla"},
        ],
        "checks": checks,
        "not_applicable": [{"property_id": p, "reason": NOT_YET} for p in ALL if p not in CLAIMED],
        "notes": "All checks: python3 bin/check.py <ID> --tier quick|thorough. VERIF_REPO selects the tree "
                 "(default /repo); VERIF_SEED seeds random drivers. Exit 3 = infrastructure error (never a verdict).",
    }
    with open(os.path.join(VERIF, "MANIFEST.json"), "w") as f:
        json.dump(m, f, indent=1)
        f.write("\n")


if __name__ == "__main__":
    main()
