"""Build recipes of the conformance drivers (name -> variant / flags)."""
from vlib import driver

driver("drv_lru", variant="asan")
driver("drv_kdtree", variant="asan")
driver("drv_pr", variant="plain", lib=True)
driver("drv_prfree", variant="tsan")
driver("drv_byteio", variant="asan", cflags="-fno-access-control")
driver("drv_endian", variant="plain")
driver("drv_args", variant="plain", cflags="-fno-access-control")
driver("drv_strings", variant="asan")
driver("drv_fileio", variant="asan", cflags="-fno-access-control", ldflags="-Wl,--wrap=read -Wl,--wrap=pread -Wl,--wrap=close")
driver("drv_subprocess", variant="plain", ldflags="-Wl,--wrap=pipe -Wl,--wrap=waitpid -Wl,--wrap=poll -Wl,--wrap=read -Wl,--wrap=write -Wl,--wrap=close")
driver("verif_child", variant="plain", lib=False)
driver("drv_expect", variant="plain")
driver("drv_mathvec", variant="asan")
driver("drv_timefmt", variant="plain")
driver("drv_textenc", variant="asan")
driver("drv_hash", variant="asan")
