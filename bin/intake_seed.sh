#!/bin/bash
# intake_seed.sh <ID> <n> : take the deliverables of a mutation sub-agent from its scratch worktree /tmp/wt-<ID>-<n>/_seed,
# confirm them independently (bin/confirm_seed.py), run the property's quick check against the change (bin/mutant.py),
# keep them as seeded/<ID>-<n>/ when confirmed, and remove the worktree.
id=$1; n=$2; wt=/tmp/wt-$id-$n; dst=/verif/seeded/$id-$n
[ -f $wt/_seed/patch.diff ] || { echo "no deliverables in $wt/_seed"; exit 2; }
mkdir -p $dst && cp $wt/_seed/patch.diff $wt/_seed/demo.cc $wt/_seed/meta.json $dst/
git -C /repo worktree remove --force $wt; rm -rf $wt
python3 /verif/bin/confirm_seed.py $dst > $dst/confirm.json 2>&1; crc=$?
python3 /verif/bin/mutant.py $dst/patch.diff $id > /tmp/intake_$id-$n.log 2>&1
grep -m3 "rc=\|reason" /tmp/intake_$id-$n.log | cut -c1-260
python3 - "$dst" "$crc" /tmp/intake_$id-$n.log <<'PY'
import json,sys,re
d,crc,log=sys.argv[1],int(sys.argv[2]),open(sys.argv[3]).read()
m=json.load(open(d+"/meta.json"))
c=json.load(open(d+"/confirm.json")) if crc in (0,1) else {}
mm=re.search(r"== (C\d\d) rc=(\d+) violations=(\d+)",log)
m["confirmed_independently"]=bool(c.get("confirmed"))
m["what_was_run"]=["bin/confirm_seed.py (scratch copy: baseline demo passes; with patch: build ok, 14 tests pass, demo fails)",
                   "bin/mutant.py patch.diff %s --tier quick (scratch copy via VERIF_REPO)"%m["property"]]
m["check_result"]={"rc":int(mm.group(2)),"violations":int(mm.group(3))} if mm else {"rc":None}
r=re.findall(r'reason: (\{.*)',log)
if r:
    try: m["check_result"]["first_reason"]=json.loads(r[0]).get("why","")
    except Exception: m["check_result"]["first_reason"]=r[0][:200]
json.dump(m,open(d+"/meta.json","w"),indent=1)
print("confirmed:",m["confirmed_independently"],"check:",m["check_result"])
PY
rm -f $dst/confirm.json
