#!/usr/bin/env python3
"""merge_results.py : bring seeded/RESULTS.json / RESULTS.md up to date without re-running everything: rows of a partial
selftest run (seeded/<NAME>.json given as arguments) replace the rows of the same (property, change); kept changes that have
no row yet get one from the quick-tier result recorded in their meta.json by bin/intake_seed.sh (same tool: bin/mutant.py)."""
import json
import os
import sys

VERIF = os.path.dirname(os.path.dirname(os.path.abspath(__file__)))
sd = os.path.join(VERIF, "seeded")
rows = {(r["property"], r["change"]): r for r in json.load(open(os.path.join(sd, "RESULTS.json")))}
for name in sys.argv[1:]:
    for r in json.load(open(os.path.join(sd, name + ".json"))):
        rows[(r["property"], r["change"])] = r
for d in sorted(os.listdir(sd)):
    mp = os.path.join(sd, d, "meta.json")
    if not os.path.isfile(mp):
        continue
    pid = d.split("-")[0]
    if (pid, d) in rows:
        continue
    m = json.load(open(mp))
    cr = m.get("check_result_after_strengthening") or m.get("check_result") or {}
    rc, nv = cr.get("rc"), cr.get("violations", 0)
    verdict = "caught" if rc == 1 and nv > 0 else "MISSED" if rc == 0 else "error"
    rows[(pid, d)] = dict(kind="seeded", change=d, property=pid, tier="quick", rc=rc, violations=nv, verdict=verdict,
                          first_reason=(cr.get("first_reason") or "")[:220])
out = sorted(rows.values(), key=lambda r: (r["property"], r["kind"], r["change"]))
json.dump(out, open(os.path.join(sd, "RESULTS.json"), "w"), indent=1)
with open(os.path.join(sd, "RESULTS.md"), "w") as f:
    f.write("| property | change | kind | verdict (quick tier) | first rejection |\n|---|---|---|---|---|\n")
    for r in out:
        f.write("| %s | %s | %s | %s (%d) | %s |\n" % (r["property"], r["change"], r["kind"], r["verdict"], r["violations"] or 0,
                                                 (r["first_reason"] or "").replace("|", "/").replace("\n", " ")))
n = {}
for r in out:
    n[r["verdict"]] = n.get(r["verdict"], 0) + 1
print(len(out), n)
