#!/bin/bash
# Run every check (C01..C20 and the extension checks X01, X02) of one tier against the repository (VERIF_REPO, default
# /repo), a few at a time, and print one line per check.  Evidence files are rewritten by the checks themselves.
#   bin/run_all.sh quick|thorough [parallel=3]
tier=${1:-quick}
par=${2:-3}
cd "$(dirname "$0")/.."
mkdir -p build/logs
ids="C01 C02 C03 C04 C05 C06 C07 C08 C09 C10 C11 C12 C13 C14 C15 C16 C17 C18 C19 C20 X01 X02 X03"
echo $ids | tr ' ' '\n' | xargs -P "$par" -I{} sh -c "python3 bin/check.py {} --tier $tier > build/logs/{}-$tier.log 2>&1; echo \"{} rc=\$? \$(grep -c '^VIOLATION' build/logs/{}-$tier.log) violations; \$(tail -1 build/logs/{}-$tier.log | cut -c1-150)\""
