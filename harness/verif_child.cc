// Scripted child process for the C15 driver.  argv = a program over:
//   w1:N w2:N   write N pattern bytes to stdout / stderr        r:N   read N bytes of stdin
//   rall        read stdin to the end                           cat   copy stdin to stdout until end of input
//   s:MS        sleep MS milliseconds                           ci co close stdin / stdout
//   rep         write "GOT <count:010> <sum:010>\n" to stderr   x:C   exit(C)        k:S  raise(S)
// Stream patterns: stdout byte i = (i*131+7)&255, stderr byte i = (i*137+11)&255 (counted per stream).
#include <signal.h>
#include <stdint.h>
#include <stdio.h>
#include <stdlib.h>
#include <string.h>
#include <unistd.h>
#include <string>
static uint64_t outpos[3] = {0, 0, 0};
static uint64_t got = 0;
static uint32_t sum = 0;
static void wr(int fd, const char* p, size_t n) {
  while (n) {
    ssize_t k = write(fd, p, n);
    if (k <= 0) _exit(97);
    p += k;
    n -= k;
  }
}
static void gen(int fd, uint64_t n) {
  char buf[4096];
  while (n) {
    size_t k = n < sizeof buf ? n : sizeof buf;
    for (size_t i = 0; i < k; i++) {
      uint64_t pos = outpos[fd] + i;
      buf[i] = (char)(fd == 1 ? (pos * 131 + 7) : (pos * 137 + 11));
    }
    wr(fd, buf, k);
    outpos[fd] += k;
    n -= k;
  }
}
static void eat(const char* p, ssize_t k) {
  for (ssize_t i = 0; i < k; i++) sum = sum * 31 + (unsigned char)p[i];
  got += k;
}
int main(int argc, char** argv) {
  signal(SIGPIPE, SIG_IGN);
  for (int a = 1; a < argc; a++) {
    std::string t = argv[a];
    long v = 0;
    size_t c = t.find(':');
    if (c != std::string::npos) v = atol(t.c_str() + c + 1);
    std::string op = t.substr(0, c);
    char buf[4096];
    if (op == "w1") gen(1, v);
    else if (op == "w2") gen(2, v);
    else if (op == "r") {
      long left = v;
      while (left > 0) {
        ssize_t k = read(0, buf, left < (long)sizeof buf ? left : sizeof buf);
        if (k <= 0) break;
        eat(buf, k);
        left -= k;
      }
    } else if (op == "rall") {
      for (;;) {
        ssize_t k = read(0, buf, sizeof buf);
        if (k <= 0) break;
        eat(buf, k);
      }
    } else if (op == "cat") {
      for (;;) {
        ssize_t k = read(0, buf, sizeof buf);
        if (k <= 0) break;
        eat(buf, k);
        wr(1, buf, k);
      }
    } else if (op == "s") usleep(v * 1000);
    else if (op == "it") signal(SIGTERM, SIG_IGN);  // survive the first termination request
    else if (op == "ci") close(0);
    else if (op == "co") close(1);
    else if (op == "rep") {
      char line[64];
      int n = snprintf(line, sizeof line, "GOT %010llu %010u\n", (unsigned long long)got, sum);
      wr(2, line, n);
    } else if (op == "x") _exit((int)v);
    else if (op == "k") {
      signal((int)v, SIG_DFL);
      raise((int)v);
    }
  }
  return 0;
}
