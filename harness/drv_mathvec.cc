// C20 driver: gcd / reduce_fraction / log2i / random_int / random_data / Vector2-4 / Matrix4 (spec/MathVec).
//   drv_mathvec <out> <tier> <seed>
#include <math.h>

#include <limits>
#include <thread>

#include <phosg/Math.hh>
#include <phosg/Random.hh>
#include <phosg/Vector.hh>

#include "trace.hh"

using namespace std;
using namespace phosg;

static vt::Trace tr;
static string iv(const vector<long long>& v) {
  string s = "[";
  for (size_t i = 0; i < v.size(); i++) {
    if (i) s += ",";
    s += to_string(v[i]);
  }
  return s + "]";
}
static string dg(uint64_t v) { return vt::J::arr_u64(v, 8); }

template <typename T>
static void gcd_small(const char* type, long long maxv) {
  vector<long long> as, bs, gs, xs, ys;
  long long lim = min<long long>(maxv, 300);
  for (long long a = 0; a <= lim; a += (lim > 130 ? 1 : 1))
    for (long long b = 0; b <= lim; b++) {
      if (lim > 130 && ((a * 7 + b * 3) % 5) && a > 40 && b > 40) continue;  // dense near zero, thinned elsewhere
      T g = gcd<T>((T)a, (T)b);
      as.push_back(a);
      bs.push_back(b);
      gs.push_back((long long)g);
      if (g != 0) {
        auto f = reduce_fraction<T>((T)a, (T)b);
        xs.push_back((long long)f.first);
        ys.push_back((long long)f.second);
      } else {
        xs.push_back(0);
        ys.push_back(0);
      }
    }
  vt::J j;
  j.str("e", "gcd").str("type", type).raw("as", iv(as)).raw("bs", iv(bs)).raw("gs", iv(gs)).raw("xs", iv(xs)).raw("ys", iv(ys));
  tr.emit(j);
  tr.events += as.size() - 1;
  tr.nontrivial(string("gcd") + type);
}
template <typename T>
static void gcd_big(const char* type, vt::Rng& r, int count) {
  uint64_t mx = (uint64_t)numeric_limits<T>::max();
  vector<uint64_t> B = {1, 2, 3, 6, 255, 256, 65535, 65536, mx, mx - 1, mx / 2, mx / 3, mx / 2 + 1, (mx / 6) * 6, (mx / 255) * 255};
  for (int i = 0; i < count; i++) {
    uint64_t g = 1 + r.below(1000), m = mx / g, x = m == UINT64_MAX ? r.next() : r.next() % (m + 1);
    B.push_back(x * g);
  }
  string as = "[", bs = "[", gs = "[", xs = "[", ys = "[";
  bool first = true;
  for (size_t i = 0; i < B.size(); i++)
    for (size_t k = 0; k < B.size(); k += (B.size() > 40 ? 1 + r.below(6) : 1)) {
      T a = (T)B[i], b = (T)B[k];
      if (a == 0 || b == 0) continue;
      T g = gcd<T>(a, b);
      auto f = reduce_fraction<T>(a, b);
      if (!first) {
        as += ",";
        bs += ",";
        gs += ",";
        xs += ",";
        ys += ",";
      }
      first = false;
      as += dg((uint64_t)a);
      bs += dg((uint64_t)b);
      gs += dg((uint64_t)g);
      xs += dg((uint64_t)f.first);
      ys += dg((uint64_t)f.second);
      tr.events++;
    }
  vt::J j;
  j.str("e", "gcdbig").str("type", type).raw("as", as + "]").raw("bs", bs + "]").raw("gs", gs + "]").raw("xs", xs + "]").raw("ys", ys + "]");
  tr.emit(j);
  tr.nontrivial(string("gcdbig") + type);
}
template <typename T>
static void log2_cases(const char* type, vt::Rng& r) {
  string vs = "[";
  vector<long long> rs;
  int bits = sizeof(T) * 8 - (numeric_limits<T>::is_signed ? 1 : 0);
  bool first = true;
  auto add = [&](uint64_t v) {
    if (v == 0 || v > (uint64_t)numeric_limits<T>::max()) return;
    if (!first) vs += ",";
    first = false;
    vs += dg(v);
    rs.push_back((long long)log2i<T>((T)v));
  };
  for (int k = 0; k < bits; k++) {
    uint64_t p = 1ULL << k;
    add(p);
    add(p - 1);
    add(p + 1);
    add(p | (p >> 1));
    add(p + r.below(p));
  }
  add((uint64_t)numeric_limits<T>::max());
  vt::J j;
  j.str("e", "log2").str("type", type).raw("vs", vs + "]").raw("rs", iv(rs));
  tr.emit(j);
  tr.events += rs.size() - 1;
  tr.nontrivial(string("log2") + type);
}

template <typename V, int D>
static vector<long long> comps(const V& v) {
  vector<long long> r;
  for (int i = 0; i < D; i++) r.push_back((long long)v.at(i));
  return r;
}
template <typename V, int D>
static V mk(const vector<int>& c) {
  if constexpr (D == 2) return V(c[0], c[1]);
  else if constexpr (D == 3) return V(c[0], c[1], c[2]);
  else return V(c[0], c[1], c[2], c[3]);
}

template <typename V, int D>
static void vec_cases(vt::Rng& r, long npairs) {
  // all vectors with components in -4..4
  vector<vector<int>> all;
  vector<int> idx(D, -4);
  for (;;) {
    all.push_back(idx);
    int i = D - 1;
    while (i >= 0 && ++idx[i] == 5) idx[i--] = -4;
    if (i < 0) break;
  }
  // norm1() is the plain component sum in phosg and is not part of the statement: not driven
  static const char* OPS[] = {"add", "sub", "neg", "adds", "subs", "mul", "div", "mod", "eq", "ne", "lt", "not", "dot", "cross",
      "norm2", "at", "compound"};
  for (const char* opc : OPS) {
    string op = opc;
    if (op == "cross" && D != 3) continue;
    string us = "[", vs = "[", rs = "[";
    vector<long long> ks;
    bool first = true;
    bool unary = op == "neg" || op == "not" || op == "norm1" || op == "norm2" || op == "at";
    bool exhaustive = (long)all.size() * (long)all.size() <= npairs;
    long n = unary ? (long)all.size() : exhaustive ? (long)all.size() * (long)all.size() : npairs;
    for (long c = 0; c < n; c++) {
      const vector<int>& uc = unary ? all[c] : exhaustive ? all[c / all.size()] : all[r.below(all.size())];
      const vector<int>& vc = unary ? all[0] : exhaustive ? all[c % all.size()] : all[r.below(all.size())];
      long long k = (long long)r.range(-4, 4);
      if ((op == "div" || op == "mod") && k == 0) k = 3;
      V u = mk<V, D>(uc), v = mk<V, D>(vc);
      vector<long long> res;
      // every other case goes through the compound-assignment form; equal operands are then the SAME object (w += w)
      bool cf = (c % 2) == 1, alias = cf && uc == vc;
      auto compound = [&](auto apply) {
        V w = u;
        apply(w, alias ? w : v);
        return comps<V, D>(w);
      };
      if (op == "add") res = cf ? compound([](V& w, const V& o) { w += o; }) : comps<V, D>(u + v);
      else if (op == "sub") res = cf ? compound([](V& w, const V& o) { w -= o; }) : comps<V, D>(u - v);
      else if (op == "neg") res = comps<V, D>(-u);
      else if (op == "adds") res = cf ? compound([&](V& w, const V&) { w += (int64_t)k; }) : comps<V, D>(u + (int64_t)k);
      else if (op == "subs") res = cf ? compound([&](V& w, const V&) { w -= (int64_t)k; }) : comps<V, D>(u - (int64_t)k);
      else if (op == "mul") res = cf ? compound([&](V& w, const V&) { w *= (int64_t)k; }) : comps<V, D>(u * (int64_t)k);
      else if (op == "div") res = cf ? compound([&](V& w, const V&) { w /= (int64_t)k; }) : comps<V, D>(u / (int64_t)k);
      else if (op == "mod") res = cf ? compound([&](V& w, const V&) { w %= (int64_t)k; }) : comps<V, D>(u % (int64_t)k);
      else if (op == "eq") res = {u == v};
      else if (op == "ne") res = {u != v};
      else if (op == "lt") res = {u < v};
      else if (op == "not") res = {!u};
      else if (op == "dot") res = {(long long)u.dot(v)};
      else if (op == "norm1") res = {(long long)u.norm1()};
      else if (op == "norm2") res = {(long long)u.norm2()};
      else if (op == "at") res = comps<V, D>(u);
      else if (op == "compound") {
        V w = u;
        w += v;
        w -= v;
        w += (int64_t)k;
        res = comps<V, D>(w);
      } else if (op == "cross") {
        if constexpr (D == 3) res = comps<V, D>(u.cross(v));
      }
      if (!first) {
        us += ",";
        vs += ",";
        rs += ",";
      }
      first = false;
      us += iv(vector<long long>(uc.begin(), uc.end()));
      vs += iv(vector<long long>(vc.begin(), vc.end()));
      rs += iv(res);
      ks.push_back(k);
    }
    vt::J j;
    j.str("e", "vec").num("dim", D).str("op", op).raw("u", us + "]").raw("v", vs + "]").raw("k", iv(ks)).raw("r", rs + "]");
    tr.emit(j);
    tr.events += n - 1;
    tr.nontrivial("vec" + to_string(D) + op);
  }
}

static string mat_json(const Matrix4<int64_t>& m) {
  string s = "[";
  for (int i = 0; i < 4; i++) {
    if (i) s += ",";
    // phosg stores matrices column-major (m[column][row], see Matrix4 * Vector4); export mathematical rows
    s += iv({m.m[0][i], m.m[1][i], m.m[2][i], m.m[3][i]});
  }
  return s + "]";
}

// order and equality for UNSIGNED component types (components 0..4): a comparison must not go through the sign of a
// difference, which an unsigned type does not have
template <typename V, int D>
static void vec_order_cases(vt::Rng& r, long npairs) {
  vector<vector<int>> all;
  vector<int> idx(D, 0);
  for (;;) {
    all.push_back(idx);
    int i = D - 1;
    while (i >= 0 && ++idx[i] == 5) idx[i--] = 0;
    if (i < 0) break;
  }
  for (const char* opc : {"eq", "ne", "lt"}) {
    string op = opc;
    string us = "[", vs = "[", rs = "[";
    vector<long long> ks;
    bool exhaustive = (long)all.size() * (long)all.size() <= npairs;
    long n = exhaustive ? (long)all.size() * (long)all.size() : npairs;
    for (long c = 0; c < n; c++) {
      const vector<int>& uc = exhaustive ? all[c / all.size()] : all[r.below(all.size())];
      const vector<int>& vc = exhaustive ? all[c % all.size()] : (r.chance(30) ? uc : all[r.below(all.size())]);
      V u = mk<V, D>(uc), v = mk<V, D>(vc);
      long long res = op == "eq" ? (u == v) : op == "ne" ? (u != v) : (u < v);
      us += (c ? "," : "") + iv(vector<long long>(uc.begin(), uc.end()));
      vs += (c ? "," : "") + iv(vector<long long>(vc.begin(), vc.end()));
      rs += (c ? "," : "") + iv({res});
      ks.push_back(0);
    }
    vt::J j;
    j.str("e", "vec").num("dim", D).str("op", op).raw("u", us + "]").raw("v", vs + "]").raw("k", iv(ks)).raw("r", rs + "]");
    tr.emit(j);
    tr.events += n - 1;
    tr.nontrivial("vecu" + to_string(D) + op + to_string(sizeof(V) / D));
  }
}

int main(int argc, char** argv) {
  if (argc < 4) return 2;
  tr.open(argv[1]);
  bool quick = string(argv[2]) == "quick";
  vt::Rng r(strtoull(argv[3], nullptr, 10) * 911 + 5);
  tr.emit("{\"e\":\"Reset\"}");
  tr.histories++;
  gcd_small<uint8_t>("uint8_t", 255);
  gcd_small<int8_t>("int8_t", 127);
  gcd_small<uint16_t>("uint16_t", 300);
  gcd_small<int32_t>("int32_t", 300);
  gcd_small<uint64_t>("uint64_t", 300);
  gcd_small<int64_t>("int64_t", 300);
  gcd_big<uint16_t>("uint16_t", r, quick ? 10 : 60);
  gcd_big<uint32_t>("uint32_t", r, quick ? 10 : 60);
  gcd_big<int32_t>("int32_t", r, quick ? 10 : 60);
  gcd_big<uint64_t>("uint64_t", r, quick ? 10 : 60);
  gcd_big<int64_t>("int64_t", r, quick ? 10 : 60);
  log2_cases<uint8_t>("uint8_t", r);
  log2_cases<int8_t>("int8_t", r);
  log2_cases<uint16_t>("uint16_t", r);
  log2_cases<int16_t>("int16_t", r);
  log2_cases<uint32_t>("uint32_t", r);
  log2_cases<int32_t>("int32_t", r);
  log2_cases<uint64_t>("uint64_t", r);
  log2_cases<int64_t>("int64_t", r);
  // random_int
  {
    string lo = "[", hi = "[", rr = "[";
    int n = quick ? 20000 : 100000;
    for (int i = 0; i < n; i++) {
      int64_t a, b;
      switch (r.below(6)) {
        case 0: a = (int64_t)r.range(-5, 5); b = a + (int64_t)r.below(3); break;
        case 1: a = (int64_t)r.next() >> 2; b = a + (int64_t)(r.next() >> 2); if (b < a) b = a; break;
        case 2: a = numeric_limits<int64_t>::min(); b = a + (int64_t)(r.next() >> 1); break;
        case 3: b = numeric_limits<int64_t>::max(); a = b - (int64_t)(r.next() >> 1); break;
        case 4: a = (int64_t)r.range(-70000, 70000); b = a + (int64_t)(int64_t[]){0, 254, 255, 256, 65534, 65535, 65536, 0xFFFFFFFELL, 0xFFFFFFFFLL, 0x100000000LL}[r.below(10)]; break;
        default: a = -(int64_t)r.below(1000); b = (int64_t)r.below(1000); break;
      }
      int64_t v = random_int(a, b);
      if (i) {
        lo += ",";
        hi += ",";
        rr += ",";
      }
      lo += dg((uint64_t)a);
      hi += dg((uint64_t)b);
      rr += dg((uint64_t)v);
    }
    vt::J j;
    j.str("e", "rint").raw("lo", lo + "]").raw("hi", hi + "]").raw("r", rr + "]");
    tr.emit(j);
    tr.events += n - 1;
    tr.nontrivial("rint");
  }
  // random_data: sequences of requests around the 4096-byte refill, on this thread and on fresh threads
  {
    auto probe = [&](const vector<size_t>& sizes) {
      for (size_t n : sizes) {
        const size_t G = 64;
        vector<uint8_t> unchanged(n, 1);
        bool outside = false;
        for (int call = 0; call < 6; call++) {
          uint8_t fill = (uint8_t)(0x11 * (call + 1));
          vector<uint8_t> buf(n + 2 * G, fill);
          phosg::random_data(buf.data() + G, n);
          for (size_t i = 0; i < G; i++)
            if (buf[i] != fill || buf[G + n + i] != fill) outside = true;
          for (size_t i = 0; i < n; i++)
            if (buf[G + i] != fill) unchanged[i] = 0;
        }
        long unfilled = 0;
        for (uint8_t u : unchanged) unfilled += u;
        string s = phosg::random_data(n);
        vt::J j;
        j.str("e", "rdata").num("n", (long long)n).num("outside", outside).num("unfilled", unfilled).num("len", (long long)s.size());
        tr.emit(j);
        tr.nontrivial("rdata" + to_string(n > 4096) + to_string(n % 4096 == 0));
      }
    };
    probe({0, 1, 100, 3000, 3000, 4095, 4096, 4097, 1, 8191, 8192, 8193, 10000, 5, 4091, 5, 1, 4096, 12288});
    for (int t = 0; t < (quick ? 3 : 12); t++) {
      vector<size_t> sizes;
      for (int k = 0; k < 12; k++) sizes.push_back(r.chance(30) ? r.below(10001) : r.below(5000));
      thread th([&] { probe(sizes); });
      th.join();
    }
  }
  vec_cases<Vector2<int64_t>, 2>(r, 7000);
  vec_cases<Vector3<int64_t>, 3>(r, quick ? 4000 : 40000);
  vec_cases<Vector4<int64_t>, 4>(r, quick ? 2000 : 20000);
  vec_order_cases<Vector2<uint32_t>, 2>(r, 700);
  vec_order_cases<Vector3<uint32_t>, 3>(r, quick ? 2000 : 16000);
  vec_order_cases<Vector4<uint32_t>, 4>(r, quick ? 2000 : 20000);
  vec_order_cases<Vector2<uint64_t>, 2>(r, 700);
  vec_order_cases<Vector3<uint64_t>, 3>(r, quick ? 2000 : 16000);
  vec_order_cases<Vector4<uint64_t>, 4>(r, quick ? 2000 : 20000);
  vec_order_cases<Vector4<uint8_t>, 4>(r, 1000);
  vec_order_cases<Vector3<double>, 3>(r, 1000);
  // matrices over small integers
  {
    int n = quick ? 1500 : 10000;
    string a = "[", b = "[", v = "[", ab = "[", abv = "[", at = "[", att = "[";
    for (int i = 0; i < n; i++) {
      Matrix4<int64_t> A, B;
      for (int x = 0; x < 4; x++)
        for (int y = 0; y < 4; y++) {
          A.m[x][y] = r.range(-9, 9);
          B.m[x][y] = r.chance(15) ? 0 : r.range(-9, 9);
        }
      Vector4<int64_t> V(r.range(-9, 9), r.range(-9, 9), r.range(-9, 9), r.range(-9, 9));
      // the product through operator*, through operator*= and through operator*= with the SAME object on both sides
      Matrix4<int64_t> AB;
      if (i % 3 == 0) {
        AB = A * B;
      } else if (i % 3 == 1) {
        AB = A;
        AB *= B;
      } else {
        B = A;
        AB = A;
        AB *= AB;
      }
      Vector4<int64_t> ABV = AB * V;
      Matrix4<int64_t> AT = A.transposition();
      Matrix4<int64_t> ATT = AT;
      ATT.transpose();
      if (i) {
        a += ","; b += ","; v += ","; ab += ","; abv += ","; at += ","; att += ",";
      }
      a += mat_json(A);
      b += mat_json(B);
      v += iv({V.x, V.y, V.z, V.w});
      ab += mat_json(AB);
      abv += iv({ABV.x, ABV.y, ABV.z, ABV.w});
      at += mat_json(AT);
      att += mat_json(ATT);
    }
    vt::J j;
    j.str("e", "mat").raw("a", a + "]").raw("b", b + "]").raw("v", v + "]").raw("ab", ab + "]").raw("abv", abv + "]").raw("at", at + "]").raw("att", att + "]");
    tr.emit(j);
    tr.events += n - 1;
    tr.nontrivial("mat");
  }
  // inversion of strictly diagonally dominant matrices
  {
    int n = quick ? 400 : 2000;
    string m = "[", mf = "[", xhi = "[", xlo = "[";
    for (int i = 0; i < n; i++) {
      Matrix4<double> M;
      long long Mi[4][4];
      for (int x = 0; x < 4; x++) {
        long long off = 0;
        for (int y = 0; y < 4; y++)
          if (x != y) {
            Mi[x][y] = r.range(-5, 5);
            off += llabs(Mi[x][y]);
          }
        Mi[x][x] = (off + 1 + (long long)r.below(4)) * (r.chance(50) ? 1 : -1);
      }
      // unit pivots: some lines have no off-diagonal entries and a diagonal of +-1, while the other lines keep entries
      // in that position (a pivot that is already "normalised"); also the transposed arrangement
      if (i % 3 == 1) {
        for (int x = 0; x < 4; x++)
          if (r.chance(45)) {
            for (int y = 0; y < 4; y++)
              if (y != x) Mi[x][y] = 0;
            Mi[x][x] = r.chance(70) ? 1 : -1;
          }
      }
      if (i % 6 == 4)
        for (int x = 0; x < 4; x++)
          for (int y = x + 1; y < 4; y++) swap(Mi[x][y], Mi[y][x]);
      // tiny couplings: some zero off-diagonal entries become k * 1e-7 (|k| <= 9), far below the other entries but far
      // above the 1e-9 tolerance - an elimination step may not treat them as zero
      long long Mf[4][4] = {};
      if (i % 5 == 2)
        for (int x = 0; x < 4; x++)
          for (int y = 0; y < 4; y++)
            if (x != y && r.chance(40)) {
              Mi[x][y] = 0;
              Mf[x][y] = r.range(-9, 9);
            }
      for (int x = 0; x < 4; x++)
        for (int y = 0; y < 4; y++) M.m[x][y] = (double)Mi[x][y] + (double)Mf[x][y] * 1e-7;
      // uniform scaling by a power of two keeps the matrix strictly diagonally dominant and is exact in binary floating
      // point: inverse(M * 2^k) * 2^k is inverse(M) again - pivots of 1e-11 or 1e+18 are as good as pivots near 1
      static const int KS[] = {-34, -40, -100, -200, 30, 60, 200, -31};
      double scale = (i % 4 == 3) ? ldexp(1.0, KS[r.below(8)]) : 1.0;
      if (scale != 1.0)
        for (int x = 0; x < 4; x++)
          for (int y = 0; y < 4; y++) M.m[x][y] *= scale;
      Matrix4<double> X;
      try {
        X = r.chance(50) ? M.inverse() : Matrix4<double>(M).invert();
      } catch (const exception& e) {
        vt::J je;
        je.str("e", "invthrew").num("i", i).num("log2scale", (long long)ilogb(scale)).str("what", e.what());
        tr.emit(je);
      }
      if (scale != 1.0)
        for (int x = 0; x < 4; x++)
          for (int y = 0; y < 4; y++) X.m[x][y] *= scale;
      if (i) {
        m += ","; mf += ","; xhi += ","; xlo += ",";
      }
      string ms = "[", fs = "[", hs = "[", ls = "[";
      for (int x = 0; x < 4; x++) {
        if (x) {
          ms += ","; fs += ","; hs += ","; ls += ",";
        }
        vector<long long> mr, fr, hr, lr;
        for (int y = 0; y < 4; y++) {
          mr.push_back(Mi[y][x]);
          fr.push_back(Mf[y][x]);
          long long fx = llround(X.m[y][x] * 1e12);
          hr.push_back(fx / 1000000);
          lr.push_back(fx % 1000000);
        }
        ms += iv(mr);
        fs += iv(fr);
        hs += iv(hr);
        ls += iv(lr);
      }
      m += ms + "]";
      mf += fs + "]";
      xhi += hs + "]";
      xlo += ls + "]";
    }
    vt::J j;
    j.str("e", "inv").raw("m", m + "]").raw("mf", mf + "]").raw("xhi", xhi + "]").raw("xlo", xlo + "]");
    tr.emit(j);
    tr.events += n - 1;
    tr.nontrivial("inv");
  }
  tr.stats();
  return 0;
}
