// C06 driver: Image save / load through PPM (P6/P7), BMP, PNG, foreign input variants and truncated files
// (spec/ImageCodec).   drv_imagecodec <out> <tier> <seed> <shard> <nshards>
// ASan + LSan build: leaks on exception paths and out-of-bounds accesses end the process => Crash event.
#include <zlib.h>

#include <phosg/Filesystem.hh>
#include <phosg/Image.hh>

#include <fcntl.h>
#include <unistd.h>

#include "trace.hh"
using namespace std;
using namespace phosg;
static vt::Trace tr;
static string js(const string& s) { return vt::J::arr_bytes(s.data(), s.size()); }

static string img_json(const Image& im) {
  string raw((const char*)im.get_data(), im.get_data_size());
  return "{\"w\":" + to_string(im.get_width()) + ",\"h\":" + to_string(im.get_height()) + ",\"alpha\":" + (im.get_has_alpha() ? "true" : "false") +
      ",\"cw\":" + to_string((int)im.get_channel_width()) + ",\"raw\":" + js(raw) + "}";
}
static const char* NOIMG = "{\"w\":0,\"h\":0,\"alpha\":false,\"cw\":8,\"raw\":[]}";
static bool same_image(const Image& a, const Image& b) {
  return a.get_width() == b.get_width() && a.get_height() == b.get_height() && a.get_has_alpha() == b.get_has_alpha() &&
      a.get_channel_width() == b.get_channel_width() && a.get_data_size() == b.get_data_size() &&
      (a.get_data_size() == 0 || memcmp(a.get_data(), b.get_data(), a.get_data_size()) == 0);
}
// load from memory through an exact-size heap buffer (fmemopen), so that reads past the end are impossible to miss
static string load_bytes(const string& file, Image* out) {
  char* heap = (char*)malloc(file.size() ? file.size() : 1);
  memcpy(heap, file.data(), file.size());
  FILE* f = fmemopen(heap, file.size() ? file.size() : 1, "rb");
  if (file.empty()) {
    // fmemopen cannot open a zero-length buffer for reading everywhere: read one byte that is then "consumed"
    fgetc(f);
  }
  string status = "ok";
  try {
    Image im(f);
    *out = std::move(im);
  } catch (const exception& e) {
    status = vt::exc_name(e);
  }
  fclose(f);
  free(heap);
  return status;
}
static string inflate_png(const string& file) {
  // concatenate IDAT payloads and inflate with zlib (trusted base)
  string idat;
  size_t i = 8;
  while (i + 12 <= file.size()) {
    uint32_t n = ((uint8_t)file[i] << 24) | ((uint8_t)file[i + 1] << 16) | ((uint8_t)file[i + 2] << 8) | (uint8_t)file[i + 3];
    if (i + 12 + n > file.size()) break;
    if (file.compare(i + 4, 4, "IDAT") == 0) idat.append(file, i + 8, n);
    i += 12 + n;
  }
  string out(1 << 22, 0);
  uLongf len = out.size();
  if (uncompress((Bytef*)out.data(), &len, (const Bytef*)idat.data(), idat.size()) != Z_OK) return "\xff<inflate failed>";
  out.resize(len);
  return out;
}
// loading BY NAME (both filename constructors): same outcome as through a stream, and no descriptor left open -
// whether the file loads or is rejected
static string g_tmp_path;
static int count_fds() {
  int n = 0;
  for (int fd = 0; fd < 256; fd++)
    if (fcntl(fd, F_GETFD) != -1) n++;
  return n;
}
static string load_by_name(const string& file, Image* out, int* leaked, bool as_string) {
  FILE* f = fopen(g_tmp_path.c_str(), "wb");
  fwrite(file.data(), 1, file.size(), f);
  fclose(f);
  int before = count_fds();
  string status = "ok";
  try {
    if (as_string) {
      Image im(g_tmp_path);
      *out = std::move(im);
    } else {
      Image im(g_tmp_path.c_str());
      *out = std::move(im);
    }
  } catch (const exception& e) {
    status = vt::exc_name(e);
  }
  *leaked = count_fds() - before;
  for (int fd = 3; *leaked > 0 && fd < 256; fd++) {  // do not let a leak starve the rest of the run
    char link[64], target[512];
    snprintf(link, sizeof link, "/proc/self/fd/%d", fd);
    ssize_t k = readlink(link, target, sizeof target - 1);
    if (k > 0 && string(target, k) == g_tmp_path) close(fd);
  }
  return status;
}
static void prefixes_event(const string& file, const Image& full, vt::Rng& r, size_t exhaustive_limit) {
  vector<long> cuts, outs, same, leaks, agree;
  vector<size_t> ks;
  if (file.size() <= exhaustive_limit)
    for (size_t k = 0; k <= file.size(); k++) ks.push_back(k);
  else {
    for (size_t k = 0; k <= 80; k++) ks.push_back(k);
    for (int i = 0; i < 64; i++) ks.push_back(r.below(file.size()));
    for (size_t k = file.size() - 8; k <= file.size(); k++) ks.push_back(k);
  }
  for (size_t k : ks) {
    Image im;
    string st = load_bytes(file.substr(0, k), &im);
    cuts.push_back((long)k);
    outs.push_back(st == "ok" ? 0 : 1);
    same.push_back(st == "ok" && same_image(im, full));
    // every fourth cut (and the complete file) also by name
    int leaked = 0;
    bool ag = true;
    if (k % 4 == 1 || k == file.size()) {
      Image im2;
      string st2 = load_by_name(file.substr(0, k), &im2, &leaked, k % 8 == 1);
      ag = (st2 == "ok") == (st == "ok") && (st != "ok" || same_image(im, im2));
    }
    leaks.push_back(leaked);
    agree.push_back(ag);
  }
  vt::J j;
  j.str("e", "prefixes").num("n", (long long)file.size()).ints("cuts", cuts).ints("outs", outs).ints("same", same);
  j.ints("leaks", leaks).ints("agree", agree);
  tr.emit(j);
  tr.events += ks.size() - 1;
}

static void own_formats(Image& im, vt::Rng& r, size_t exhaustive_limit) {
  struct F {
    const char* name;
    Image::Format fmt;
  } fmts[] = {{"ppm", Image::Format::COLOR_PPM}, {"bmp", Image::Format::WINDOWS_BITMAP}, {"png", Image::Format::PNG}};
  for (auto& f : fmts) {
    if (im.get_channel_width() != 8 && f.fmt != Image::Format::COLOR_PPM) continue;
    string file, out = "ok";
    try {
      if (r.chance(50)) {
        file = im.save(f.fmt);
      } else {  // the FILE* entry point
        char* buf = nullptr;
        size_t len = 0;
        FILE* mf = open_memstream(&buf, &len);
        im.save(mf, f.fmt);
        fclose(mf);
        file.assign(buf, len);
        free(buf);
      }
    } catch (const exception& e) {
      out = vt::exc_name(e);
    }
    vt::J j;
    j.str("e", "save").str("fmt", f.name).raw("img", img_json(im)).raw("file", js(file)).str("out", out);
    j.raw("inflated", string(f.name) == "png" ? js(inflate_png(file)) : string("[]"));
    tr.emit(j);
    tr.nontrivial(string("save") + f.name + to_string(im.get_has_alpha()) + to_string(im.get_channel_width()) + to_string(im.get_width() % 4));
    if (string(f.name) == "png") continue;  // phosg does not read PNG
    Image back;
    string st = load_bytes(file, &back);
    vt::J k;
    k.str("e", "load").num("own", 1).str("variant", f.name).raw("file", js(file)).str("out", st).raw("img", st == "ok" ? img_json(back) : string(NOIMG)).raw("orig", img_json(im));
    tr.emit(k);
    if (st == "ok") prefixes_event(file, back, r, exhaustive_limit);
  }
}

// foreign variants, built here from a pixel array; the specification's decoder defines what they mean
static void le32(string& s, uint32_t v) {
  for (int i = 0; i < 4; i++) s.push_back((char)(v >> (8 * i)));
}
static void foreign(vt::Rng& r, size_t w, size_t h, size_t exhaustive_limit) {
  auto rnd = [&](size_t n) {
    string s;
    for (size_t i = 0; i < n; i++) s.push_back((char)(r.chance(20) ? (r.chance(50) ? 0 : 255) : r.below(256)));
    return s;
  };
  vector<pair<string, string>> files;
  // PNM family
  for (int cwb : {1, 2}) {
    string mv = cwb == 1 ? "255" : "65535";
    files.push_back({"P5/" + to_string(cwb * 8), "P5\n" + to_string(w) + " " + to_string(h) + "\n" + mv + "\n" + rnd(w * h * cwb)});
    files.push_back({"P6ws/" + to_string(cwb * 8), "P6 \t" + to_string(w) + "\n\n" + to_string(h) + "\r\n" + mv + "\t" + rnd(w * h * 3 * cwb)});
    for (const char* tt : {"GRAYSCALE", "GRAYSCALE_ALPHA", "RGB", "RGB_ALPHA"}) {
      int ch = string(tt) == "GRAYSCALE" ? 1 : string(tt) == "GRAYSCALE_ALPHA" ? 2 : string(tt) == "RGB" ? 3 : 4;
      string hdr = "P7\nWIDTH " + to_string(w) + "\nHEIGHT " + to_string(h) + "\nDEPTH " + to_string(ch) + "\nMAXVAL " + mv + "\nTUPLTYPE " + tt + "\nENDHDR\n";
      files.push_back({string("P7/") + tt + "/" + to_string(cwb * 8), hdr + rnd(w * h * ch * cwb)});
      // header lines may come in any order (TUPLTYPE before DEPTH, dimensions last), with trailing blanks
      string hdr2 = "P7\nTUPLTYPE " + string(tt) + " \nMAXVAL " + mv + "\nDEPTH " + to_string(ch) + "\nHEIGHT " + to_string(h) + "\nWIDTH " + to_string(w) + "\nENDHDR\n";
      string hdr3 = "P7\nMAXVAL " + mv + "\nTUPLTYPE " + string(tt) + "\nHEIGHT " + to_string(h) + " \nWIDTH " + to_string(w) + "\nENDHDR\n";
      files.push_back({string("P7perm/") + tt + "/" + to_string(cwb * 8), (r.chance(60) ? hdr2 : hdr3) + rnd(w * h * ch * cwb)});
    }
  }
  if (w <= 4 && h <= 4) {
    files.push_back({"P5/32", "P5\n" + to_string(w) + " " + to_string(h) + "\n4294967295\n" + rnd(w * h * 4)});
    files.push_back({"P5/64", "P5\n" + to_string(w) + " " + to_string(h) + "\n18446744073709551615\n" + rnd(w * h * 8)});
    files.push_back({"P7/GRAYSCALE_ALPHA/64", "P7\nWIDTH " + to_string(w) + "\nHEIGHT " + to_string(h) + "\nDEPTH 2\nMAXVAL 4294967296\nTUPLTYPE GRAYSCALE_ALPHA\nENDHDR\n" + rnd(w * h * 16)});
    files.push_back({"P7/GRAYSCALE_ALPHA/32", "P7\nWIDTH " + to_string(w) + "\nHEIGHT " + to_string(h) + "\nDEPTH 2\nMAXVAL 65536\nTUPLTYPE GRAYSCALE_ALPHA\nENDHDR\n" + rnd(w * h * 8)});
  }
  // BMP family
  auto bmp = [&](int hs, int depth, int comp, bool topdown, const uint32_t masks[4], size_t gap) {
    size_t pb = depth / 8, pad = (4 - (w * pb) % 4) % 4;
    string px;
    for (size_t y = 0; y < h; y++) px += rnd(w * pb) + string(pad, (char)0xAA);
    string f = "BM";
    uint32_t off = 14 + hs + gap;
    le32(f, off + px.size());
    le32(f, 0);
    le32(f, off);
    le32(f, hs);
    le32(f, (uint32_t)w);
    le32(f, topdown ? (uint32_t)(0 - (int32_t)h) : (uint32_t)h);
    f.push_back(1);
    f.push_back(0);
    f.push_back((char)depth);
    f.push_back(0);
    le32(f, comp);
    le32(f, px.size());
    le32(f, 2834);
    le32(f, 2834);
    le32(f, 0);
    le32(f, 0);
    string rest;
    for (int i = 0; i < 4; i++) le32(rest, masks[i]);
    rest += string(124, 0);
    f += rest.substr(0, hs - 40);
    f += string(gap, (char)0x55);
    return f + px;
  };
  static const uint32_t B[4] = {0x000000FF, 0x0000FF00, 0x00FF0000, 0xFF000000};
  const uint32_t none[4] = {0, 0, 0, 0};
  for (int hs : {40, 52, 56, 108, 124})
    for (bool td : {false, true}) {
      files.push_back({"BMP24/hs" + to_string(hs) + (td ? "td" : ""), bmp(hs, 24, 0, td, none, 0)});
      if (hs == 40 || hs == 124) files.push_back({"BMP32rgb/hs" + to_string(hs) + (td ? "td" : ""), bmp(hs, 32, 0, td, none, hs == 40 ? 3 : 0)});
    }
  int perm[4] = {0, 1, 2, 3};
  int pi = 0;
  do {
    uint32_t m[4] = {B[perm[0]], B[perm[1]], B[perm[2]], B[perm[3]]};
    int hs = (int[]){56, 108, 124}[pi % 3];
    files.push_back({"BMPbf/" + to_string(perm[0]) + to_string(perm[1]) + to_string(perm[2]) + to_string(perm[3]) + "hs" + to_string(hs) + (pi % 2 ? "td" : ""),
        bmp(hs, 32, 3, pi % 2, m, 0)});
    pi++;
  } while (next_permutation(perm, perm + 4));
  for (auto& fv : files) {
    Image im;
    string st = load_bytes(fv.second, &im);
    vt::J k;
    k.str("e", "load").num("own", 0).str("variant", fv.first).raw("file", js(fv.second)).str("out", st).raw("img", st == "ok" ? img_json(im) : string(NOIMG)).raw("orig", NOIMG);
    tr.emit(k);
    tr.nontrivial("load" + fv.first.substr(0, fv.first.find('/')) + st);
    if (st == "ok" && (fv.second.size() <= 300 || r.chance(15))) prefixes_event(fv.second, im, r, exhaustive_limit);
  }
}

int main(int argc, char** argv) {
  if (argc < 6) return 2;
  tr.open(argv[1]);
  bool quick = string(argv[2]) == "quick";
  int shard = atoi(argv[4]), nshards = atoi(argv[5]);
  vt::Rng r(strtoull(argv[3], nullptr, 10) * 83 + shard);
  g_tmp_path = string(argv[1]) + ".img.tmp";
  tr.emit("{\"e\":\"Reset\"}");
  tr.histories++;
  size_t maxdim = quick ? 5 : 8;
  long counter = 0;
  for (size_t w = 1; w <= maxdim; w++)
    for (size_t h = 1; h <= maxdim; h++) {
      if ((counter++ % nshards) != shard) continue;
      for (int alpha = 0; alpha <= 1; alpha++)
        for (int cw : {8, 16, 32, 64}) {
          if (cw != 8 && (w + h) % 3 != 0 && quick) continue;
          // a third of the images reach their channel width / alpha flag through the conversion calls rather than the
          // constructor (what is saved must describe the image as it is now)
          bool converted = r.chance(33);
          static const int WIDTHS[] = {8, 16, 32, 64};
          Image im(w, h, converted ? (bool)r.chance(50) : (bool)alpha, converted ? WIDTHS[r.below(4)] : cw);
          uint8_t* d = (uint8_t*)im.get_data();
          int style = (int)r.below(3);
          for (size_t i = 0; i < im.get_data_size(); i++) d[i] = style == 0 ? (uint8_t)r.below(256) : style == 1 ? (uint8_t)(i * 37 + 11) : (uint8_t)(r.chance(50) ? 0 : 255);
          if (converted) {
            if (r.chance(50)) im.set_channel_width((uint8_t)WIDTHS[r.below(4)]);
            im.set_channel_width((uint8_t)cw);
            im.set_has_alpha((bool)alpha);
          }
          own_formats(im, r, 400);
          tr.histories++;
        }
      foreign(r, w, h, 400);
    }
  // larger sizes (all residues of width mod 4) up to 64
  int nlarge = quick ? 4 : 40;
  for (int i = 0; i < nlarge; i++) {
    if (i % nshards != shard) continue;
    size_t w = 9 + r.below(56), h = 9 + r.below(56);
    if (i < 4) w = 61 + i;
    Image im(w, h, r.chance(50), 8);
    uint8_t* d = (uint8_t*)im.get_data();
    for (size_t k = 0; k < im.get_data_size(); k++) d[k] = (uint8_t)r.below(256);
    own_formats(im, r, 400);
    tr.histories++;
  }
  // every (w, h, alpha) in 1..64 x 1..64 with incompressible content through the PNG writer: sizes where the deflated
  // stream is LARGER than the raw scanlines are spread thinly over this grid.  Small images are validated in full,
  // the others when sampled - and always when save() does not return normally.
  {
    long idx = 0;
    for (size_t w = 1; w <= 64; w++)
      for (size_t h = 1; h <= 64; h++)
        for (int alpha = 0; alpha <= 1; alpha++) {
          if ((idx++ % nshards) != shard) continue;
          Image im(w, h, alpha, 8);
          uint8_t* d = (uint8_t*)im.get_data();
          for (size_t k = 0; k < im.get_data_size(); k++) d[k] = (uint8_t)r.below(256);
          string file, out = "ok";
          try {
            file = im.save(Image::Format::PNG);
          } catch (const exception& e) {
            out = vt::exc_name(e);
          }
          tr.events++;
          bool full = out != "ok" || (quick ? (w * h <= 36 && (w + h) % 5 == 0) || r.chance(1) : w * h <= 400 || r.chance(4));
          if (!full) continue;
          vt::J j;
          j.str("e", "save").str("fmt", "png").raw("img", img_json(im)).raw("file", js(file)).str("out", out);
          j.raw("inflated", out == "ok" ? js(inflate_png(file)) : string("[]"));
          tr.emit(j);
          tr.nontrivial("pnggrid" + out + to_string(alpha));
        }
  }
  ::unlink(g_tmp_path.c_str());
  tr.stats();
  return 0;
}
