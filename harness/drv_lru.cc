// C12 driver: LRUSet<int> / LRUMap<int,int>.
//   drv_lru trace <out.ndjson> <tier> <seed> <shard> <nshards>
//       random histories on both containers and across swap of two instances;
//       one event per public call with return value and full projection.
//   drv_lru walk <table.txt> <set|map> <depth> <two:0|1> <out.ndjson> [cover]
//       spec -> implementation: replays EVERY path of <= depth operations of
//       the transition table TLC emitted from MC_Lru into real objects and
//       compares return value + projection after each step with the table.
//       A path that disagrees is written out as a fully logged history so that
//       the trace specification (TLC) renders the verdict.
// The projection reads the private links through a derived class (no hooks).
#include <array>
#include <map>
#include <sstream>
#include <thread>
#include <atomic>
#include <mutex>

#include <phosg/LRUMap.hh>
#include <phosg/LRUSet.hh>

#include <stdexcept>

#include "trace.hh"

using namespace std;
typedef array<long, 3> Ent;

struct Op {
  string op;
  long k = 0, s = 0, v = 0, t = 0;
};

// Sizes handed to the containers are multiplied by g_scale and sizes read back are divided by it (the reference list is
// linear in the sizes), so that histories also run with entry sizes and size differences far beyond 32 bits.
static long g_scale = 1;
static size_t SZ(long s) { return (size_t)s * (size_t)g_scale; }
static long US(size_t x) { return (x % (size_t)g_scale) == 0 ? (long)(x / (size_t)g_scale) : -123456; }

static thread_local long t_voff = 0;
static thread_local int t_variant = 0;
struct XSet : phosg::LRUSet<int> {
  vector<Ent> fwd() {
    vector<Ent> r;
    size_t cap = this->items.size() + 2;
    for (Item* i = this->head; i; i = i->next) {
      r.push_back({*i->key, US(i->size), 0});
      if (r.size() > cap) {
        r.push_back({-99, 0, 0});
        break;
      }
    }
    return r;
  }
  vector<Ent> bwd() {
    vector<Ent> r;
    size_t cap = this->items.size() + 2;
    for (Item* i = this->tail; i; i = i->prev) {
      r.push_back({*i->key, US(i->size), 0});
      if (r.size() > cap) {
        r.push_back({-99, 0, 0});
        break;
      }
    }
    return r;
  }
  vector<long> apply(const Op& o) {
    // every other keyed call hands the container a reference to ITS OWN stored key when the key is present
    const int kk = (int)o.k;
    const int* kp = &kk;
    if ((t_variant++ & 2) && (o.op == "insert" || o.op == "erase" || o.op == "change_size" || o.op == "touch")) {
      auto it = this->items.find(kk);
      if (it != this->items.end()) kp = &it->first;
    }
    if (o.op == "insert") return {(long)this->insert(*kp, SZ(o.s))};
    if (o.op == "emplace") {
      int k = (int)o.k;
      return {(long)this->emplace(std::move(k), SZ(o.s))};
    }
    if (o.op == "erase") return {(long)this->erase(*kp)};
    if (o.op == "change_size") return {(long)this->change_size(*kp, SZ(o.s))};
    if (o.op == "touch") return {(long)this->touch(*kp, (o.s < 0 ? (ssize_t)o.s : (ssize_t)SZ(o.s)))};
    if (o.op == "evict") {
      try {
        auto p = this->evict_object();
        return {p.first, US(p.second)};
      } catch (const out_of_range&) {
        return {-1};
      }
    }
    if (o.op == "peek") {
      try {
        auto p = this->peek();
        return {p.first, US(p.second)};
      } catch (const out_of_range&) {
        return {-1};
      }
    }
    if (o.op == "clear") {
      this->clear();
      return {};
    }
    if (o.op == "size") return {US(this->size())};
    if (o.op == "count") return {(long)this->count()};
    return {-77};
  }
};

// Values are opaque to the reference list, so they may be shifted: the containers store v - t_voff and every value read back
// has t_voff added again.  With the shift, stored values coincide with keys, and the copying overload can be handed
// references INTO the container (a key that is the stored value of the entry being replaced, a stored key, a stored value),
// as an alias table / union-find root update does.
struct XMap : phosg::LRUMap<int, int> {
  vector<Ent> fwd() {
    vector<Ent> r;
    size_t cap = this->items.size() + 2;
    for (Item* i = this->head; i; i = i->next) {
      r.push_back({*i->key, US(i->size), i->value + t_voff});
      if (r.size() > cap) {
        r.push_back({-99, 0, 0});
        break;
      }
    }
    return r;
  }
  vector<Ent> bwd() {
    vector<Ent> r;
    size_t cap = this->items.size() + 2;
    for (Item* i = this->tail; i; i = i->prev) {
      r.push_back({*i->key, US(i->size), i->value + t_voff});
      if (r.size() > cap) {
        r.push_back({-99, 0, 0});
        break;
      }
    }
    return r;
  }
  vector<long> apply(const Op& o, int variant = -1) {
    if (variant < 0) variant = t_variant++;
    if (o.op == "insert") {
      if (variant & 1) {  // the copying overload
        const int k = (int)o.k;
        const int v = (int)(o.v - t_voff);
        const int *kp = &k, *vp = &v;
        if (variant & 2) {
          auto it = this->items.find(k);
          if (it != this->items.end()) kp = (it->second.value == k) ? &it->second.value : &it->first;
          for (auto& e : this->items)
            if (e.second.value == v && &e.second.value != kp) {
              vp = &e.second.value;
              break;
            }
        }
        return {(long)this->insert(*kp, *vp, SZ(o.s))};
      }
      int k = (int)o.k, v = (int)(o.v - t_voff);
      return {(long)this->insert(std::move(k), std::move(v), SZ(o.s))};
    }
    if (o.op == "emplace") {
      int k = (int)o.k, v = (int)(o.v - t_voff);
      return {(long)this->emplace(std::move(k), std::move(v), SZ(o.s))};
    }
    const int kk = (int)o.k;
    const int* kp = &kk;
    if ((variant & 2) && (o.op == "erase" || o.op == "change_size" || o.op == "touch" || o.op == "at" || o.op == "item_size")) {
      auto it = this->items.find(kk);
      if (it != this->items.end()) kp = (it->second.value == kk && (variant & 1)) ? &it->second.value : &it->first;
    }
    if (o.op == "erase") return {(long)this->erase(*kp)};
    if (o.op == "at") {
      try {
        if (variant & 1) {
          const XMap* c = this;
          return {(long)c->at(*kp) + t_voff};
        }
        return {(long)this->at(*kp) + t_voff};
      } catch (const out_of_range&) {
        return {-1};
      }
    }
    if (o.op == "item_size") {
      try {
        return {US(this->item_size(*kp))};
      } catch (const out_of_range&) {
        return {-1};
      }
    }
    if (o.op == "change_size") return {(long)this->change_size(*kp, SZ(o.s), o.t != 0)};
    if (o.op == "touch") return {(long)this->touch(*kp, (o.s < 0 ? (ssize_t)o.s : (ssize_t)SZ(o.s)))};
    if (o.op == "evict") {
      try {
        auto p = this->evict_object();
        return {p.key, p.value + t_voff, US(p.size)};
      } catch (const out_of_range&) {
        return {-1};
      }
    }
    if (o.op == "clear") {
      this->clear();
      return {};
    }
    if (o.op == "size") return {US(this->size())};
    if (o.op == "count") return {(long)this->count()};
    if (o.op == "empty") return {(long)this->empty()};
    return {-77};
  }
};

static string ents(const vector<Ent>& v) {
  string s = "[";
  for (size_t i = 0; i < v.size(); i++) {
    if (i) s += ",";
    s += "[" + to_string(v[i][0]) + "," + to_string(v[i][1]) + "," + to_string(v[i][2]) + "]";
  }
  return s + "]";
}
// A key type whose copies can be made to fail: TK::arm = k makes the k-th copy construction / copy assignment from now on
// throw.  An operation that fails this way must leave the container exactly as it was (no entry half-removed).
struct TK {
  int v;
  static inline int arm = 0;
  TK(int x = 0) : v(x) {}
  TK(const TK& o) : v(o.v) {
    if (arm && --arm == 0) throw std::runtime_error("key copy failed");
  }
  TK& operator=(const TK& o) {
    if (arm && --arm == 0) throw std::runtime_error("key copy failed");
    v = o.v;
    return *this;
  }
  TK(TK&& o) noexcept : v(o.v) {}
  TK& operator=(TK&& o) noexcept {
    v = o.v;
    return *this;
  }
  bool operator==(const TK& o) const { return v == o.v; }
};
namespace std {
template <>
struct hash<TK> {
  size_t operator()(const TK& k) const { return hash<int>()(k.v); }
};
}  // namespace std
struct XMapK : phosg::LRUMap<TK, int> {
  bool failed = false;  // the last apply() ended with the key-copy exception
  vector<Ent> fwd() {
    vector<Ent> r;
    size_t cap = this->items.size() + 2;
    for (Item* i = this->head; i; i = i->next) {
      r.push_back({i->key->v, US(i->size), i->value});
      if (r.size() > cap) {
        r.push_back({-99, 0, 0});
        break;
      }
    }
    return r;
  }
  vector<Ent> bwd() {
    vector<Ent> r;
    size_t cap = this->items.size() + 2;
    for (Item* i = this->tail; i; i = i->prev) {
      r.push_back({i->key->v, US(i->size), i->value});
      if (r.size() > cap) {
        r.push_back({-99, 0, 0});
        break;
      }
    }
    return r;
  }
  vector<long> apply(const Op& o, int variant = 0) {
    failed = false;
    try {
      if (o.op == "insert") {
        if (variant & 1) {
          const TK k((int)o.k);
          const int v = (int)o.v;
          return {(long)this->insert(k, v, SZ(o.s))};
        }
        return {(long)this->insert(TK((int)o.k), (int)o.v, SZ(o.s))};
      }
      if (o.op == "emplace") return {(long)this->emplace(TK((int)o.k), (int)o.v, SZ(o.s))};
      if (o.op == "erase") return {(long)this->erase(TK((int)o.k))};
      if (o.op == "at") {
        try {
          return {(long)this->at(TK((int)o.k))};
        } catch (const out_of_range&) {
          return {-1};
        }
      }
      if (o.op == "item_size") {
        try {
          return {US(this->item_size(TK((int)o.k)))};
        } catch (const out_of_range&) {
          return {-1};
        }
      }
      if (o.op == "change_size") return {(long)this->change_size(TK((int)o.k), SZ(o.s), o.t != 0)};
      if (o.op == "touch") return {(long)this->touch(TK((int)o.k), (o.s < 0 ? (ssize_t)o.s : (ssize_t)SZ(o.s)))};
      if (o.op == "evict") {
        // variant & 4: the next key copy inside the call fails
        if (variant & 4) TK::arm = 1;
        try {
          auto p = this->evict_object();
          TK::arm = 0;
          return {p.key.v, p.value, US(p.size)};
        } catch (const out_of_range&) {
          TK::arm = 0;
          return {-1};
        }
      }
      if (o.op == "clear") {
        this->clear();
        return {};
      }
      if (o.op == "size") return {US(this->size())};
      if (o.op == "count") return {(long)this->count()};
      if (o.op == "empty") return {(long)this->empty()};
    } catch (const std::runtime_error&) {
      TK::arm = 0;
      failed = true;
      return {-2};
    }
    return {-77};
  }
};

static string ints(const vector<long>& v) {
  string s = "[";
  for (size_t i = 0; i < v.size(); i++) {
    if (i) s += ",";
    s += to_string(v[i]);
  }
  return s + "]";
}

template <class C>
static string op_event(C& c, int inst, const Op& o, const vector<long>& ret) {
  vt::J j;
  j.str("e", "op").num("i", inst).str("op", o.op).num("k", o.k).num("s", o.s).num("v", o.v).num("t", o.t);
  j.raw("ret", ints(ret)).raw("fwd", ents(c.fwd())).raw("bwd", ents(c.bwd()));
  j.num("size", (long long)US(c.size())).num("count", (long long)c.count());
  return j.done();
}
template <class C>
static string swap_event(C& a, C& b) {
  vt::J j;
  j.str("e", "swap").raw("fwd1", ents(a.fwd())).raw("bwd1", ents(a.bwd())).raw("fwd2", ents(b.fwd()));
  j.raw("bwd2", ents(b.bwd())).num("size1", (long long)US(a.size())).num("size2", (long long)US(b.size()));
  j.num("count1", (long long)a.count()).num("count2", (long long)b.count());
  return j.done();
}

// ---------------------------------------------------------------- random
static Op random_op(vt::Rng& r, bool is_map, int nkeys, int maxsize) {
  static const char* set_ops[] = {"insert", "insert", "emplace", "erase", "change_size", "touch", "touch", "evict",
      "peek", "clear", "size", "count"};
  static const char* map_ops[] = {"insert", "insert", "emplace", "erase", "at", "at", "item_size", "change_size",
      "touch", "touch", "evict", "clear", "size", "count", "empty"};
  Op o;
  o.op = is_map ? map_ops[r.below(15)] : set_ops[r.below(12)];
  if (o.op == "clear" && r.chance(70)) o.op = "touch";
  bool keyed = !(o.op == "evict" || o.op == "peek" || o.op == "clear" || o.op == "size" || o.op == "count" ||
      o.op == "empty");
  if (keyed) o.k = 1 + r.below(nkeys);
  if (o.op == "insert" || o.op == "emplace" || o.op == "change_size") o.s = r.below(maxsize + 1);
  if (o.op == "touch") o.s = r.chance(50) ? -1 : (long)r.below(maxsize + 1);
  if (is_map && (o.op == "insert" || o.op == "emplace")) o.v = r.chance(50) ? r.below(100) : 1 + r.below(nkeys + 1);
  if (is_map && o.op == "change_size") o.t = r.below(2);
  return o;
}

template <class C>
static void random_history(vt::Trace& tr, vt::Rng& r, bool is_map, int len) {
  int nkeys = 1 + r.below(8);
  int maxsize = r.chance(50) ? 2 : 1000;
  // a third of the histories runs with sizes scaled far beyond 32 bits (size differences of 2^31, 2^33, 2^40 ...)
  static const long SCALES[] = {1, 1, 1, 1L << 20, 1L << 31, 1L << 33, (1L << 40) + 1};
  g_scale = SCALES[r.below(7)];
  t_voff = r.chance(30) ? (long)r.below(4) : 0;
  C* a = new C();
  C* b = new C();
  tr.emit(string("{\"e\":\"Reset\",\"fl\":\"") + (is_map ? "map" : "set") + "\"}");
  tr.histories++;
  for (int n = 0; n < len; n++) {
    if (r.chance(4)) {
      a->swap(*b);
      tr.emit(swap_event(*a, *b));
      tr.nontrivial("swap" + to_string(a->count() > 0) + to_string(b->count() > 0));
      continue;
    }
    int inst = r.chance(70) ? 1 : 2;
    C& c = inst == 1 ? *a : *b;
    Op o = random_op(r, is_map, nkeys, maxsize);
    size_t before = c.count();
    vector<long> ret;
    if constexpr (std::is_same_v<C, XMap>)
      ret = c.apply(o, (int)r.below(4));
    else if constexpr (std::is_same_v<C, XMapK>)
      ret = c.apply(o, (int)r.below(8));
    else
      ret = c.apply(o);
    if constexpr (std::is_same_v<C, XMapK>) {
      if (c.failed) {  // the call threw because a key could not be copied: an event of its own
        string ev = op_event(c, inst, o, ret);
        ev.replace(ev.find("\"e\":\"op\""), 8, "\"e\":\"opfail\"");
        tr.emit(ev);
        tr.nontrivial("opfail" + o.op + to_string(min<size_t>(before, 3)));
        continue;
      }
    }
    tr.emit(op_event(c, inst, o, ret));
    tr.nontrivial(o.op + "/" + to_string(min<size_t>(before, 3)) + "/" + (ret.empty() ? "-" : to_string(ret[0] < 0 ? -1 : (ret[0] > 1 ? 2 : ret[0]))));
  }
  // drain both by eviction (every entry must come out exactly once, LRU first)
  for (int inst = 1; inst <= 2; inst++) {
    C& c = inst == 1 ? *a : *b;
    for (int guard = 0; guard < 20; guard++) {
      Op o;
      o.op = "evict";
      vector<long> ret = c.apply(o);
      tr.emit(op_event(c, inst, o, ret));
      if (ret.size() == 1 && ret[0] == -1) break;
    }
  }
  delete a;
  delete b;
  g_scale = 1;
  t_voff = 0;
}

// ---------------------------------------------------------------- table walk
struct Table {
  vector<vector<Ent>> states;                  // id -> list
  vector<Op> ops;                              // op id -> op
  vector<vector<pair<int, vector<long>>>> tr;  // state -> op -> (post, ret)
};

static Table load_table(const char* path) {
  Table t;
  FILE* f = fopen(path, "r");
  if (!f) {
    perror("table");
    exit(2);
  }
  char buf[4096];
  while (fgets(buf, sizeof buf, f)) {
    istringstream is(buf);
    string tag;
    is >> tag;
    if (tag == "S") {
      int id, n;
      is >> id >> n;
      vector<Ent> l(n);
      for (auto& e : l) is >> e[0] >> e[1] >> e[2];
      if ((int)t.states.size() <= id) t.states.resize(id + 1);
      t.states[id] = l;
    } else if (tag == "O") {
      int id;
      Op o;
      is >> id >> o.op >> o.k >> o.s >> o.v >> o.t;
      if ((int)t.ops.size() <= id) t.ops.resize(id + 1);
      t.ops[id] = o;
    } else if (tag == "T") {
      int pre, op, post, nret;
      is >> pre >> op >> post >> nret;
      vector<long> ret(nret);
      for (auto& x : ret) is >> x;
      if ((int)t.tr.size() <= pre) t.tr.resize(pre + 1);
      if ((int)t.tr[pre].size() <= op) t.tr[pre].resize(op + 1, {-1, {}});
      t.tr[pre][op] = {post, ret};
    }
  }
  fclose(f);
  return t;
}

struct WalkStats {
  atomic<uint64_t> paths{0}, steps{0}, mismatches{0};
};

template <class C>
static bool run_path(const Table& t, const vector<int>& path, bool two, string* dump, bool is_map) {
  // path elements: op index, or for two-instance mode: op + nops*inst, swap = 2*nops
  C* a = new C();
  C* b = two ? new C() : nullptr;
  int sa = 0, sb = 0;
  int nops = (int)t.ops.size();
  bool ok = true;
  if (dump) *dump += string("{\"e\":\"Reset\",\"fl\":\"") + (is_map ? "map" : "set") + "\"}\n";
  {  // overload / aliasing variant and value shift: a function of the path, so that a re-run for the report repeats them
    unsigned h = 0;
    for (size_t i = 0; i < path.size(); i++) h = h * 31 + (unsigned)path[i] + 1;
    t_variant = (int)(h & 3);
    t_voff = (h & 4) ? 6 : 0;   // table values are {7, 8}: shifted onto the keys {1, 2}
  }
  for (int code : path) {
    if (two && code == 2 * nops) {
      a->swap(*b);
      swap(sa, sb);
      if (dump) *dump += swap_event(*a, *b) + "\n";
      if (a->fwd() != t.states[sa] || b->fwd() != t.states[sb]) ok = false;
      continue;
    }
    int inst = code / nops;
    const Op& o = t.ops[code % nops];
    C& c = inst == 0 ? *a : *b;
    int& s = inst == 0 ? sa : sb;
    vector<long> ret = c.apply(o);
    const auto& exp = t.tr[s][code % nops];
    s = exp.first;
    if (dump) *dump += op_event(c, inst + 1, o, ret) + "\n";
    vector<Ent> f = c.fwd(), bw = c.bwd();
    reverse(bw.begin(), bw.end());
    long total = 0;
    for (auto& e : t.states[s]) total += e[1];
    if (ret != exp.second || f != t.states[s] || bw != f || US(c.size()) != total ||
        c.count() != t.states[s].size())
      ok = false;
    if (!ok && !dump) break;
  }
  // drain by eviction: order must be the reverse of the list
  if (ok) {
    C* cs[2] = {a, b};
    int ss[2] = {sa, sb};
    for (int i = 0; i < (two ? 2 : 1) && ok; i++) {
      const auto& l = t.states[ss[i]];
      for (size_t n = l.size(); n-- > 0;) {
        Op o;
        o.op = "evict";
        vector<long> ret = cs[i]->apply(o);
        if (dump) *dump += op_event(*cs[i], i + 1, o, ret) + "\n";
        if (ret.empty() || ret[0] != l[n][0]) ok = false;
      }
      if (cs[i]->count() != 0 || cs[i]->size() != 0) ok = false;
    }
  }
  delete a;
  delete b;
  t_voff = 0;
  return ok;
}

template <class C>
static void walk(const Table& t, int depth, bool two, const char* out, bool is_map, int cover) {
  size_t st_prefixes = 0;
  int nops = (int)t.ops.size();
  int branch = two ? 2 * nops + 1 : nops;
  WalkStats st;
  mutex mu;
  vector<string> dumps;
  atomic<int> next_first{0};
  unsigned nthreads = min<unsigned>(thread::hardware_concurrency(), 16);
  vector<thread> th;
  for (unsigned w = 0; w < nthreads; w++) {
    th.emplace_back([&]() {
      int first;
      while ((first = next_first.fetch_add(1)) < branch) {
        // iterate over all paths of length 1..depth starting with `first` (odometer)
        for (int len = 1; len <= depth; len++) {
          vector<int> path(len, 0);
          path[0] = first;
          for (;;) {
            st.paths++;
            st.steps += len;
            if (!run_path<C>(t, path, two, nullptr, is_map)) {
              st.mismatches++;
              lock_guard<mutex> g(mu);
              if (dumps.size() < 5) {
                string d;
                run_path<C>(t, path, two, &d, is_map);
                dumps.push_back(d);
              }
            }
            int i = len - 1;
            while (i >= 1 && ++path[i] == branch) path[i--] = 0;
            if (i < 1) break;
          }
        }
      }
    });
  }
  for (auto& x : th) x.join();
  // Transition coverage at any depth: every state of the table (every pair of states for two instances) is reached
  // along a shortest path, then EVERY operation is applied there, followed by every suffix of <= cover operations.
  // With the projection compared after each step this covers every transition of the bounded model from every
  // state, i.e. operation sequences of any length as far as the model distinguishes them.
  {
    vector<vector<int>> reach(t.states.size());
    vector<char> seen(t.states.size(), 0);
    vector<int> queue{0};
    seen[0] = 1;
    for (size_t qi = 0; qi < queue.size(); qi++) {
      int s = queue[qi];
      for (int o = 0; o < nops; o++) {
        int post = t.tr[s][o].first;
        if (post >= 0 && !seen[post]) {
          seen[post] = 1;
          reach[post] = reach[s];
          reach[post].push_back(o);
          queue.push_back(post);
        }
      }
    }
    vector<vector<int>> prefixes;
    if (!two) {
      for (int s : queue) prefixes.push_back(reach[s]);
    } else {
      for (int sa : queue)
        for (int sb : queue) {
          vector<int> pre = reach[sa];
          for (int o : reach[sb]) pre.push_back(o + nops);
          prefixes.push_back(pre);
        }
    }
    atomic<size_t> next_prefix{0};
    vector<thread> th2;
    for (unsigned w = 0; w < nthreads; w++) {
      th2.emplace_back([&]() {
        size_t pi;
        while ((pi = next_prefix.fetch_add(1)) < prefixes.size()) {
          for (int len = 1; len <= 1 + cover; len++) {
            vector<int> tail(len, 0);
            for (;;) {
              vector<int> path = prefixes[pi];
              path.insert(path.end(), tail.begin(), tail.end());
              st.paths++;
              st.steps += path.size();
              if (!run_path<C>(t, path, two, nullptr, is_map)) {
                st.mismatches++;
                lock_guard<mutex> g(mu);
                if (dumps.size() < 8) {
                  string d;
                  run_path<C>(t, path, two, &d, is_map);
                  dumps.push_back(d);
                }
              }
              int i = len - 1;
              while (i >= 0 && ++tail[i] == branch) tail[i--] = 0;
              if (i < 0) break;
            }
          }
        }
      });
    }
    for (auto& x : th2) x.join();
    st_prefixes = prefixes.size();
  }
  FILE* f = fopen(out, "w");
  for (auto& d : dumps) fputs(d.c_str(), f);
  fclose(f);
  printf("STATS {\"paths\":%llu,\"steps\":%llu,\"mismatches\":%llu,\"table_states\":%zu,\"table_ops\":%d,\"depth\":%d,\"cover_prefixes\":%zu,\"cover_suffix\":%d}\n",
      (unsigned long long)st.paths.load(), (unsigned long long)st.steps.load(),
      (unsigned long long)st.mismatches.load(), t.states.size(), nops, depth, st_prefixes, cover);
}

int main(int argc, char** argv) {
  if (argc < 2) return 2;
  string mode = argv[1];
  if (mode == "trace") {
    vt::Trace tr;
    tr.open(argv[2]);
    string tier = argv[3];
    uint64_t seed = strtoull(argv[4], nullptr, 10);
    int shard = atoi(argv[5]), nshards = atoi(argv[6]);
    vt::Rng r(seed * 1000 + shard);
    int nhist = (tier == "quick" ? 60 : 1500) / nshards + 1;
    for (int h = 0; h < nhist; h++) {
      int len = r.chance(20) ? 400 : (int)r.range(5, 120);
      if (h % 2)
        if (h % 4 == 3)
          random_history<XMapK>(tr, r, true, len);
        else
          random_history<XMap>(tr, r, true, len);
      else
        random_history<XSet>(tr, r, false, len);
    }
    tr.stats();
    return 0;
  }
  if (mode == "walk") {
    Table t = load_table(argv[2]);
    bool is_map = string(argv[3]) == "map";
    int depth = atoi(argv[4]);
    bool two = atoi(argv[5]) != 0;
    int cover = argc > 7 ? atoi(argv[7]) : 1;
    if (is_map)
      walk<XMap>(t, depth, two, argv[6], true, cover);
    else
      walk<XSet>(t, depth, two, argv[6], false, cover);
    return 0;
  }
  return 2;
}
