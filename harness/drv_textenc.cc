// C11 driver: base64 / rot13 / escapers / netloc (spec/TextEnc).   drv_textenc <out> <tier> <seed>
#include <phosg/Encoding.hh>
#include <phosg/Network.hh>
#include <phosg/Strings.hh>

#include "trace.hh"
using namespace std;
using namespace phosg;
static vt::Trace tr;
static string js(const string& s) { return vt::J::arr_bytes(s.data(), s.size()); }
extern const char* phosg::DEFAULT_ALPHABET;
extern const char* phosg::URLSAFE_ALPHABET;

struct Batch {
  string fn;
  int alph, flag;
  string ins, outs;
  size_t n = 0;
  Batch(const string& fn, int alph = 0, int flag = 0) : fn(fn), alph(alph), flag(flag) {}
  void add(const string& in, const string& out) {
    if (n) {
      ins += ",";
      outs += ",";
    }
    ins += in;
    outs += out;
    if (++n >= 3000) flush();
  }
  void flush() {
    if (!n) return;
    vt::J j;
    j.str("e", "b").str("fn", fn).num("alph", alph).num("flag", flag).raw("ins", "[" + ins + "]").raw("outs", "[" + outs + "]");
    tr.emit(j);
    tr.events += n - 1;
    tr.nontrivial(fn + to_string(alph) + to_string(flag));
    ins.clear();
    outs.clear();
    n = 0;
  }
};
static const char* alph_of(int a) { return a ? URLSAFE_ALPHABET : nullptr; }
// the pointer + size overloads, on memory that is NOT followed by a NUL: an exact-size heap block (ASan sees any read
// past it) or a slice of a larger block whose following bytes are 0xFF
static string enc_ptr(const string& in, int a, int how) {
  if (how == 0) {
    char* heap = (char*)malloc(in.size() ? in.size() : 1);
    memcpy(heap, in.data(), in.size());
    string r = base64_encode(heap, in.size(), alph_of(a));
    free(heap);
    return r;
  }
  string big = in + string(8, (char)0xFF);
  return base64_encode(big.data(), in.size(), alph_of(a));
}
static string dec_ptr(const string& t, int a, int how) {
  if (how == 0) {
    char* heap = (char*)malloc(t.size() ? t.size() : 1);
    memcpy(heap, t.data(), t.size());
    struct G {
      char* p;
      ~G() { free(p); }
    } g{heap};
    return base64_decode(heap, t.size(), alph_of(a));
  }
  string big = t + "AAAAAAAA";
  return base64_decode(big.data(), t.size(), alph_of(a));
}
static string dec_out(const string& t, int a) {
  try {
    static unsigned rot = 0;
    unsigned how = rot++ % 3;
    string d = a == 2 ? base64_decode(t.data(), t.size(), DEFAULT_ALPHABET) : how == 2 ? base64_decode(t, alph_of(a)) : dec_ptr(t, a, (int)how);
    return "[1," + js(d) + "]";
  } catch (const invalid_argument&) {
    return "[0,[]]";
  } catch (const exception&) {
    return "[2,[]]";
  }
}

int main(int argc, char** argv) {
  if (argc < 4) return 2;
  tr.open(argv[1]);
  bool quick = string(argv[2]) == "quick";
  vt::Rng r(strtoull(argv[3], nullptr, 10) * 29 + 1);
  tr.emit("{\"e\":\"Reset\"}");
  tr.histories++;
  // all byte strings of length 0..2, a dense sample of length 3, random longer ones; both alphabets, interleaved
  vector<string> inputs = {""};
  for (int a = 0; a < 256; a++) inputs.push_back(string(1, (char)a));
  for (int a = 0; a < 256; a++)
    for (int b = 0; b < 256; b += (quick ? 5 : 1)) inputs.push_back(string(1, (char)a) + string(1, (char)((b + a) & 255)));
  for (int i = 0; i < (quick ? 3000 : 65536); i++) inputs.push_back(string({(char)r.below(256), (char)r.below(256), (char)r.below(256)}));
  for (int i = 0; i < (quick ? 300 : 3000); i++) {
    string s;
    for (size_t n = r.below(r.chance(10) ? 2000 : 40); n > 0; n--) s.push_back((char)r.below(256));
    inputs.push_back(s);
  }
  for (size_t chunk = 0; chunk < inputs.size(); chunk += 1500)
    for (int a = 0; a < 2; a++) {
      Batch e("enc", a), ed("encdec", a);
      for (size_t i = chunk; i < min(inputs.size(), chunk + 1500); i++) {
        string enc = i % 3 == 2 ? base64_encode(inputs[i], alph_of(a)) : enc_ptr(inputs[i], a, (int)(i % 3));
        e.add(js(inputs[i]), js(enc));
        ed.add(js(inputs[i]), dec_out(enc, a));
      }
      e.flush();
      ed.flush();
    }
  // decoding: every 4-symbol (thorough: 8-symbol) text over a reduced alphabet with valid, padding, other-alphabet and
  // invalid symbols; the two alphabets alternate from batch to batch
  const string SY = quick ? "AB/-=!" : "AQ/-=!_+";
  {
    vector<string> texts;
    int L = (int)SY.size();
    for (int len : {0, 1, 2, 3, 4, 5}) {
      vector<int> idx(len, 0);
      for (;;) {
        string t;
        for (int i : idx) t.push_back(SY[i]);
        texts.push_back(t);
        int i = len - 1;
        while (i >= 0 && ++idx[i] == L) idx[i--] = 0;
        if (i < 0) break;
      }
    }
    // 8-symbol texts: every combination for the LAST five symbols after a fixed valid prefix, and for the FIRST five
    for (int len5 = 0; len5 < 1; len5++) {
      vector<int> idx(5, 0);
      for (;;) {
        string t;
        for (int i : idx) t.push_back(SY[i]);
        texts.push_back("QUJD" + t.substr(1));
        texts.push_back("ABA" + t);
        texts.push_back(t + "ABA");
        int i = 4;
        while (i >= 0 && ++idx[i] == L) idx[i--] = 0;
        if (i < 0) break;
      }
    }
    for (size_t chunk = 0, k = 0; chunk < texts.size(); chunk += 700, k++) {
      int a = (int)(k % 3);
      Batch d("dec", a == 1 ? 1 : 0);
      for (size_t i = chunk; i < min(texts.size(), chunk + 700); i++) d.add(js(texts[i]), dec_out(texts[i], a));
      d.flush();
    }
    // EVERY byte value at every position of valid groups (full, one and two padding symbols; first and second group)
    for (int a = 0; a < 2; a++)
      for (const char* base : {"QUJD", "QUI=", "QQ==", "QUJDQUJD", "QUJDQUI="}) {
        Batch d("dec", a);
        for (size_t p = 0; p < strlen(base); p++)
          for (int c = 0; c < 256; c++) {
            string t = base;
            t[p] = (char)c;
            d.add(js(t), dec_out(t, a));
          }
        d.flush();
      }
    // long encodings (more than 2^16 and 2^17 symbols): a padding symbol in the last positions of a group that is NOT the
    // last one - in particular groups 2^8, 2^12, 2^15, 2^16, 2^17 symbols before the last - must be rejected; only the
    // positions, the length and the outcomes are logged (the specification needs no more to know that these are invalid)
    for (int a = 0; a < 2; a++)
      for (size_t nbytes : {(size_t)49155, (size_t)98310}) {
        if (quick && nbytes > 50000 && a == 1) continue;
        string raw(nbytes, 0);
        for (size_t i = 0; i < nbytes; i++) raw[i] = (char)((i * 131 + 7 + a) & 0xFF);
        string enc = base64_encode(raw, alph_of(a));
        size_t L = enc.size();
        bool base_ok = false;
        try {
          base_ok = base64_decode(enc, alph_of(a)) == raw;
        } catch (const exception&) {
        }
        vector<long> poss, outs;
        vector<size_t> groups;
        for (size_t dist : {(size_t)256, (size_t)4096, (size_t)32768, (size_t)65536, (size_t)131072, (size_t)4, (size_t)8})
          if (L >= 4 + dist) groups.push_back(L - 4 - dist);
        for (int k = 0; k < 12; k++) groups.push_back(4 * r.below((L - 4) / 4));
        for (size_t g : groups)
          for (size_t off : {(size_t)3, (size_t)2}) {
            // '=' in the last position, or in the last two positions, of group g
            string t = enc;
            t[g + 3] = '=';
            if (off == 2) t[g + 2] = '=';
            long out = 0;
            try {
              base64_decode(t, alph_of(a));
            } catch (const invalid_argument&) {
              out = 1;
            } catch (const exception&) {
              out = 2;
            }
            poss.push_back((long)(g + off));
            outs.push_back(out);
          }
        vt::J j;
        j.str("e", "declong").num("alph", a).num("len", (long long)L).num("base_ok", base_ok).ints("pos", poss).ints("outs", outs);
        tr.emit(j);
        tr.events += poss.size();
        tr.nontrivial("declong" + to_string(a) + to_string(nbytes));
      }
    // single-symbol corruptions of valid encodings at every position, alternating alphabets per text
    for (int i = 0; i < (quick ? 60 : 200); i++) {
      string raw;
      for (size_t n = 1 + r.below(12); n > 0; n--) raw.push_back((char)r.below(256));
      int a = i % 2;
      string enc = base64_encode(raw, alph_of(a));
      Batch d("dec", a);
      for (size_t p = 0; p < enc.size(); p++)
        for (char c : string("=!-/+_ A\n\0\xff", 11)) {
          string t = enc;
          t[p] = c;
          d.add(js(t), dec_out(t, a));
        }
      d.add(js(enc.substr(0, enc.size() - 1)), dec_out(enc.substr(0, enc.size() - 1), a));
      d.add(js(enc + "="), dec_out(enc + "=", a));
      d.flush();
    }
  }
  // rot13, escapers
  {
    vector<string> strs;
    for (int a = 0; a < 256; a++) strs.push_back(string(1, (char)a));
    string all;
    for (int a = 0; a < 256; a++) all.push_back((char)a);
    strs.push_back(all);
    strs.push_back("Hello, World! \xC3\xA9t\xC3\xA9 \"quoted\" 'single' back\\slash %41 a/b?c=d&e");
    for (int i = 0; i < (quick ? 200 : 3000); i++) {
      string s;
      for (size_t n = r.below(60); n > 0; n--) s.push_back(r.chance(30) ? "\"'\\%/ \t\n\r\x7f\x80\xff"[r.below(12)] : (char)r.below(256));
      strs.push_back(s);
    }
    Batch ro("rot13"), u0("esc_url", 0, 0), u1("esc_url", 0, 1), c0("esc_controls", 0, 0), c1("esc_controls", 0, 1), q("esc_quotes");
    for (auto& s : strs) {
      ro.add(js(s), js(rot13(s.data(), s.size())));
      u0.add(js(s), js(escape_url(s, false)));
      u1.add(js(s), js(escape_url(s, true)));
      c0.add(js(s), js(escape_controls(s, false)));
      c1.add(js(s), js(escape_controls(s, true)));
      q.add(js(s), js(escape_quotes(s)));
    }
    for (Batch* b : {&ro, &u0, &u1, &c0, &c1, &q}) b->flush();
  }
  // netloc
  {
    Batch n("netloc");
    vector<string> hosts = {"a", "localhost", "127.0.0.1", "host name", "h\xC3\xA9", "1e5", "-", "x.y-z_0", "[", "a/b"};
    for (int i = 0; i < 50; i++) {
      string h;
      for (size_t k = 1 + r.below(12); k > 0; k--) {
        char c = (char)(1 + r.below(255));
        if (c == ':') c = ';';
        h.push_back(c);
      }
      hosts.push_back(h);
    }
    for (auto& h : hosts)
      for (int p = 0; p <= 65535; p += (quick ? 257 : 17)) {
        int port = (p % 3 == 0) ? p : (int)r.below(65536);
        for (int pp : {port, 0, 1, 9, 10, 65535, 32768}) {
          string rendered = render_netloc(h, pp);
          auto back = parse_netloc(rendered, 0);
          n.add("[" + js(h) + "," + to_string(pp) + "]", "[" + js(rendered) + "," + js(back.first) + "," + to_string(back.second) + "]");
        }
      }
    n.flush();
  }
  tr.stats();
  return 0;
}
