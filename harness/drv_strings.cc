// C08 driver: string helpers (spec/Strings).
//   drv_strings small <out> <maxlen> <alphabet#> <shard> <nshards>  every string up to maxlen over a 4-symbol
//                                                                    adversarial alphabet x every helper (batched)
//   drv_strings rand  <out> <count> <seed>     random strings over all 256 byte values up to 4 KiB; join on
//                                              vectors with empty pieces; printf results up to 1 MiB (RLE)
#include <algorithm>

#include <phosg/Strings.hh>

#include <thread>

#include "trace.hh"

using namespace std;
using namespace phosg;

static vt::Trace tr;
static string js(const string& s) { return vt::J::arr_bytes(s.data(), s.size()); }
static string jlist(const vector<string>& v) {
  string s = "[";
  for (size_t i = 0; i < v.size(); i++) {
    if (i) s += ",";
    s += js(v[i]);
  }
  return s + "]";
}

struct Batch {
  string fn, p, ins, outs;
  size_t n = 0;
  Batch(const string& fn, const string& p) : fn(fn), p(p) {}
  void add(const string& in, const string& out) {
    if (n) {
      ins += ",";
      outs += ",";
    }
    ins += in;
    outs += out;
    n++;
  }
  void flush() {
    if (!n) return;
    vt::J j;
    j.str("e", "b").str("fn", fn).raw("p", p).raw("ins", "[" + ins + "]").raw("outs", "[" + outs + "]");
    tr.emit(j);
    tr.events += n - 1;
    tr.nontrivial(fn + p);
    ins.clear();
    outs.clear();
    n = 0;
  }
};

static string ctx_out(const string& s, char d, size_t m) {
  try {
    return "[1," + jlist(split_context(s, d, m)) + "]";
  } catch (const runtime_error&) {
    return "[0,[]]";
  }
}
static string args_out(const string& s) {
  try {
    return "[1," + jlist(split_args(s)) + "]";
  } catch (const runtime_error&) {
    return "[0,[]]";
  }
}
static string skips(const string& s, int which) {
  string r = "[";
  for (size_t k = 0; k <= s.size(); k++) {
    if (k) r += ",";
    // NUL-free strings alternate between the std::string and the const char* overloads
    bool cstr = s.find('\0') == string::npos && ((k + s.size()) % 2 == 1);
    size_t v = cstr ? (which == 0 ? skip_whitespace(s.c_str(), k) : which == 1 ? skip_non_whitespace(s.c_str(), k) : skip_word(s.c_str(), k))
                    : (which == 0 ? skip_whitespace(s, k) : which == 1 ? skip_non_whitespace(s, k) : skip_word(s, k));
    r += to_string(v);
  }
  return r + "]";
}
static string comments_out(const string& s) {
  string a = s;
  strip_multiline_comments(a, true);
  string b = s;
  bool threw = false;
  try {
    strip_multiline_comments(b, false);
  } catch (const runtime_error&) {
    threw = true;
  }
  // the throwing form must throw exactly when the comment is left open; the string it worked on is afterwards either
  // completely stripped or (after the exception) untouched - never a half-written mixture
  return "[" + js(a) + "," + (threw ? "1" : "0") + "," + (b == s ? "1" : "0") + "," + (b == a ? "1" : "0") + "]";
}

static void all_helpers_here(const vector<string>& strs, const string& alphabet, bool big) {
  // one batch per (function, parameters)
  // max_splits: 0 (unlimited), small caps, and caps far beyond any piece count up to SIZE_MAX (logged capped at 10^9:
  // only the comparison with the number of delimiters matters)
  static const size_t CAPS[] = {0, 1, 2, 3, 1000, (size_t)1 << 60, SIZE_MAX / 2, SIZE_MAX - 1, SIZE_MAX,
      // caps whose low 32 (16) bits are small: a cap is a 64-bit count
      ((size_t)1 << 32) + 1, ((size_t)1 << 32) + 2, ((size_t)1 << 33) + 1, ((size_t)1 << 40) + 3, ((size_t)1 << 32), 65536 + 1, 65536 + 2};
  for (char d : alphabet)
    for (size_t mi = 0; mi < (big ? 4 : 16); mi++) {
      size_t m = CAPS[mi];
      string p = "{\"d\":" + to_string((unsigned char)d) + ",\"max\":" + to_string(min<size_t>(m, 1000000000)) + "}";
      Batch b1("split", p), b2("splitjoin", p), b3("splitctx", p), b4("splitctxjoin", p);
      const string ds(1, d);
      size_t sidx = 0;
      for (auto& s : strs) {
        // every third string goes through the wide-character overload (each byte widened to one wchar_t)
        vector<string> pieces;
        if (sidx++ % 3 == 2) {
          wstring ws;
          for (unsigned char ch : s) ws.push_back((wchar_t)ch);
          for (auto& wp : split(ws, (wchar_t)(unsigned char)d, m)) {
            string np;
            for (wchar_t wc : wp) np.push_back((char)(unsigned char)wc);
            pieces.push_back(np);
          }
        } else
          pieces = split(s, d, m);
        b1.add(js(s), jlist(pieces));
        b2.add(js(s), js(join(pieces, ds)));
        b3.add(js(s), ctx_out(s, d, m));
        try {
          b4.add(js(s), js(join(split_context(s, d, m), ds)));
        } catch (const runtime_error&) {
          b4.add(js(s), "[]");
        }
      }
      b1.flush();
      b2.flush();
      b3.flush();
      b4.flush();
    }
  {
    Batch a("splitargs", "{}"), tz("strip_tz", "{}"), tw("strip_tw", "{}"), lw("strip_lw", "{}"), w("strip_w", "{}");
    Batch up("upper", "{}"), lo("lower", "{}"), s0("skipws", "{}"), s1("skipnws", "{}"), s2("skipword", "{}"), cm("comments", "{}");
    for (auto& s : strs) {
      a.add(js(s), args_out(s));
      string t = s;
      strip_trailing_zeroes(t);
      tz.add(js(s), js(t));
      t = s;
      strip_trailing_whitespace(t);
      tw.add(js(s), js(t));
      t = s;
      strip_leading_whitespace(t);
      lw.add(js(s), js(t));
      t = s;
      strip_whitespace(t);
      w.add(js(s), js(t));
      up.add(js(s), js(toupper(s)));
      lo.add(js(s), js(tolower(s)));
      if (!big) {
        s0.add(js(s), skips(s, 0));
        s1.add(js(s), skips(s, 1));
        s2.add(js(s), skips(s, 2));
      }
      cm.add(js(s), comments_out(s));
    }
    for (Batch* b : {&a, &tz, &tw, &lw, &w, &up, &lo, &s0, &s1, &s2, &cm}) b->flush();
  }
  // prefixes / suffixes / replacement with targets drawn from the alphabet
  vector<string> targets;
  for (char c : alphabet)
    if (c) targets.push_back(string(1, c));
  for (char c : alphabet)
    for (char e : alphabet)
      if (c && e) targets.push_back(string(1, c) + string(1, e));
  for (size_t ti = 0; ti < targets.size(); ti++) {
    const string& t = targets[ti];
    string pt = "{\"t\":" + js(t) + "}";
    Batch st("starts", pt), en("ends", pt);
    for (auto& s : strs) {
      st.add(js(s), starts_with(s, t) ? "1" : "0");
      en.add(js(s), ends_with(s, t) ? "1" : "0");
    }
    st.flush();
    en.flush();
    for (const string& r : {string(""), t, string(1, alphabet[0] ? alphabet[0] : 'q') + "Z", t + t}) {
      if (strlen(r.c_str()) != r.size()) continue;
      Batch rp("replace", "{\"t\":" + js(t) + ",\"r\":" + js(r) + "}");
      for (auto& s : strs) rp.add(js(s), js(str_replace_all(s, t.c_str(), r.c_str())));
      rp.flush();
    }
  }
}

// ---------------------------------------------------------------- printf (RLE)
static string rle_of(const string& s) {
  string r = "[";
  size_t i = 0;
  bool first = true;
  while (i < s.size()) {
    size_t j = i;
    while (j < s.size() && s[j] == s[i]) j++;
    if (!first) r += ",";
    first = false;
    r += "[" + to_string((unsigned char)s[i]) + "," + to_string(j - i) + "]";
    i = j;
  }
  return r + "]";
}
struct Seg {
  string k, f;
  long w = 0, n = 0;
  string s;
};
static string seg_json(const Seg& g) {
  vt::J j;
  j.str("k", g.k).num("w", g.w).str("f", g.f).num("n", g.n).raw("s", rle_of(g.s));
  return j.done();
}
static string run_printf(const vector<Seg>& segs) {
  // build the C format and call string_printf with up to 6 arguments of known kinds
  string fmt;
  vector<const Seg*> args;
  for (auto& g : segs) {
    if (g.k == "lit") {
      for (char c : g.s) {
        fmt.push_back(c);
        if (c == '%') fmt.push_back('%');
      }
    } else if (g.k == "pct") {
      fmt += "%%";
    } else {
      fmt += "%";
      fmt += g.f;
      if (g.w) fmt += to_string(g.w);
      fmt += g.k;
      args.push_back(&g);
    }
  }
  // up to three conversions, every combination of (string | integer) argument kinds
  auto ival = [&](size_t i) { return (int)args[i]->n; };
  auto sval = [&](size_t i) { return args[i]->s.c_str(); };
  auto is_s = [&](size_t i) { return args[i]->k == "s"; };
  const char* f = fmt.c_str();
  switch (args.size()) {
    case 0: return string_printf(f);
    case 1: return is_s(0) ? string_printf(f, sval(0)) : string_printf(f, ival(0));
    case 2:
      if (is_s(0)) return is_s(1) ? string_printf(f, sval(0), sval(1)) : string_printf(f, sval(0), ival(1));
      return is_s(1) ? string_printf(f, ival(0), sval(1)) : string_printf(f, ival(0), ival(1));
    default:
      if (is_s(0)) {
        if (is_s(1)) return is_s(2) ? string_printf(f, sval(0), sval(1), sval(2)) : string_printf(f, sval(0), sval(1), ival(2));
        return is_s(2) ? string_printf(f, sval(0), ival(1), sval(2)) : string_printf(f, sval(0), ival(1), ival(2));
      }
      if (is_s(1)) return is_s(2) ? string_printf(f, ival(0), sval(1), sval(2)) : string_printf(f, ival(0), sval(1), ival(2));
      return is_s(2) ? string_printf(f, ival(0), ival(1), sval(2)) : string_printf(f, ival(0), ival(1), ival(2));
  }
}
static void printf_cases_here(vt::Rng& r, int count, bool huge) {
  Batch b("printf", "{}");
  auto rs = [&](size_t len) {
    string s;
    while (s.size() < len) {
      char c = "ab% xZ\\-0"[r.below(9)];
      size_t run = min<size_t>(len - s.size(), r.chance(50) ? 1 + r.below(4) : 1 + r.below(len + 1));
      s.append(run, c);
    }
    return s;
  };
  vector<size_t> lens = {0, 1, 2, 255, 256, 1022, 1023, 1024, 1025, 1026, 2047, 2048, 4095, 4096, 4097, 16383, 16384, 65536};
  if (huge) {
    lens.push_back(1000000);
    lens.push_back(1048576);
    lens.push_back(1048577);
  }
  auto emit = [&](const vector<Seg>& segs) {
    string ins = "[";
    for (size_t i = 0; i < segs.size(); i++) {
      if (i) ins += ",";
      ins += seg_json(segs[i]);
    }
    ins += "]";
    b.add(ins, rle_of(run_printf(segs)));
    if (b.n >= 50) b.flush();
  };
  // total result length exactly L for every boundary length, through different directive mixes
  for (size_t L : lens) {
    emit({Seg{"s", "", 0, 0, rs(L)}});
    emit({Seg{"lit", "", 0, 0, rs(L)}});
    if (L >= 8) {
      emit({Seg{"lit", "", 0, 0, "x="}, Seg{"d", "", 0, -12345, ""}, Seg{"s", "", 0, 0, rs(L - 8)}});
      emit({Seg{"s", "", (long)L, 0, "ab"}});
      emit({Seg{"s", "-", (long)L, 0, "ab"}});
      emit({Seg{"d", "0", (long)L, -7, ""}});
      emit({Seg{"x", "", (long)L, 0x7fffffff, ""}});
      emit({Seg{"s", "", 0, 0, rs(L - 1)}, Seg{"c", "", 0, 'Q', ""}});
      // embedded NUL bytes: the result keeps its full length
      emit({Seg{"s", "", 0, 0, rs(L - 2)}, Seg{"c", "", 0, 0, ""}, Seg{"c", "", 0, 'Z', ""}});
      emit({Seg{"c", "", 0, 0, ""}, Seg{"s", "", 0, 0, rs(L - 1)}});
    }
  }
  emit({Seg{"c", "", 0, 0, ""}});
  emit({Seg{"lit", "", 0, 0, "a"}, Seg{"c", "", 0, 0, ""}, Seg{"lit", "", 0, 0, "b"}});
  emit({Seg{"c", "", 0, 0, ""}, Seg{"c", "", 0, 0, ""}, Seg{"s", "", 0, 0, "xyz"}});
  emit({Seg{"d", "", 0, 5, ""}, Seg{"c", "", 0, 255, ""}, Seg{"c", "", 0, 0, ""}});
  for (int i = 0; i < count; i++) {
    vector<Seg> segs;
    int nconv = 0;
    for (int k = (int)r.range(1, 5); k > 0; k--) {
      switch (r.below(nconv < 3 ? 7 : 2)) {
        case 0: segs.push_back({"lit", "", 0, 0, rs(r.below(r.chance(10) ? 3000 : 12))}); break;
        case 1: segs.push_back({"pct", "", 0, 0, ""}); break;
        case 2: segs.push_back({"s", r.chance(30) ? "-" : "", (long)r.below(r.chance(10) ? 2000 : 12), 0, rs(r.below(r.chance(10) ? 3000 : 10))}); nconv++; break;
        case 3: segs.push_back({"d", r.chance(30) ? "0" : r.chance(20) ? "-" : "", (long)r.below(14), (long)r.range(-2147483647, 2147483647), ""}); nconv++; break;
        case 4: segs.push_back({"x", r.chance(30) ? "0" : "", (long)r.below(12), (long)r.below(2147483647), ""}); nconv++; break;
        case 5: segs.push_back({"c", "", 0, (long)(r.chance(50) ? 0 : r.below(256)), ""}); nconv++; break;
        default: segs.push_back({"d", "", 0, (long)r.range(-9, 9), ""}); nconv++; break;
      }
    }
    emit(segs);
  }
  b.flush();
}

// Every other batch runs on a freshly started second thread (the first batch on the main thread): results may not depend
// on which thread asks, or on which thread asked first (lazily built tables, thread-local scratch buffers)
static unsigned g_batch = 0;
static void all_helpers(const vector<string>& strs, const string& alphabet, bool big) {
  if (g_batch++ % 2) {
    std::thread t([&] { all_helpers_here(strs, alphabet, big); });
    t.join();
  } else
    all_helpers_here(strs, alphabet, big);
}
static void printf_cases(vt::Rng& r, int count, bool huge) {
  printf_cases_here(r, count / 2, huge);
  std::thread t([&] { printf_cases_here(r, count - count / 2, huge); });
  t.join();
}

int main(int argc, char** argv) {
  if (argc < 3) return 2;
  string mode = argv[1];
  tr.open(argv[2]);
  tr.emit("{\"e\":\"Reset\"}");
  tr.histories++;
  static const vector<string> ALPHABETS = {string(",a \\"), string("(,)\""), string("'\\\" "), string(",/*\n"), string("\0a\t,", 4)};
  if (mode == "small") {
    int maxlen = atoi(argv[3]), ai = atoi(argv[4]), shard = atoi(argv[5]), nshards = atoi(argv[6]);
    const string& A = ALPHABETS[ai];
    vector<string> strs;
    uint64_t counter = 0;
    for (int len = 0; len <= maxlen; len++) {
      vector<int> idx(len, 0);
      for (;;) {
        if ((int)(counter++ % nshards) == shard) {
          string s;
          for (int i : idx) s.push_back(A[i]);
          strs.push_back(s);
          if (strs.size() == 2048) {
            all_helpers(strs, A, false);
            strs.clear();
          }
        }
        int i = len - 1;
        while (i >= 0 && ++idx[i] == (int)A.size()) idx[i--] = 0;
        if (i < 0) break;
      }
    }
    all_helpers(strs, A, false);
  } else {
    int count = atoi(argv[3]);
    vt::Rng r(strtoull(argv[4], nullptr, 10) * 131 + 3);
    // random strings over all 256 byte values, biased towards the characters the helpers treat specially
    vector<string> strs;
    const string special = string(",  \t\r\n()[]{}<>'\"\\/*a", 20) + string(1, '\0');
    for (int i = 0; i < count; i++) {
      size_t len = r.chance(10) ? r.below(4097) : r.below(200);
      string s;
      int mode2 = (int)r.below(4);
      for (size_t k = 0; k < len; k++)
        s.push_back(mode2 == 0 ? (char)r.below(256) : r.chance(mode2 == 1 ? 60 : 25) ? special[r.below(special.size())] : (char)r.below(256));
      if (r.chance(20)) s = string(r.below(5), ' ') + s + string(r.below(5), r.chance(50) ? ' ' : '\0');
      if (r.chance(10)) s = string(r.below(20), " \t\r\n"[r.below(4)]);
      strs.push_back(s);
      if (strs.size() == 64) {
        all_helpers(strs, string(", (\""), true);
        strs.clear();
      }
    }
    all_helpers(strs, string(", (\""), true);
    // join directly on vectors with empty first / middle / last pieces
    {
      Batch jv("joinv", "{\"d\":[44]}"), jw("joinv", "{\"d\":[58,58]}"), j0("join0", "{}");
      for (int i = 0; i < count * 4; i++) {
        vector<string> v;
        for (int k = (int)r.below(6); k > 0; k--) v.push_back(r.chance(45) ? "" : string(1 + r.below(3), "ab,:\0"[r.below(5)]));
        jv.add(jlist(v), js(join(v, ",")));
        jw.add(jlist(v), js(join(v, "::")));
        j0.add(jlist(v), js(join(v)));
      }
      jv.flush();
      jw.flush();
      j0.flush();
    }
    printf_cases(r, count, count >= 1000);
  }
  tr.stats();
  return 0;
}
