// C09 driver: format_data_string / parse_data_string / format_data (spec/DataText).
//   drv_datatext <out> <tier> <seed> <shard> <nshards>
#include <sys/uio.h>

#include <phosg/Strings.hh>

#include "trace.hh"
using namespace std;
using namespace phosg;
static vt::Trace tr;
static string js(const string& s) { return vt::J::arr_bytes(s.data(), s.size()); }

struct Cols {
  vector<string> c;
  size_t n = 0;
  Cols(size_t k) : c(k) {}
  void add(const vector<string>& v) {
    for (size_t i = 0; i < c.size(); i++) {
      if (n) c[i] += ",";
      c[i] += v[i];
    }
    n++;
  }
};

static void fds_cases(vt::Rng& r, bool quick, int shard, int nshards) {
  // data strings: all byte strings of length <= 1 (and a grid of length 2), strings of printable + escape-worthy characters,
  // random ones up to 600; x random masks x both flag values
  vector<string> datas = {""};
  for (int a = 0; a < 256; a++) datas.push_back(string(1, (char)a));
  const string special = "\"'\\?\r\n\t ab#$%/*<>0Ff";
  for (char a : special)
    for (char b : special) datas.push_back(string(1, a) + string(1, b));
  for (int i = 0; i < (quick ? 150 : 2000); i++) {
    string s;
    size_t len = r.chance(10) ? r.below(601) : r.below(24);
    int mode = (int)r.below(3);
    for (size_t k = 0; k < len; k++)
      s.push_back(mode == 0 ? (char)r.below(256) : mode == 1 ? special[r.below(special.size())] : (char)(32 + r.below(95)));
    datas.push_back(s);
  }
  for (int flags = 0; flags <= 1; flags++)
    for (int hasmask = 0; hasmask <= 1; hasmask++) {
      Cols c(5);
      for (size_t i = 0; i < datas.size(); i++) {
        if ((int)(i % nshards) != shard) continue;
        const string& d = datas[i];
        string mask(d.size(), 0);
        int style = (int)r.below(4);
        for (size_t k = 0; k < d.size(); k++)
          mask[k] = style == 0 ? (char)0xFF : style == 1 ? 0 : style == 2 ? (char)(r.chance(50) ? 1 + r.below(255) : 0) : (char)((k / 3) % 2 ? 0x80 : 0);
        string text = format_data_string(d, hasmask ? &mask : nullptr, flags);
        if (i % 2) text = format_data_string(d.data(), d.size(), hasmask ? mask.data() : nullptr, flags);
        // the mask string handed over is REUSED by callers: whatever it held before (here: leftovers) is replaced
        string backmask = (i % 3) ? string("\xff\x01stale-mask-bytes") : string();
        string back = parse_data_string(text, &backmask);
        c.add({js(d), js(mask), js(text), js(back), js(backmask)});
        if (c.n >= 300) {
          vt::J j;
          j.str("e", "fds").num("flags", flags).num("hasmask", hasmask).raw("datas", "[" + c.c[0] + "]").raw("masks", "[" + c.c[1] + "]");
          j.raw("texts", "[" + c.c[2] + "]").raw("backs", "[" + c.c[3] + "]").raw("backmasks", "[" + c.c[4] + "]");
          tr.emit(j);
          tr.events += c.n - 1;
          c = Cols(5);
        }
      }
      if (c.n) {
        vt::J j;
        j.str("e", "fds").num("flags", flags).num("hasmask", hasmask).raw("datas", "[" + c.c[0] + "]").raw("masks", "[" + c.c[1] + "]");
        j.raw("texts", "[" + c.c[2] + "]").raw("backs", "[" + c.c[3] + "]").raw("backmasks", "[" + c.c[4] + "]");
        tr.emit(j);
        tr.events += c.n - 1;
      }
      tr.nontrivial("fds" + to_string(flags) + to_string(hasmask));
    }
}

static string gen_text(vt::Rng& r, int index = -1) {
  // grammar-generated parser input
  static const vector<string> atoms = {"00", "7F", "ff", "A", "b", " ", "\n", "\t", "?", "$", "\"abc\"", "\"a\\nb\\\"c\\\\\"", "\"\"", "'xy'", "'\\n\\'q'",
      "#1 ", "#255 ", "#0x1F ", "#-1 ", "##513 ", "##0xBEEF ", "###16909060 ", "###-2 ", "####72623859790382856 ", "####0x0102030405060708 ",
      "####-1 ", "#010 ", "%1.5 ", "%-2 ", "%%0.25 ", "%%1024 ", "%0 ", "%1.00000005960464478 ", "%1.00000017881393432 ", "%16777217.000000001 ", "%0.1 ", "%%0.1 ",
      "%%1.00000005960464478 ", "// comment 12\n", "/* block 34 */", "/*/", "/**/", "/* a\n b */",
      "<file>", "zz", ",", "0x", "\"unterminated", "'\xC3\xA9'", "\"\xFF\x80\"", "#", "%", "##", "%%", "/", "*", "\\", "####18446744073709551615 ",
      "\"\\r\\t\\'q\"", "'\\r\\t\\\\z'", "$'ab'$", "\"x\\\"", "'y\\'"};
  string s;
  // the first texts contain every atom once (alone, and between two others), whatever the seed
  if (index >= 0 && index < (int)atoms.size()) return atoms[index];
  if (index >= 0 && index < 2 * (int)atoms.size()) return "41 " + atoms[index - atoms.size()] + " 42";
  for (int n = (int)r.range(0, 12); n > 0; n--) s += atoms[r.below(atoms.size())];
  return s;
}
static void pds_cases(vt::Rng& r, bool quick, int shard, int nshards) {
  vector<string> texts;
  for (int i = 0; i < (quick ? 600 : 8000); i++) {
    string t = gen_text(r, i);
    texts.push_back(t);
    if (!t.empty() && r.chance(60)) {  // single edits
      string m = t;
      size_t p = r.below(m.size());
      switch (r.below(3)) {
        case 0: m.erase(p, 1); break;
        case 1: m.insert(p, 1, "\"'\\?$#%/* \n0aF\0\xff"[r.below(17)]); break;
        default: m[p] = (char)r.below(256); break;
      }
      texts.push_back(m);
    }
    if (r.chance(30)) texts.push_back(t.substr(0, r.below(t.size() + 1)));
    if (r.chance(15)) {
      string rnd;
      for (size_t k = r.below(40); k > 0; k--) rnd.push_back((char)r.below(256));
      texts.push_back(rnd);
    }
  }
  Cols c(4);
  auto flush = [&]() {
    if (!c.n) return;
    vt::J j;
    j.str("e", "pds").raw("texts", "[" + c.c[0] + "]").raw("outs", "[" + c.c[1] + "]").raw("datas", "[" + c.c[2] + "]").raw("masks", "[" + c.c[3] + "]");
    tr.emit(j);
    tr.events += c.n - 1;
    c = Cols(4);
  };
  for (size_t i = 0; i < texts.size(); i++) {
    if ((int)(i % nshards) != shard) continue;
    // the text is handed over in an exact-size heap buffer so that a read past its end is seen by ASan
    string* heap = new string(texts[i]);
    heap->shrink_to_fit();
    string mask = (i % 3 == 1) ? string("\xff\x00\xffold", 6) : string(), data;
    int out = 0;
    try {
      data = parse_data_string(*heap, &mask);
    } catch (const exception&) {
      out = 1;
    }
    delete heap;
    c.add({js(texts[i]), to_string(out), js(data), js(mask)});
    if (c.n >= 300) flush();
  }
  flush();
  tr.nontrivial("pds");
}

static string dump(const vector<pair<const char*, size_t>>& parts, uint64_t start, const vector<pair<const char*, size_t>>* prev, uint64_t flags,
    string* out_status) {
  vector<struct iovec> iov, piov;
  for (auto& p : parts) iov.push_back({(void*)p.first, p.second});
  if (prev)
    for (auto& p : *prev) piov.push_back({(void*)p.first, p.second});
  string text;
  *out_status = "ok";
  try {
    format_data([&](const void* d, size_t n) { text.append((const char*)d, n); }, iov.data(), iov.size(), start,
        prev ? piov.data() : nullptr, prev ? piov.size() : 0, flags);
  } catch (const exception& e) {
    *out_status = vt::exc_name(e);
  }
  return text;
}
static vector<pair<const char*, size_t>> split(const string& d, vt::Rng& r, int nparts) {
  vector<size_t> cuts = {0, d.size()};
  for (int i = 1; i < nparts; i++) cuts.push_back(r.below(d.size() + 1));
  sort(cuts.begin(), cuts.end());
  vector<pair<const char*, size_t>> out;
  for (size_t i = 0; i + 1 < cuts.size(); i++) out.push_back({d.data() + cuts[i], cuts[i + 1] - cuts[i]});
  return out;
}
static void dump_cases(vt::Rng& r, bool quick, int shard, int nshards) {
  vector<uint64_t> starts = {0, 1, 5, 15, 16, 0xF8, 0xFFF8, 0xFFFFFFF8ULL, 0xFFFFFFFFFFFFF000ULL, 0xFFFFFFFFFFFFEFF3ULL, 0x100000000ULL - 3, 0x123456789AULL};
  vector<uint64_t> flagsets = {0, 2, 0x40 | 2, 0x20, 0x20 | 2, 0x100, 0x200 | 2, 0x400, 0x800 | 2 | 0x20, 4, 8 | 2, 4 | 8 | 0x40, 0x1000 | 4, 0x2000 | 8, 0x10 | 4, 0x2000 | 4, 0x1000 | 8, 0x10 | 8, 0x10 | 4 | 8 | 2};
  int n = quick ? 400 : 4000;
  // collapsing, small-scope: every pattern of all-zero / non-zero lines for 3..5 lines, aligned and unaligned starts
  struct Forced {
    int lines, pattern;
    uint64_t start;
  };
  vector<Forced> forced;
  for (int L = 3; L <= 5; L++)
    for (int pat = 0; pat < (1 << L); pat++)
      for (uint64_t st : {(uint64_t)0, (uint64_t)0xFFF5}) forced.push_back({L, pat, st});
  for (int i = 0; i < n; i++) {
    if (i % nshards != shard) {
      r.next();
      continue;
    }
    size_t len = i < 40 ? (size_t)i : r.chance(15) ? r.below(300) : r.below(70);
    string data;
    int style = (int)r.below(4);
    for (size_t k = 0; k < len; k++)
      data.push_back(style == 0 ? (char)r.below(256) : style == 1 ? 0 : r.chance(style == 2 ? 85 : 40) ? 0 : (char)(32 + r.below(100)));
    // long zero runs in the middle, so that collapsing has something to do
    if (len > 64 && r.chance(60)) fill(data.begin() + 17, data.begin() + 17 + min<size_t>(len - 40, 16 * (1 + r.below(6))), 0);
    uint64_t start = starts[r.below(starts.size())];
    uint64_t flags = flagsets[r.below(flagsets.size())];
    if ((flags & 0x20) && r.chance(50)) {
      // collapsing candidates at the edges: all-zero first / last lines, data ending exactly on a line boundary
      size_t lines = 2 + r.below(5);
      size_t lo = start % 16;
      size_t total = lines * 16 - (r.chance(70) ? lo : lo + r.below(16));
      data.assign(total, 0);
      int shape = (int)r.below(4);
      if (shape == 0 && total > 40) data[20 + r.below(total - 40)] = 'Q';   // zero edges, something in the middle
      if (shape == 1) data[0] = 'A';                                         // only the first line is non-zero
      if (shape == 2) data[total - 1] = 'Z';                                 // only the last line is non-zero
      len = total;
    }
    if (i >= 40 && i < 40 + (int)forced.size()) {
      const Forced& f = forced[i - 40];
      start = f.start;
      flags = 0x20 | (r.chance(50) ? 2 : 0);
      size_t lo = start % 16;
      len = f.lines * 16 - lo - (r.chance(70) ? 0 : r.below(16));
      data.assign(len, 0);
      for (int ln = 0; ln < f.lines; ln++)
        if (f.pattern & (1 << ln)) {
          size_t b = ln * 16 < (long)lo ? 0 : ln * 16 - lo, e = min<size_t>(len, (ln + 1) * 16 - lo);
          if (b < e) data[b + r.below(e - b)] = (char)(1 + r.below(255));
        }
    }
    bool hasprev = r.chance(35);
    string prev = data;
    if (hasprev)
      for (int k = (int)r.below(6); k > 0 && len; k--) prev[r.below(len)] ^= (char)(1 + r.below(255));
    if (i >= 40 && i < 40 + (int)forced.size() && r.chance(50)) {
      // the previous version is (almost) all zero: a line collapses only if it is zero in BOTH versions
      hasprev = true;
      prev.assign(len, 0);
      if (len && r.chance(40)) prev[r.below(len)] = (char)(1 + r.below(255));
    }
    if (hasprev && r.chance(70)) flags |= 1;  // colour / diff mode
    if (!hasprev && r.chance(10)) flags |= 1;
    string status;
    auto parts1 = split(data, r, 1);
    auto pparts1 = split(prev, r, 1);
    string text = dump(parts1, start, hasprev ? &pparts1 : nullptr, flags, &status);
    bool same = true;
    for (int np = 2; np <= 4; np++) {
      string st2;
      auto parts = split(data, r, np);
      auto pparts = split(prev, r, (int)r.range(1, 4));
      string t2 = dump(parts, start, hasprev ? &pparts : nullptr, flags, &st2);
      if (t2 != text || st2 != status) same = false;
    }
    // every other entry point (string-returning and FILE* overloads; pointer, vector, buffer and string forms), with
    // the current and the previous data split into DIFFERENT numbers of iovecs, must produce the same text / outcome
    {
      auto to_iov = [](const vector<pair<const char*, size_t>>& ps) {
        vector<struct iovec> v;
        for (auto& p : ps) v.push_back({(void*)p.first, p.second});
        return v;
      };
      uint64_t fl2 = flags | ((flags & 1) ? 0 : (uint64_t)PrintDataFlags::DISABLE_COLOR);
      for (int variant = 0; variant < 8; variant++) {
        int np = (int)r.range(1, 4), pp = (int)r.range(1, 4);
        if (variant < 2 && pp == np) pp = np % 4 + 1;
        vector<struct iovec> iov = to_iov(split(data, r, np)), piov = to_iov(split(prev, r, pp));
        string t, st = "ok";
        try {
          char* mbuf = nullptr;
          size_t mlen = 0;
          FILE* mf = variant >= 4 ? open_memstream(&mbuf, &mlen) : nullptr;
          try {
            switch (variant) {
              case 0: t = format_data(iov.data(), iov.size(), start, hasprev ? piov.data() : nullptr, hasprev ? piov.size() : 0, flags); break;
              case 1: t = format_data(iov, start, hasprev ? &piov : nullptr, flags); break;
              case 2: t = format_data(data.data(), data.size(), start, hasprev ? prev.data() : nullptr, flags); break;
              case 3: t = format_data(data, start, hasprev ? prev.data() : nullptr, flags); break;
              case 4: print_data(mf, iov.data(), iov.size(), start, hasprev ? piov.data() : nullptr, hasprev ? piov.size() : 0, fl2); break;
              case 5: print_data(mf, iov, start, hasprev ? &piov : nullptr, fl2); break;
              case 6: print_data(mf, data.data(), data.size(), start, hasprev ? prev.data() : nullptr, fl2); break;
              default: print_data(mf, data, start, hasprev ? prev.data() : nullptr, fl2); break;
            }
          } catch (...) {
            if (mf) {
              fclose(mf);
              free(mbuf);
            }
            throw;
          }
          if (mf) {
            fclose(mf);
            t.assign(mbuf, mlen);
            free(mbuf);
          }
        } catch (const exception& e) {
          st = vt::exc_name(e);
        }
        if (st != status || (st == "ok" && t != text)) same = false;
      }
    }
    if (!hasprev && !(flags & 1)) {
      string t3 = format_data(data.data(), data.size(), start, nullptr, flags | PrintDataFlags::DISABLE_COLOR);
      if (t3 != text) same = false;
      string t4 = format_data(data, start, nullptr, flags | PrintDataFlags::DISABLE_COLOR);
      if (t4 != text) same = false;
    }
    vt::J j;
    j.str("e", "dump").raw("data", js(data)).raw("prev", js(hasprev ? prev : string())).num("hasprev", hasprev);
    j.raw("start", vt::J::arr_u64(start, 8)).num("flags", (long long)flags).str("out", status).raw("text", js(text)).num("same", same).num("wrap", 0);
    tr.emit(j);
    tr.nontrivial("dump" + to_string(flags) + to_string(hasprev) + to_string(start % 16 != 0));
  }
  if (shard == 0) {
    // known limit: a dump whose start + size reaches 2^64
    string data(32, 'x');
    string status;
    auto parts = split(data, r, 1);
    string text = dump(parts, 0xFFFFFFFFFFFFFFE0ULL, nullptr, 2, &status);
    vt::J j;
    j.str("e", "dump").raw("data", js(data)).raw("prev", "[]").num("hasprev", 0).raw("start", vt::J::arr_u64(0xFFFFFFFFFFFFFFE0ULL, 8));
    j.num("flags", 2).str("out", status).raw("text", js(text)).num("same", 1).num("wrap", 1);
    tr.emit(j);
  }
}

int main(int argc, char** argv) {
  if (argc < 6) return 2;
  tr.open(argv[1]);
  bool quick = string(argv[2]) == "quick";
  vt::Rng r(strtoull(argv[3], nullptr, 10) * 41 + 9);
  int shard = atoi(argv[4]), nshards = atoi(argv[5]);
  tr.emit("{\"e\":\"Reset\"}");
  tr.histories++;
  fds_cases(r, quick, shard, nshards);
  pds_cases(r, quick, shard, nshards);
  dump_cases(r, quick, shard, nshards);
  tr.stats();
  return 0;
}
