// C16 driver (free running): the unmodified <phosg/Tools.hh> with real
// std::atomic / std::thread, 1..16 threads, ranges 0..5000, built with
// ThreadSanitizer.  Only callback invocations and the returned value are
// observable; they are logged as one run each (free=1: the R-check and the
// joined-before-return clause are skipped by the trace specification, the
// P-checks apply).  A TSan report makes the process exit non-zero => Crash event.
//   drv_prfree <out> <runs> <seed>
#include <algorithm>
#include <mutex>
#include <set>
#include <phosg/Tools.hh>
#include "trace.hh"
using namespace std;

int main(int argc, char** argv) {
  if (argc < 4) return 2;
  vt::Trace tr;
  tr.open(argv[1]);
  long runs = atol(argv[2]);
  vt::Rng r(strtoull(argv[3], nullptr, 10));
  for (long i = 0; i < runs; i++) {
    int which = (int)r.below(3);
    string variant = which == 0 ? "range" : which == 1 ? "blocks" : "multi";
    int n = 1 + (int)r.below(16);
    long long blk = variant == "range" ? 1 : (long long[]){1, 2, 5, 16, 100}[r.below(5)];
    long long len = (long long)(r.chance(10) ? 0 : r.below(r.chance(30) ? 5000 : 200)) / blk * blk;
    long long s = r.chance(50) ? 0 : (long long)r.below(100000);
    long long e = s + len;
    set<long long> ts;
    int nts = r.chance(50) ? 0 : 1 + (int)r.below(3);
    for (int k = 0; k < nts && len; k++) ts.insert(s + (long long)r.below(len));
    vector<vector<pair<long long, long long>>> per(n + 1);
    auto fn = [&](uint64_t v, size_t tn) -> bool {
      per[tn < (size_t)n ? tn : n].emplace_back((long long)v, (long long)tn);
      return ts.count((long long)v) != 0;
    };
    vector<string> lines;
    {
      vt::J j;
      j.str("e", "Reset").str("variant", variant).num("s", s).num("end", e).num("blk", blk).num("n", n);
      j.ints("ts", vector<long long>(ts.begin(), ts.end())).num("bits", 64).num("free", 1);
      lines.push_back(j.done());
    }
    string ret_line;
    try {
      if (variant == "range") {
        uint64_t rv = phosg::parallel_range<uint64_t>(fn, s, e, n, nullptr);
        vt::J j;
        j.str("e", "ret").num("val", (long long)rv).raw("set", "[]").str("exc", "");
        ret_line = j.done();
      } else if (variant == "blocks") {
        uint64_t rv = phosg::parallel_range_blocks<uint64_t>(fn, s, e, blk, n, nullptr);
        vt::J j;
        j.str("e", "ret").num("val", (long long)rv).raw("set", "[]").str("exc", "");
        ret_line = j.done();
      } else {
        auto rs = phosg::parallel_range_blocks_multi<uint64_t>(fn, s, e, blk, n, nullptr);
        vector<long long> v(rs.begin(), rs.end());
        sort(v.begin(), v.end());
        vt::J j;
        j.str("e", "ret").num("val", -1).ints("set", v).str("exc", "");
        ret_line = j.done();
      }
    } catch (const exception& ex) {
      vt::J j;
      j.str("e", "ret").num("val", -1).raw("set", "[]").str("exc", vt::exc_name(ex));
      ret_line = j.done();
    }
    for (auto& p : per)
      for (auto& c : p) {
        vt::J j;
        j.str("e", "call").num("t", c.second).num("v", c.first).num("tn", c.second).num("r", ts.count(c.first) != 0);
        lines.push_back(j.done());
      }
    lines.push_back(ret_line);
    string all;
    for (auto& l : lines) all += l + "\n";
    all.pop_back();
    tr.events += lines.size() - 1;
    tr.emit(all);
    tr.histories++;
    tr.nontrivial(variant + to_string(n) + "/" + to_string(min<long long>(len, 3)) + "/" + to_string(ts.size()));
  }
  tr.stats();
  return 0;
}
