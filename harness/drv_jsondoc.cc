// X02 (extension) driver: phosg::JSON as a mutable document (spec/Json/JsonDoc).  Two documents are changed in place
// through at(index) / at(key) chains; the new content of an operation is a literal or a reference to another part of
// the same or the other document (the target itself, an ancestor, a member).  After every call both documents are
// logged completely.
//   drv_jsondoc <out> <tier> <seed> <shard> <nshards>
#include <phosg/JSON.hh>

#include "trace.hh"
using namespace std;
using namespace phosg;
static vt::Trace tr;
static string js(const string& s) { return vt::J::arr_bytes(s.data(), s.size()); }

static string dumpv(const JSON& v) {
  if (v.is_null()) return "{\"t\":\"null\"}";
  if (v.is_bool()) return string("{\"t\":\"bool\",\"b\":") + (v.as_bool() ? "1" : "0") + "}";
  if (v.is_int()) return "{\"t\":\"int\",\"n\":" + to_string(v.as_int()) + "}";
  if (v.is_float()) return "{\"t\":\"float\",\"h\":" + to_string((long long)(v.as_float() * 2)) + ",\"nan\":0}";
  if (v.is_string()) return "{\"t\":\"str\",\"s\":" + js(v.as_string()) + "}";
  if (v.is_list()) {
    string s = "{\"t\":\"list\",\"v\":[";
    bool first = true;
    for (const auto& it : v.as_list()) {
      s += (first ? "" : ",") + dumpv(*it);
      first = false;
    }
    return s + "]}";
  }
  string ks = "[", vs = "[";
  bool first = true;
  for (const auto& it : v.as_dict()) {
    ks += (first ? "" : ",") + js(it.first);
    vs += (first ? "" : ",") + dumpv(*it.second);
    first = false;
  }
  return "{\"t\":\"dict\",\"k\":" + ks + "],\"v\":" + vs + "]}";
}

static const vector<string> KEYS = {"a", "b", "", string("a\0", 2), "\xff", "ab"};
static JSON literal(vt::Rng& r, int depth = 0) {
  switch (r.below(depth >= 2 ? 5 : 8)) {
    case 0: return JSON(nullptr);
    case 1: return JSON(r.chance(50));
    case 2: return JSON((int64_t)r.range(-3, 3));
    case 3: return JSON(KEYS[r.below(KEYS.size())]);
    case 4: return JSON((double)r.range(-5, 5) / 2.0);
    case 5: return r.chance(50) ? JSON::list() : JSON::dict();
    case 6: {
      JSON l = JSON::list();
      for (int n = (int)r.below(3); n > 0; n--) l.emplace_back(literal(r, depth + 1));
      return l;
    }
    default: {
      JSON d = JSON::dict();
      for (int n = (int)r.below(3); n > 0; n--) d.emplace(KEYS[r.below(3)], literal(r, depth + 1));
      return d;
    }
  }
}

struct Loc {
  int d;           // document 0 / 1
  JSON* v;         // the addressed value
  string pj;       // the path as JSON
  vector<JSON*> chain;  // root .. v
};
static JSON D[2];
// a random path into document d: descend while there are members and the dice allow
static Loc pick(vt::Rng& r, int d, int stop_pct) {
  Loc l{d, &D[d], "", {&D[d]}};
  string pj = "[";
  for (int depth = 0; depth < 6; depth++) {
    JSON& v = *l.v;
    if (!(v.is_list() || v.is_dict()) || v.size() == 0 || r.chance(stop_pct)) break;
    if (v.is_list()) {
      size_t i = r.below(v.size());
      pj += string(pj.size() > 1 ? "," : "") + "{\"i\":" + to_string(i) + ",\"key\":[]}";
      l.v = &v.at(i);
    } else {
      auto it = v.as_dict().begin();
      std::advance(it, r.below(v.size()));
      pj += string(pj.size() > 1 ? "," : "") + "{\"i\":-1,\"key\":" + js(it->first) + "}";
      l.v = it->second.get();
    }
    l.chain.push_back(l.v);
  }
  l.pj = pj + "]";
  return l;
}
static bool on_chain(const Loc& l, const JSON* p) { return find(l.chain.begin(), l.chain.end(), p) != l.chain.end(); }
static size_t weight(const JSON& v) {
  size_t w = 1;
  if (v.is_list())
    for (const auto& it : v.as_list()) w += weight(*it);
  if (v.is_dict())
    for (const auto& it : v.as_dict()) w += weight(*it.second);
  return w;
}

template <typename F>
static string guarded(F f) {
  try {
    f();
    return "ok";
  } catch (const JSON::type_error&) {
    return "type_error";
  } catch (const out_of_range&) {
    return "out_of_range";
  } catch (const exception& e) {
    return string("other:") + vt::exc_name(e);
  }
}

static void history(vt::Rng& r, int nops) {
  D[0] = r.chance(50) ? JSON::list() : literal(r);
  D[1] = r.chance(50) ? JSON::dict() : literal(r);
  tr.emit("{\"e\":\"Reset\",\"docs\":[" + dumpv(D[0]) + "," + dumpv(D[1]) + "]}");
  tr.histories++;
  static const char* OPS[] = {"push", "push", "insert", "insert", "emplace", "erase", "assign", "assign", "assign", "resize", "clear",
      "swap", "size", "empty", "count", "contains", "front", "back", "eq"};
  for (int n = 0; n < nops; n++) {
    string op = OPS[r.below(sizeof(OPS) / sizeof(OPS[0]))];
    // keep the documents small: when they have grown, prefer the shrinking operations
    if (weight(D[0]) + weight(D[1]) > 60 && r.chance(70)) op = r.chance(50) ? "clear" : r.chance(50) ? "erase" : "resize";
    Loc t = pick(r, (int)r.below(2), op == "assign" ? 40 : 30);
    // containers are preferred as targets of container operations (the wrong kind is still tried sometimes)
    for (int tries = 0; tries < 4; tries++) {
      bool want_list = op == "push" || op == "resize" || op == "front" || op == "back";
      bool want_dict = op == "insert" || op == "emplace" || op == "erase" || op == "count" || op == "contains";
      if ((want_list && t.v->is_list()) || (want_dict && t.v->is_dict()) || (!want_list && !want_dict)) break;
      if (r.chance(15)) break;
      t = pick(r, (int)r.below(2), 30);
    }
    // the source of new content: a literal, or another part of a document (any relation to the target)
    bool has_src = r.chance(60);
    Loc s = pick(r, r.chance(60) ? t.d : 1 - t.d, 35);
    JSON lit = literal(r);
    string key = KEYS[r.below(KEYS.size())];
    if ((op == "erase" || op == "count" || op == "contains" || op == "insert" || op == "emplace") && t.v->is_dict() && t.v->size() && r.chance(60)) {
      auto it = t.v->as_dict().begin();
      std::advance(it, r.below(t.v->size()));
      key = it->first;
    }
    long long num = (long long)r.below(5), ret = 0;
    string extra;
    string out;
    // resize(n, fill) copies `fill` once per new member while the list grows: a fill that is the list itself or one of its
    // ancestors would be copied in different states - that use is not driven
    if (op == "resize" && has_src && (on_chain(t, s.v))) has_src = false;
    // swap needs two disjoint parts
    if (op == "swap") {
      has_src = true;
      for (int tries = 0; tries < 6 && (on_chain(t, s.v) || on_chain(s, t.v)); tries++) s = pick(r, (int)r.below(2), 35);
      if (on_chain(t, s.v) || on_chain(s, t.v)) op = "size", has_src = false;
    }
    if (op == "eq") has_src = true;
    const JSON& src = has_src ? *s.v : lit;
    if (op == "push") {
      out = guarded([&] { t.v->emplace_back(JSON(src)); });
    } else if (op == "insert") {
      out = guarded([&] { ret = t.v->insert(key, src).second; });
    } else if (op == "emplace") {
      out = guarded([&] {
        if (r.chance(50)) {
          string k2 = key;
          ret = t.v->emplace(std::move(k2), JSON(src)).second;
        } else
          ret = t.v->emplace(key, JSON(src)).second;
      });
    } else if (op == "erase") {
      out = guarded([&] { ret = (long long)t.v->erase(key); });
    } else if (op == "assign") {
      out = guarded([&] { *t.v = src; });
    } else if (op == "resize") {
      out = guarded([&] { t.v->resize((size_t)num, src); });
    } else if (op == "clear") {
      out = guarded([&] { t.v->clear(); });
    } else if (op == "swap") {
      out = guarded([&] { t.v->swap(*s.v); });
    } else if (op == "size") {
      out = guarded([&] { ret = (long long)t.v->size(); });
    } else if (op == "empty") {
      out = guarded([&] { ret = t.v->empty(); });
    } else if (op == "count") {
      out = guarded([&] { ret = (long long)t.v->count(key); });
    } else if (op == "contains") {
      out = guarded([&] { ret = t.v->contains(key); });
    } else if (op == "front" || op == "back") {
      if (t.v->is_list() && t.v->size() == 0) op = "size", out = guarded([&] { ret = (long long)t.v->size(); });  // front() of an empty list: undefined
      else
        out = guarded([&] { extra = dumpv(op == "front" ? t.v->front() : t.v->back()); });
    } else if (op == "eq") {
      out = guarded([&] { ret = (*t.v == *s.v); });
    }
    if (extra.empty()) extra = "{\"t\":\"null\"}";
    vt::J k;
    k.str("e", "op").str("op", op).num("d", t.d + 1).raw("p", t.pj).raw("key", js(key)).num("n", num);
    k.num("hassrc", has_src).num("sd", s.d + 1).raw("sp", s.pj).raw("lit", dumpv(lit));
    k.str("out", out).num("ret", ret).raw("member", extra).raw("docs", "[" + dumpv(D[0]) + "," + dumpv(D[1]) + "]");
    tr.emit(k);
    tr.nontrivial(op + out + (has_src ? (s.d == t.d ? (s.v == t.v ? "self" : on_chain(t, s.v) ? "anc" : on_chain(s, t.v) ? "desc" : "same") : "other") : "lit"));
  }
  D[0] = JSON();
  D[1] = JSON();
}

int main(int argc, char** argv) {
  if (argc < 6) return 2;
  tr.open(argv[1]);
  bool quick = string(argv[2]) == "quick";
  int shard = atoi(argv[4]), nshards = atoi(argv[5]);
  vt::Rng r(strtoull(argv[3], nullptr, 10) * 97 + shard);
  int nh = (quick ? 80 : 1600) / nshards + 1;
  for (int h = 0; h < nh; h++) history(r, r.chance(20) ? 150 : (int)r.range(10, 60));
  tr.stats();
  return 0;
}
