// C03 driver: endian-explicit scalar wrappers and bswap / ext / sign_extend helpers
// (spec/Endian).  The native reference of every operator is obtained by applying
// the SAME C++ operator to a plain T in this harness (the specification never
// re-implements integer promotion); the specification checks layout and returned
// values.   drv_endian <out> <tier> <seed>
#include <limits>
#include <type_traits>

#include <phosg/Encoding.hh>

#include "trace.hh"

using namespace std;
using namespace phosg;

static vt::Trace tr;

template <typename T>
static uint64_t bits_of(T t) {
  if constexpr (sizeof(T) == 1) {
    uint8_t x;
    memcpy(&x, &t, 1);
    return x;
  } else if constexpr (sizeof(T) == 2) {
    uint16_t x;
    memcpy(&x, &t, 2);
    return x;
  } else if constexpr (sizeof(T) == 4) {
    uint32_t x;
    memcpy(&x, &t, 4);
    return x;
  } else {
    uint64_t x;
    memcpy(&x, &t, 8);
    return x;
  }
}
template <typename T>
static T from_bits(uint64_t v) {
  T t;
  if constexpr (sizeof(T) == 2) {
    uint16_t x = v;
    memcpy(&t, &x, 2);
  } else if constexpr (sizeof(T) == 4) {
    uint32_t x = v;
    memcpy(&t, &x, 4);
  } else {
    uint64_t x = v;
    memcpy(&t, &x, 8);
  }
  return t;
}
static string dig(uint64_t v, int w) { return vt::J::arr_u64(v, w); }
template <typename W>
static string mem_of(const W& w) {
  return vt::J::arr_bytes(&w, sizeof(W));
}

static const char* OPS_INT[] = {"ctor", "assign", "store", "store_raw", "+=", "-=", "*=", "/=", "%=", "&=", "|=", "^=",
    "<<=", ">>=", "++x", "x++", "--x", "x--",
    // the assignment operators yield the object itself (an lvalue), as for a native variable: assigning to the result
    // of `x op= b` changes x
    "chain=", "chain+=", "chain-=", "chain*=", "chain&=", "chain|=", "chain^=", "chain<<=", "chain>>="};
static const char* OPS_FLT[] = {"ctor", "assign", "store", "+=", "-=", "*=", "/=", "++x", "x++", "--x", "x--", "chain=", "chain+=", "chain-=", "chain*="};

// applies op to wrapper x (initially a) and native n (initially a); returns false if the case must be skipped
template <typename W, typename T, typename S>
static bool apply(const string& op, W& x, T& n, T a, T b, uint64_t& wret, uint64_t& nret) {
  x = W(a);
  n = a;
  if (op == "ctor") {
    x = W(b);
    n = b;
    wret = bits_of<T>((T)x);
    nret = bits_of<T>(n);
  } else if (op == "assign") {
    T r1 = (x = b);
    T r2 = (n = b);
    wret = bits_of(r1);
    nret = bits_of(r2);
  } else if (op == "store") {
    x.store(b);
    n = b;
    wret = bits_of<T>(x.load());
    nret = bits_of(n);
  } else if (op == "store_raw") {
    // raw access is the stored representation: storing load_raw() of another wrapper reproduces its value
    W y(b);
    x.store_raw(y.load_raw());
    n = b;
    wret = bits_of<T>(x.load());
    nret = bits_of(n);
  } else if (op == "++x") {
    T r1 = ++x;
    T r2 = ++n;
    wret = bits_of(r1);
    nret = bits_of(r2);
  } else if (op == "x++") {
    T r1 = x++;
    T r2 = n++;
    wret = bits_of(r1);
    nret = bits_of(r2);
  } else if (op == "--x") {
    T r1 = --x;
    T r2 = --n;
    wret = bits_of(r1);
    nret = bits_of(r2);
  } else if (op == "x--") {
    T r1 = x--;
    T r2 = n--;
    wret = bits_of(r1);
    nret = bits_of(r2);
  } else if (op.rfind("chain", 0) == 0) {
    // (x op= b) = c  with c derived from the operands; skipped where the first step is undefined for the native type
    T c;
    if constexpr (std::is_floating_point_v<T>) c = b + (T)1;
    else c = (T)(b ^ (T)0x5A);
    string inner = op.substr(5);
#define CHAIN(OPSTR, OP)                   \
  if (inner == OPSTR) {                    \
    T r1 = ((x OP b) = c);                 \
    T r2 = ((n OP b) = c);                 \
    wret = bits_of(r1);                    \
    nret = bits_of(r2);                    \
    return true;                           \
  }
    CHAIN("=", =)
    CHAIN("+=", +=)
    CHAIN("-=", -=)
    CHAIN("*=", *=)
    if constexpr (std::is_integral_v<T>) {
      CHAIN("&=", &=)
      CHAIN("|=", |=)
      CHAIN("^=", ^=)
      if (inner == "<<=" || inner == ">>=") {
        int sh = (int)((uint64_t)b % (sizeof(T) < 4 ? 32 : sizeof(T) * 8));
        if (inner == "<<=") {
          T r1 = ((x <<= sh) = c);
          T r2 = ((n <<= sh) = c);
          wret = bits_of(r1);
          nret = bits_of(r2);
        } else {
          T r1 = ((x >>= sh) = c);
          T r2 = ((n >>= sh) = c);
          wret = bits_of(r1);
          nret = bits_of(r2);
        }
        return true;
      }
    }
    return false;
  } else {
#define BIN(OPSTR, OP)           \
  if (op == OPSTR) {             \
    T r1 = (x OP b);             \
    T r2 = (n OP b);             \
    wret = bits_of(r1);          \
    nret = bits_of(r2);          \
    return true;                 \
  }
    BIN("+=", +=)
    BIN("-=", -=)
    BIN("*=", *=)
    if (op == "/=") {
      // dividing a floating field by zero is defined (IEEE 754: infinities / NaN), dividing an integer field is not
      if (std::is_integral_v<T> && b == 0) return false;
      if constexpr (std::is_integral_v<T> && std::is_signed_v<T>)
        if (b == (T)-1 && a == std::numeric_limits<T>::min()) return false;
      T r1 = (x /= b);
      T r2 = (n /= b);
      wret = bits_of(r1);
      nret = bits_of(r2);
      return true;
    }
    if constexpr (std::is_integral_v<T>) {
      if (op == "%=") {
        if (b == 0) return false;
        if constexpr (std::is_signed_v<T>)
          if (b == (T)-1 && a == std::numeric_limits<T>::min()) return false;
        T r1 = (x %= b);
        T r2 = (n %= b);
        wret = bits_of(r1);
        nret = bits_of(r2);
        return true;
      }
      BIN("&=", &=)
      BIN("|=", |=)
      BIN("^=", ^=)
      if (op == "<<=" || op == ">>=") {
        // 8/16-bit operands are promoted to int: distances up to 31 are well-defined for them (C++20)
        int sh = (int)((uint64_t)b % (sizeof(T) < 4 ? 32 : sizeof(T) * 8));
        if (op == "<<=") {
          T r1 = (x <<= sh);
          T r2 = (n <<= sh);
          wret = bits_of(r1);
          nret = bits_of(r2);
        } else {
          T r1 = (x >>= sh);
          T r2 = (n >>= sh);
          wret = bits_of(r1);
          nret = bits_of(r2);
        }
        return true;
      }
    }
    return false;
  }
  return true;
}

template <typename T>
static vector<uint64_t> boundary_bits() {
  int w = sizeof(T);
  uint64_t mask = w == 8 ? ~0ULL : ((1ULL << (8 * w)) - 1);
  vector<uint64_t> v;
  if constexpr (std::is_floating_point_v<T>) {
    for (double d : {0.0, -0.0, 1.0, -1.0, 0.5, 2.0, 3.0, 1e10, -1e-10, 16777216.0, 123456.789})
      v.push_back(bits_of<T>((T)d));
    if (w == 4) {
      for (uint64_t x : {0x7F7FFFFFull, 0x00800000ull, 0x00000001ull, 0x7F800000ull, 0xFF800000ull, 0x7FC00001ull})
        v.push_back(x);
    } else {
      for (uint64_t x : {0x7FEFFFFFFFFFFFFFull, 0x0010000000000000ull, 0x1ull, 0x7FF0000000000000ull, 0x7FF8000000000001ull})
        v.push_back(x);
    }
  } else {
    for (uint64_t x : {0ull, 1ull, 2ull, 3ull, 7ull, 0x7Full, 0x80ull, 0xFFull, 0x100ull, 0x0102ull, 0x8001ull})
      v.push_back(x & mask);
    v.push_back(mask);
    v.push_back(mask - 1);
    v.push_back(mask >> 1);
    v.push_back((mask >> 1) + 1);
    v.push_back((mask >> 1) + 2);
    v.push_back(0x0102030405060708ull & mask);
    v.push_back(0x80FF7F0180FF7F01ull & mask);
    v.push_back(0xFF00FF00FF00FF00ull & mask);
    for (int lane = 0; lane < w; lane++) v.push_back((0x81ull + lane) << (8 * lane));
  }
  return v;
}

template <typename W, typename T, typename S>
static void wrapper_cases(const string& type, const string& ord, vt::Rng& r, int nrandom) {
  constexpr bool fl = std::is_floating_point_v<T>;
  vector<uint64_t> B = boundary_bits<T>();
  for (int k = 0; k < nrandom; k++) {
    uint64_t x = r.next();
    if (sizeof(T) < 8) x &= (1ULL << (8 * sizeof(T))) - 1;
    if (fl) {
      T t = from_bits<T>(x);
      if (t != t) continue;
    }
    B.push_back(x);
  }
  int nops = fl ? 15 : 27;
  for (int oi = 0; oi < nops; oi++) {
    string op = fl ? OPS_FLT[oi] : OPS_INT[oi];
    bool unary = op == "++x" || op == "x++" || op == "--x" || op == "x--";
    for (uint64_t ab : B)
      for (uint64_t bb : B) {
        if (unary && bb != B[0]) continue;
        T a = from_bits<T>(ab), b = from_bits<T>(bb);
        W x(a);
        T n;
        uint64_t wret = 0, nret = 0;
        try {
          if (!apply<W, T, S>(op, x, n, a, b, wret, nret)) continue;
        } catch (const exception& e) {
          vt::J j;
          j.str("e", "wrapthrew").str("type", type).str("op", op).raw("a", dig(ab, sizeof(T))).raw("b", dig(bb, sizeof(T))).str("what", e.what());
          tr.emit(j);
          continue;
        }
        vt::J j;
        j.str("e", "wrap").str("type", type).str("ord", ord).num("w", sizeof(T)).num("size", sizeof(W)).str("op", op);
        j.raw("a", dig(ab, sizeof(T))).raw("b", dig(bb, sizeof(T)));
        j.raw("after", dig(bits_of(n), sizeof(T))).raw("loaded", dig(bits_of<T>((T)x), sizeof(T)));
        j.raw("stored", mem_of(x)).raw("ret", dig(wret, sizeof(T))).raw("nret", dig(nret, sizeof(T)));
        tr.emit(j);
      }
    tr.nontrivial(type + op);
  }
}

// compound assignment with an operand of a DIFFERENT (wider / floating) type: the native operator computes in
// the promoted type and narrows only the result, and so must the wrapper
template <typename W, typename T, typename R>
static void foreign_cases(const string& type, const string& ord, const string& rname, const vector<R>& rs) {
  constexpr bool fl = std::is_floating_point_v<T>;
  vector<T> as;
  for (double d : {0.0, 1.0, 7.0, 10.0, 100.0, 500.0, 1000.0}) as.push_back((T)d);
  // negative (for unsigned types: wrapped) left operands: signed remainder / division keep the dividend's sign
  if constexpr (std::is_integral_v<T>)
    for (int64_t d : {-1, -3, -7, -100, -1000, -32769}) as.push_back((T)d);
  else
    for (double d : {-1.0, -3.0, -7.5, -100.25}) as.push_back((T)d);
  for (const char* opc : {"+=", "-=", "*=", "/=", "%="}) {
    string op = opc;
    vector<R> rs2 = rs;
    if (fl && op == "/=") {  // a floating field divided by a zero of any type: infinities / NaN, as for the native type
      rs2.push_back((R)0);
      if constexpr (std::is_floating_point_v<R>) rs2.push_back((R)-0.0);
    }
    for (T a : as)
      for (R b : rs2) try {
        W x(a);
        T n = a;
        T r1, r2;
        if (op == "+=") {
          r1 = (x += b);
          r2 = (n += b);
        } else if (op == "-=") {
          r1 = (x -= b);
          r2 = (n -= b);
        } else if (op == "*=") {
          r1 = (x *= b);
          r2 = (n *= b);
        } else if (op == "/=") {
          if (!fl && b == 0) continue;
          r1 = (x /= b);
          r2 = (n /= b);
        } else {
          if constexpr (std::is_integral_v<T> && std::is_integral_v<R>) {
            if (b == 0) continue;
            r1 = (x %= b);
            r2 = (n %= b);
          } else
            continue;
        }
        vt::J j;
        j.str("e", "wrap").str("type", type).str("ord", ord).num("w", sizeof(T)).num("size", sizeof(W)).str("op", op + rname);
        j.raw("a", dig(bits_of(a), sizeof(T))).raw("b", dig(bits_of<R>(b), sizeof(R)));
        j.raw("after", dig(bits_of(n), sizeof(T))).raw("loaded", dig(bits_of<T>((T)x), sizeof(T)));
        j.raw("stored", mem_of(x)).raw("ret", dig(bits_of(r1), sizeof(T))).raw("nret", dig(bits_of(r2), sizeof(T)));
        tr.emit(j);
      } catch (const exception& e) {
        vt::J j;
        j.str("e", "wrapthrew").str("type", type).str("op", op + rname).raw("a", dig(bits_of(a), sizeof(T))).raw("b", dig(bits_of<R>(b), sizeof(R))).str("what", e.what());
        tr.emit(j);
      }
    tr.nontrivial(type + op + rname);
  }
  (void)fl;
}
template <typename W, typename T>
static void foreign_all(const string& type, const string& ord) {
  foreign_cases<W, T, int32_t>(type, ord, "i32", {1, 2, 3, -1, 0x10002, 0x10003, 65536, 70000, -65537});
  foreign_cases<W, T, int64_t>(type, ord, "i64", {1, -1, 3, 0x100000002LL, 0x100000003LL, (1LL << 40) + 3, -(1LL << 33) - 1});
  // operands NARROWER than the field and of the other signedness (they are promoted / converted to the field's type)
  foreign_cases<W, T, uint8_t>(type, ord, "u8", {1, 2, 3, 4, 8, 128, 255});
  foreign_cases<W, T, uint16_t>(type, ord, "u16", {2, 3, 4, 256, 32768, 65535});
  foreign_cases<W, T, uint32_t>(type, ord, "u32", {2u, 3u, 8u, 65536u, 0x80000000u, 0xFFFFFFFFu});
  foreign_cases<W, T, int8_t>(type, ord, "i8", {(int8_t)-1, (int8_t)2, (int8_t)-3, (int8_t)-128, (int8_t)127});
  foreign_cases<W, T, float>(type, ord, "flt", {0.5f, 2.0f, 1.5f, 0.25f});
  if constexpr (sizeof(T) >= 4 || std::is_floating_point_v<T>)
    foreign_cases<W, T, double>(type, ord, "dbl", {1.5, 0.5, 2.5, 2.0, 0.25, 3.75, 1.0});
  else
    foreign_cases<W, T, double>(type, ord, "dbl", {1.5, 0.5, 2.5, 2.0, 0.25, 1.0});
}

// exhaustive 16-bit wrappers (unary operators + assignment of every value), batched
template <typename W, typename T>
static void wrapper16(const string& type, const string& ord) {
  for (const char* opc : {"assign", "++x", "x++", "--x", "x--", "+=7", "*=3", ">>=1"}) {
    string op = opc;
    vector<long> after, loaded, stored, ret, nret;
    for (uint32_t v = 0; v < 65536; v++) {
      T a = from_bits<T>(v);
      W x(a);
      T n = a;
      T r1, r2;
      if (op == "assign") {
        W y;
        r1 = (y = a);
        x = y;
        r2 = a;
      } else if (op == "++x") {
        r1 = ++x;
        r2 = ++n;
      } else if (op == "x++") {
        r1 = x++;
        r2 = n++;
      } else if (op == "--x") {
        r1 = --x;
        r2 = --n;
      } else if (op == "x--") {
        r1 = x--;
        r2 = n--;
      } else if (op == "+=7") {
        r1 = (x += 7);
        r2 = (n += 7);
      } else if (op == "*=3") {
        r1 = (x *= 3);
        r2 = (n *= 3);
      } else {
        r1 = (x >>= 1);
        r2 = (n >>= 1);
      }
      uint8_t m[2];
      memcpy(m, &x, 2);
      after.push_back(bits_of(n));
      loaded.push_back(bits_of<T>((T)x));
      stored.push_back(m[0] * 256 + m[1]);
      ret.push_back(bits_of(r1));
      nret.push_back(bits_of(r2));
    }
    vt::J j;
    j.str("e", "w16").str("type", type).str("ord", ord).num("size", sizeof(W)).str("op", op);
    j.ints("after", after).ints("loaded", loaded).ints("stored", stored).ints("ret", ret).ints("nret", nret);
    tr.emit(j);
    tr.events += 65535;
    tr.nontrivial(type + "16" + op);
  }
}

static void helper_batch(const string& name, const string& fn, int n, int w, int rw, bool sx,
    const vector<uint64_t>& vs, function<uint64_t(uint64_t)> f) {
  string a = "[", b = "[";
  for (size_t i = 0; i < vs.size(); i++) {
    if (i) {
      a += ",";
      b += ",";
    }
    a += dig(vs[i], w);
    b += dig(f(vs[i]), rw);
  }
  a += "]";
  b += "]";
  vt::J j;
  j.str("e", "hb").str("name", name).str("fn", fn).num("n", n).num("sx", sx).raw("vs", a).raw("rs", b);
  tr.emit(j);
  tr.events += vs.size() - 1;
  tr.nontrivial(name);
}

static vector<uint64_t> samples(vt::Rng& r, int nbytes, int count) {
  uint64_t mask = nbytes == 8 ? ~0ULL : ((1ULL << (8 * nbytes)) - 1);
  vector<uint64_t> v = {0, 1, mask, mask >> 1, (mask >> 1) + 1, 0x0102030405060708ull & mask, 0x80FF7F0180FF7F01ull & mask};
  for (int lane = 0; lane < nbytes; lane++)
    for (int val : {0x01, 0x7F, 0x80, 0xFF}) v.push_back((uint64_t)val << (8 * lane));
  // stratified: every (top byte class) x random remainder
  for (int i = 0; i < count; i++) {
    uint64_t x = r.next() & mask;
    if (i % 4 == 0) x |= 1ULL << (8 * nbytes - 1);
    if (i % 4 == 1) x &= ~(1ULL << (8 * nbytes - 1));
    v.push_back(x);
  }
  return v;
}

// the same samples with the bytes above the narrow value filled: all ones (what a sign-extended negative 24 / 48-bit
// value looks like, e.g. a bswap48s result fed to bswap48s again) or arbitrary - the 24 / 48-bit swaps see only the
// low bytes of their argument
static vector<uint64_t> wide_samples(vt::Rng& r, int nbytes, int wbytes, int count) {
  vector<uint64_t> v = samples(r, nbytes, count);
  uint64_t wmask = wbytes == 8 ? ~0ULL : ((1ULL << (8 * wbytes)) - 1);
  uint64_t high = wmask & ~((1ULL << (8 * nbytes)) - 1);
  for (size_t i = 0; i < v.size(); i++) {
    if (i % 3 == 0) v[i] |= high;
    else if (i % 3 == 1)
      v[i] |= r.next() & high;
    else if (v[i] & (1ULL << (8 * nbytes - 1)))
      v[i] |= high;
  }
  return v;
}

int main(int argc, char** argv) {
  if (argc < 4) return 2;
  tr.open(argv[1]);
  bool quick = string(argv[2]) == "quick";
  vt::Rng r(strtoull(argv[3], nullptr, 10) * 31 + 7);
  tr.emit("{\"e\":\"Reset\",\"host\":\"l\"}");
  tr.histories++;
  int nr = quick ? 4 : 30;
#define WRAP(PFX, ORD)                                                           \
  wrapper_cases<PFX##_uint16_t, uint16_t, uint16_t>(#PFX "_uint16_t", ORD, r, nr); \
  wrapper_cases<PFX##_int16_t, int16_t, int16_t>(#PFX "_int16_t", ORD, r, nr);     \
  wrapper_cases<PFX##_uint32_t, uint32_t, uint32_t>(#PFX "_uint32_t", ORD, r, nr); \
  wrapper_cases<PFX##_int32_t, int32_t, int32_t>(#PFX "_int32_t", ORD, r, nr);     \
  wrapper_cases<PFX##_uint64_t, uint64_t, uint64_t>(#PFX "_uint64_t", ORD, r, nr); \
  wrapper_cases<PFX##_int64_t, int64_t, int64_t>(#PFX "_int64_t", ORD, r, nr);     \
  wrapper_cases<PFX##_float, float, uint32_t>(#PFX "_float", ORD, r, nr);          \
  wrapper_cases<PFX##_double, double, uint64_t>(#PFX "_double", ORD, r, nr);
  WRAP(be, "b")
  WRAP(le, "l")
  WRAP(re, "r")
#define FOREIGN(PFX, ORD)                                        \
  foreign_all<PFX##_uint16_t, uint16_t>(#PFX "_uint16_t", ORD); \
  foreign_all<PFX##_int16_t, int16_t>(#PFX "_int16_t", ORD);    \
  foreign_all<PFX##_uint32_t, uint32_t>(#PFX "_uint32_t", ORD); \
  foreign_all<PFX##_int32_t, int32_t>(#PFX "_int32_t", ORD);    \
  foreign_all<PFX##_uint64_t, uint64_t>(#PFX "_uint64_t", ORD); \
  foreign_all<PFX##_int64_t, int64_t>(#PFX "_int64_t", ORD);    \
  foreign_all<PFX##_float, float>(#PFX "_float", ORD);          \
  foreign_all<PFX##_double, double>(#PFX "_double", ORD);
  FOREIGN(be, "b")
  FOREIGN(le, "l")
  FOREIGN(re, "r")
  wrapper16<be_uint16_t, uint16_t>("be_uint16_t", "b");
  wrapper16<be_int16_t, int16_t>("be_int16_t", "b");
  wrapper16<le_uint16_t, uint16_t>("le_uint16_t", "l");
  wrapper16<le_int16_t, int16_t>("le_int16_t", "l");
  wrapper16<re_uint16_t, uint16_t>("re_uint16_t", "r");
  wrapper16<re_int16_t, int16_t>("re_int16_t", "r");

  // helpers: exhaustive 16-bit
  {
    vector<long> vs, rs;
    for (uint32_t v = 0; v < 65536; v++) {
      vs.push_back(v);
      rs.push_back(bswap16(v));
    }
    vt::J j;
    j.str("e", "h16").str("fn", "bswap16").ints("vs", vs).ints("rs", rs);
    tr.emit(j);
    vector<long> rs2;
    for (uint32_t v = 0; v < 65536; v++) rs2.push_back((uint16_t)bswap<int16_t>((int16_t)v));
    vt::J k;
    k.str("e", "h16").str("fn", "bswap16").ints("vs", vs).ints("rs", rs2);
    tr.emit(k);
    string pairs = "[";
    for (uint32_t v = 0; v < 65536; v++) {
      uint32_t x = (uint32_t)sign_extend<int32_t, uint16_t>((uint16_t)v);
      if (v) pairs += ",";
      pairs += "[" + to_string(x >> 16) + "," + to_string(x & 0xFFFF) + "]";
    }
    pairs += "]";
    vt::J m;
    m.str("e", "h16").str("fn", "sx16_32").ints("vs", vs).raw("rs", pairs);
    tr.emit(m);
    vector<long> v8, r8;
    for (uint32_t v = 0; v < 256; v++) {
      v8.push_back(v);
      r8.push_back((uint16_t)sign_extend<int16_t, uint8_t>((uint8_t)v));
    }
    vt::J n;
    n.str("e", "h16").str("fn", "sx8_16").ints("vs", v8).ints("rs", r8);
    tr.emit(n);
    tr.events += 65536 * 3;
    tr.nontrivial("h16");
  }
  int cnt = quick ? 3000 : 200000;
  helper_batch("bswap24", "bswap", 3, 4, 4, false, samples(r, 3, cnt), [](uint64_t v) { return (uint64_t)bswap24((uint32_t)v); });
  helper_batch("bswap24s", "bswap", 3, 4, 4, true, samples(r, 3, cnt), [](uint64_t v) { return (uint64_t)(uint32_t)bswap24s((int32_t)v); });
  helper_batch("bswap32", "bswap", 4, 4, 4, false, samples(r, 4, cnt), [](uint64_t v) { return (uint64_t)bswap32((uint32_t)v); });
  helper_batch("bswap<int32_t>", "bswap", 4, 4, 4, false, samples(r, 4, cnt / 4), [](uint64_t v) { return (uint64_t)(uint32_t)bswap<int32_t>((int32_t)v); });
  helper_batch("bswap48", "bswap", 6, 8, 8, false, samples(r, 6, cnt), [](uint64_t v) { return bswap48(v); });
  helper_batch("bswap48s", "bswap", 6, 8, 8, true, samples(r, 6, cnt), [](uint64_t v) { return (uint64_t)bswap48s((int64_t)v); });
  helper_batch("bswap64", "bswap", 8, 8, 8, false, samples(r, 8, cnt), [](uint64_t v) { return bswap64(v); });
  helper_batch("bswap24 (high byte set)", "bswap", 3, 4, 4, false, wide_samples(r, 3, 4, cnt / 4), [](uint64_t v) { return (uint64_t)bswap24((uint32_t)v); });
  helper_batch("bswap24s (high byte set)", "bswap", 3, 4, 4, true, wide_samples(r, 3, 4, cnt / 4), [](uint64_t v) { return (uint64_t)(uint32_t)bswap24s((int32_t)v); });
  helper_batch("bswap48 (high bytes set)", "bswap", 6, 8, 8, false, wide_samples(r, 6, 8, cnt / 4), [](uint64_t v) { return bswap48(v); });
  helper_batch("bswap48s (high bytes set)", "bswap", 6, 8, 8, true, wide_samples(r, 6, 8, cnt / 4), [](uint64_t v) { return (uint64_t)bswap48s((int64_t)v); });
  helper_batch("bswap24s twice", "ext", 3, 4, 4, true, samples(r, 3, cnt / 4), [](uint64_t v) { return (uint64_t)(uint32_t)bswap24s(bswap24s((int32_t)v)); });
  helper_batch("bswap48s twice", "ext", 6, 8, 8, true, samples(r, 6, cnt / 4), [](uint64_t v) { return (uint64_t)bswap48s(bswap48s((int64_t)v)); });
  helper_batch("bswap<int64_t>", "bswap", 8, 8, 8, false, samples(r, 8, cnt / 4), [](uint64_t v) { return (uint64_t)bswap<int64_t>((int64_t)v); });
  helper_batch("bswap32f", "bswap", 4, 4, 4, false, samples(r, 4, cnt / 4), [](uint64_t v) { return (uint64_t)bswap32f(from_bits<float>(v)); });
  helper_batch("bswap32f(u32)", "bswap", 4, 4, 4, false, samples(r, 4, cnt / 4), [](uint64_t v) { return bits_of<float>(bswap32f((uint32_t)v)); });
  helper_batch("bswap64f", "bswap", 8, 8, 8, false, samples(r, 8, cnt / 4), [](uint64_t v) { return bswap64f(from_bits<double>(v)); });
  helper_batch("bswap64f(u64)", "bswap", 8, 8, 8, false, samples(r, 8, cnt / 4), [](uint64_t v) { return bits_of<double>(bswap64f((uint64_t)v)); });
  helper_batch("ext24", "ext", 3, 4, 4, true, samples(r, 3, cnt), [](uint64_t v) { return (uint64_t)(uint32_t)ext24((uint32_t)v); });
  helper_batch("ext48", "ext", 6, 8, 8, true, samples(r, 6, cnt), [](uint64_t v) { return (uint64_t)ext48(v); });
  helper_batch("sign_extend<int32,uint8>", "sx", 4, 1, 4, true, samples(r, 1, 300), [](uint64_t v) { return (uint64_t)(uint32_t)sign_extend<int32_t, uint8_t>((uint8_t)v); });
  helper_batch("sign_extend<int64,uint8>", "sx", 8, 1, 8, true, samples(r, 1, 300), [](uint64_t v) { return (uint64_t)sign_extend<int64_t, uint8_t>((uint8_t)v); });
  helper_batch("sign_extend<int64,uint16>", "sx", 8, 2, 8, true, samples(r, 2, cnt / 4), [](uint64_t v) { return (uint64_t)sign_extend<int64_t, uint16_t>((uint16_t)v); });
  helper_batch("sign_extend<uint64,uint16>", "sx", 8, 2, 8, true, samples(r, 2, cnt / 4), [](uint64_t v) { return (uint64_t)sign_extend<uint64_t, uint16_t>((uint16_t)v); });
  helper_batch("sign_extend<int64,uint32>", "sx", 8, 4, 8, true, samples(r, 4, cnt), [](uint64_t v) { return (uint64_t)sign_extend<int64_t, uint32_t>((uint32_t)v); });
  tr.stats();
  return 0;
}
