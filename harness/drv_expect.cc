// C19 driver: expect_* macros and expect_raises<E> (spec/Expect).   drv_expect <out>
#include <math.h>

#include <limits>
#include <new>

#include <phosg/UnitTest.hh>

#include "trace.hh"
using namespace std;
using namespace phosg;

static vt::Trace tr;
struct user_rt : runtime_error {
  user_rt() : runtime_error("user_rt") {}
};
struct user_plain {
  int x = 1;
};
static const uint64_t FN_LINE = 424242;  // line carried by an expectation_failed thrown by fn itself

// what() texts of the exceptions fn throws: they are data, whatever characters they contain
static const char* WHATS[] = {"x", "cache is 100% full", "%s%s%s%s%s%s%s%s", "%2147483648d", "%", "%n%n", "a\nb \"q\" \\ %%"};
static const char* g_what = "x";
static void throw_beh(const string& b) {
  if (b == "returns") return;
  if (b == "throws_int") throw 7;
  if (b == "exception") throw std::exception();
  if (b == "logic_error") throw logic_error(g_what);
  if (b == "invalid_argument") throw invalid_argument(g_what);
  if (b == "out_of_range") throw out_of_range(g_what);
  if (b == "runtime_error") throw runtime_error(g_what);
  if (b == "range_error") throw range_error(g_what);
  if (b == "bad_alloc") throw bad_alloc();
  if (b == "expectation_failed") throw expectation_failed("from fn", "fn.cc", FN_LINE);
  if (b == "user_rt") throw user_rt();
  if (b == "user_plain") throw user_plain();
}
static const char* BEH[] = {"returns", "throws_int", "exception", "logic_error", "invalid_argument", "out_of_range",
    "runtime_error", "range_error", "bad_alloc", "expectation_failed", "user_rt", "user_plain"};

// Every helper is called in one of four contexts in rotation: plainly, inside a catch handler, from a destructor that
// runs while another exception unwinds the stack (the failure is caught inside the destructor), and from a destructor on
// normal scope exit.  The expectation must fail (or not) in exactly the same way everywhere.
static int g_ctx = 0;
struct AtExit {
  function<void()>& f;
  ~AtExit() { f(); }
};
static void record(const string& e, vt::J& j, uint64_t site_line, function<void()> call, const char* msg_expect) {
  string outcome = "none";
  uint64_t line = 0;
  bool file_ok = false, msg_ok = false;
  function<void()> run = [&] {
    try {
      call();
    } catch (const expectation_failed& ex) {
      outcome = "expectation_failed";
      line = ex.line;
      file_ok = ex.file && string(ex.file) == __FILE__;
      string what = ex.what();
      msg_ok = msg_expect && what.find(msg_expect) != string::npos && what.find(__FILE__) != string::npos &&
          what.find(to_string(site_line)) != string::npos;
    } catch (const std::exception& ex) {
      outcome = vt::exc_name(ex);
    } catch (...) {
      outcome = "other";
    }
  };
  int ctx = g_ctx;
  if (ctx == 0) {
    run();
  } else if (ctx == 1) {
    try {
      throw 1;
    } catch (int) {
      run();
    }
  } else if (ctx == 2) {
    try {
      AtExit g{run};
      throw 2;
    } catch (int) {
    }
  } else {
    AtExit g{run};
  }
  j.num("ctx", ctx);
  j.str("outcome", outcome).num("line", (long long)line).num("site_line", (long long)site_line).num("file_ok", file_ok).num("msg_ok", msg_ok);
  tr.emit(j);
  tr.nontrivial(e + outcome);
}

template <typename E>
static void raises_row(const char* ename) {
  for (const char* wt : WHATS)
  for (const char* b : BEH) {
    g_what = wt;
    if (wt != WHATS[0] && string(b).find("_error") == string::npos && string(b) != "invalid_argument" && string(b) != "out_of_range") continue;
    vt::J j;
    j.str("e", "raises").str("E", ename).str("beh", b).str("what", wt);
    uint64_t site = 0;
    string bs = b;
    record(string("raises") + ename, j, (site = __LINE__ + 1), [&]() {
      expect_raises(E, [&]() { throw_beh(bs); });
    }, nullptr);
    (void)site;
  }
}

template <typename T>
static void rel_cases(const char* kind, const vector<T>& vals, const vector<long>& ranks) {
  for (size_t i = 0; i < vals.size(); i++)
    for (size_t k = 0; k < vals.size(); k++) {
      const T& a = vals[i];
      const T& b = vals[k];
#define REL(OPNAME, MACRO, MSG)                                                                    \
  {                                                                                                \
    vt::J j;                                                                                       \
    j.str("e", "rel").str("op", OPNAME).str("kind", kind).num("a", ranks[i]).num("b", ranks[k]);   \
    record(string("rel") + OPNAME + kind, j, __LINE__, [&]() { MACRO(a, b); }, MSG);               \
  }
      REL("eq", expect_eq, "a != b")
      REL("ne", expect_ne, "a == b")
      REL("gt", expect_gt, "a <= b")
      REL("ge", expect_ge, "a < b")
      REL("lt", expect_lt, "a >= b")
      REL("le", expect_le, "a > b")
    }
}

int main(int argc, char** argv) {
  if (argc < 2) return 2;
  tr.open(argv[1]);
  tr.emit("{\"e\":\"Reset\"}");
  tr.histories++;
  for (g_ctx = 0; g_ctx < 4; g_ctx++) {
  raises_row<std::exception>("exception");
  raises_row<std::logic_error>("logic_error");
  raises_row<std::invalid_argument>("invalid_argument");
  raises_row<std::out_of_range>("out_of_range");
  raises_row<std::runtime_error>("runtime_error");
  raises_row<std::range_error>("range_error");
  raises_row<std::bad_alloc>("bad_alloc");
  raises_row<expectation_failed>("expectation_failed");
  raises_row<user_rt>("user_rt");
  raises_row<user_plain>("user_plain");
  rel_cases<int64_t>("i64", {numeric_limits<int64_t>::min(), -1, 0, 1, numeric_limits<int64_t>::max()}, {0, 1, 2, 3, 4});
  rel_cases<uint64_t>("u64", {0, 1, 0x7FFFFFFFFFFFFFFFULL, 0x8000000000000000ULL, ~0ULL}, {0, 1, 2, 3, 4});
  rel_cases<int>("int", {-2147483647 - 1, -7, 0, 7, 2147483647}, {0, 1, 2, 3, 4});
  rel_cases<string>("str", {"", string(1, '\0'), "A", "a", "a\x01", "ab", "b", "\xff"}, {0, 1, 2, 3, 4, 5, 6, 7});
  double inf = numeric_limits<double>::infinity();
  rel_cases<double>("dbl", {-inf, -1.5, -0.0, 0.0, 5e-324, 1.0, numeric_limits<double>::max(), inf, nan("")},
      {0, 1, 2, 2, 3, 4, 5, 6, -1});
  rel_cases<float>("flt", {-1.0f, 0.0f, 1.5f, nanf("")}, {0, 1, 2, -1});
  // predicates that are not bool: anything contextually true must pass, anything false must fail (no narrowing on the way)
  {
#define PRED(KIND, VALUE, TRUTH)                                                            \
  {                                                                                         \
    vt::J j;                                                                                \
    j.str("e", "rel").str("op", "expect").str("kind", KIND).num("a", TRUTH).num("b", 0);  \
    record("expect", j, __LINE__, [&]() { expect(VALUE); }, "!(" #VALUE ")");              \
    vt::J k;                                                                                \
    k.str("e", "rel").str("op", "expect").str("kind", KIND "m").num("a", TRUTH).num("b", 0); \
    record("expect_msg", k, __LINE__, [&]() { expect_msg(VALUE, "custom message"); }, "custom message"); \
  }
    double half = 0.5, tiny = 1e-300, zero = 0.0, negfrac = -0.25;
    float quarter = 0.25f;
    uint64_t high = 1ULL << 40, top = 1ULL << 63;
    int64_t neg = -1;
    int izero = 0;
    PRED("dblhalf", half, 1)
    PRED("dbltiny", tiny, 1)
    PRED("dblneg", negfrac, 1)
    PRED("fltquarter", quarter, 1)
    PRED("dblzero", zero, 0)
    PRED("u64high", high, 1)
    PRED("u64top", top, 1)
    PRED("i64neg", neg, 1)
    PRED("intzero", izero, 0)
#undef PRED
  }
  // operands that are compound expressions (operators binding less tightly than the comparison): the macros must
  // compare the VALUES of their arguments
  for (int x = 0; x <= 7; x++)
    for (int y : {2, 5}) {
#define RELX(OPNAME, MACRO, AEXPR, BEXPR, MSG)                                                              \
  {                                                                                                         \
    vt::J j;                                                                                                \
    j.str("e", "rel").str("op", OPNAME).str("kind", "expr").num("a", (long long)(AEXPR)).num("b", (long long)(BEXPR)); \
    record(string("relx") + OPNAME, j, __LINE__, [&]() { MACRO(AEXPR, BEXPR); }, MSG);                      \
  }
      RELX("eq", expect_eq, x | 4, y, " != ")
      RELX("ne", expect_ne, x & 6, y & 6, " == ")
      RELX("gt", expect_gt, x ^ 1, y | 1, " <= ")
      RELX("ge", expect_ge, x & 5, y, " < ")
      RELX("lt", expect_lt, x | 1, x > 3 ? y : 7, " >= ")
      RELX("le", expect_le, x | 4, y, " > ")
      RELX("le", expect_le, x & 7, y & 3, " > ")
#undef RELX
    }
  for (int v = 0; v <= 1; v++) {
    vt::J j;
    j.str("e", "rel").str("op", "expect").str("kind", "bool").num("a", v).num("b", 0);
    record("expect", j, __LINE__, [&]() { expect(v == 1); }, "!(v == 1)");
    vt::J k;
    k.str("e", "rel").str("op", "expect").str("kind", "msg").num("a", v).num("b", 0);
    record("expect_msg", k, __LINE__, [&]() { expect_msg(v == 1, "custom message"); }, "custom message");
  }
  }
  tr.stats();
  return 0;
}
