// C18 driver: format_duration / format_time / format_size / parse_size / timeval conversions (spec/TimeFmt).
//   drv_timefmt <out> <tier> <seed> <shard> <nshards>
#include <sys/time.h>

#include <phosg/Strings.hh>
#include <phosg/Time.hh>

#include "trace.hh"
using namespace std;
using namespace phosg;
static vt::Trace tr;
static string dg(uint64_t v) { return vt::J::arr_u64(v, 8); }
static string js(const string& s) { return vt::J::arr_bytes(s.data(), s.size()); }

struct DurBatch {
  int prec;
  string us, out, text;
  size_t n = 0;
  void add(uint64_t u) {
    string t;
    int o = 0;
    try {
      t = format_duration(u, (int8_t)prec);
    } catch (const exception&) {
      o = 1;
    }
    if (n) {
      us += ",";
      out += ",";
      text += ",";
    }
    us += dg(u);
    out += to_string(o);
    text += js(t);
    n++;
    if (n >= 400) flush();
  }
  void flush() {
    if (!n) return;
    vt::J j;
    j.str("e", "dur").num("prec", prec).raw("us", "[" + us + "]").raw("out", "[" + out + "]").raw("text", "[" + text + "]");
    tr.emit(j);
    tr.events += n - 1;
    tr.nontrivial("dur" + to_string(prec));
    us.clear();
    out.clear();
    text.clear();
    n = 0;
  }
};

int main(int argc, char** argv) {
  if (argc < 6) return 2;
  tr.open(argv[1]);
  // a local time zone that differs from UTC, so that "UTC" in the statement is observable (POSIX TZ string: no tzdata needed)
  setenv("TZ", "VRF-5:30", 1);
  tzset();
  bool quick = string(argv[2]) == "quick";
  vt::Rng r(strtoull(argv[3], nullptr, 10) * 17 + 3);
  int shard = atoi(argv[4]), nshards = atoi(argv[5]);
  tr.emit("{\"e\":\"Reset\"}");
  tr.histories++;
  // durations: around every unit boundary at microsecond resolution near the boundary, coarser further away,
  // every seconds-within-minute value (rounding into the next field), powers of ten, random up to 2^63
  vector<uint64_t> D;
  const uint64_t S = 1000000ULL;
  for (uint64_t b : vector<uint64_t>{1 * S, 60 * S, 3600 * S, 86400 * S, 10 * S, 600 * S, 36000 * S, 864000 * S, 100 * 86400 * S}) {
    for (int64_t d = -20; d <= 20; d++) D.push_back(b + d);
    for (int64_t d = -2 * (int64_t)S; d <= 2 * (int64_t)S; d += quick ? 50021 : 1009) D.push_back(b + d);
    for (int64_t k : {499999, 500000, 500001, 4999, 5000, 5001, 49, 50, 51, 999999, 999500, 999499, 995000, 994999})
      for (int64_t sgn : {-1, 1}) D.push_back(b + sgn * k);
  }
  for (uint64_t secs = 0; secs < 62; secs++)
    for (uint64_t frac : vector<uint64_t>{0, 1, 499999, 500000, 999499, 999500, 999999, 994999, 995000})
      for (uint64_t base : vector<uint64_t>{0, 60 * S, 3600 * S + 60 * S, 86400 * S + 3600 * S, 3 * 86400 * S + 23 * 3600 * S + 59 * 60 * S})
        D.push_back(base + secs * S + frac);
  for (uint64_t p = 1; p < 9000000000000000000ULL; p *= 10) {
    D.push_back(p);
    D.push_back(p - 1);
    D.push_back(p + 1);
  }
  // huge day counts (beyond 2^53 us, where a double can no longer hold every microsecond): a few microseconds around
  // exact multiples of a day, an hour and a minute
  for (uint64_t days : vector<uint64_t>{104249, 104250, 104251, 200000, 1000000, 12345678, 100000000, 106751990})
    for (uint64_t unit : vector<uint64_t>{86400 * S, 3600 * S, 60 * S})
      for (int64_t d : {-40, -3, -2, -1, 0, 1, 2, 40}) D.push_back(days * 86400 * S + unit + d);
  D.push_back(0);
  D.push_back((1ULL << 63) - 1);
  D.push_back(1ULL << 62);
  for (int i = 0; i < (quick ? 300 : 5000); i++) D.push_back(r.next() >> (1 + r.below(50)));
  for (int prec = -1; prec <= 6; prec++) {
    DurBatch b;
    b.prec = prec;
    for (size_t i = 0; i < D.size(); i++)
      if ((int)(i % nshards) == shard) b.add(D[i]);
    b.flush();
  }
  // timestamps
  {
    // groups of neighbouring instants: a group stays in one process and is formatted in ascending and then in
    // descending order, so that a result that depends on the previous call (a cached day or second) shows
    vector<vector<uint64_t>> G;
    const uint64_t DAY = 86400ULL * S;
    int ndays = quick ? 500 : 4000;
    for (int i = 0; i < ndays; i++) {
      uint64_t day = r.below(2932897);  // 1970-01-01 .. 9999-12-31
      vector<uint64_t> g;
      if (day) g.push_back(day * DAY - 1);
      g.push_back(day * DAY);
      g.push_back(day * DAY + 1);
      g.push_back(day * DAY + 59 * S + 999999);
      g.push_back(day * DAY + 60 * S);
      g.push_back(day * DAY + r.below(DAY));
      g.push_back(day * DAY + 86399 * S + r.below(S));
      g.push_back((day + 1) * DAY);
      g.push_back((day + 1) * DAY + r.below(S));
      sort(g.begin(), g.end());
      G.push_back(g);
    }
    for (int y = 1972; y <= 2400; y += 4) {  // leap days and the days around century boundaries
      // days since epoch of Feb 28 of year y computed by timegm
      struct tm tmv = {};
      tmv.tm_year = y - 1900;
      tmv.tm_mon = 1;
      tmv.tm_mday = 28;
      uint64_t t0 = (uint64_t)timegm(&tmv) * S;
      vector<uint64_t> g;
      for (int k = 0; k < 3; k++) g.push_back(t0 + k * DAY + r.below(DAY));
      G.push_back(g);
    }
    G.push_back({0});
    G.push_back({253402300799ULL * S + 999999});
    vector<uint64_t> T;
    for (size_t gi = 0; gi < G.size(); gi++) {
      if ((int)(gi % nshards) != shard) continue;
      for (uint64_t t : G[gi]) T.push_back(t);
      for (size_t k = G[gi].size(); k-- > 0;) T.push_back(G[gi][k]);
    }
    string ts = "[", days = "[", secs = "[", us = "[", text = "[";
    size_t n = 0;
    for (size_t i = 0; i < T.size(); i++) {
      uint64_t t = T[i];
      if (t >= 253402300800ULL * S) continue;
      if (n) {
        ts += ","; days += ","; secs += ","; us += ","; text += ",";
      }
      ts += dg(t);
      days += to_string(t / DAY);
      secs += to_string((t % DAY) / S);
      us += to_string(t % S);
      text += js(format_time(t));
      n++;
    }
    vt::J j;
    j.str("e", "time").raw("t", ts + "]").raw("days", days + "]").raw("secs", secs + "]").raw("usecs", us + "]").raw("text", text + "]");
    tr.emit(j);
    tr.events += n;
    tr.nontrivial("time");
  }
  // sizes
  if (shard == 0) {
    vector<uint64_t> N = {0, 1, 999, 1000, 1023, 1024, 1025, 1535, 1536, 10239, 10240};
    for (int k = 1; k <= 6; k++) {
      uint64_t u = 1ULL << (10 * k);
      for (int64_t d : {-2, -1, 0, 1, 2}) N.push_back(u + d);
      N.push_back(u * 1023 + u - 1);
      N.push_back(u + u / 2);
      N.push_back(u * 999 + u / 200);
      N.push_back(u * 999 + u / 200 - 1);
      for (int i = 0; i < 30; i++) N.push_back(u + r.next() % (u * 1023));
    }
    for (int i = 0; i < (quick ? 200 : 3000); i++) N.push_back(r.next() >> r.below(60));
    N.push_back(15ULL << 60);
    for (int ib = 0; ib <= 1; ib++) {
      string ns = "[", text = "[", parsed = "[";
      size_t n = 0;
      for (uint64_t v : N) {
        if (v >= (0xFFEULL << 52)) continue;  // >= 15.99 EB prints "16.00 EB", which parse_size cannot represent
        string t = format_size(v, ib);
        if (n) {
          ns += ","; text += ","; parsed += ",";
        }
        ns += dg(v);
        text += js(t);
        // parse_size reads the documented grammar  digits[.digits] *blank [KkMmGgTtPpEe][Bb]?  : the short forms are
        // parsed back in rotating re-spellings (as printed, lower case, no blank, unit letter only, two blanks + lower case)
        string spelled = t;
        if (!ib && t.size() > 3 && t.compare(t.size() - 1, 1, "B") == 0 && t[t.size() - 3] == ' ') {
          string num = t.substr(0, t.size() - 3);
          char u = t[t.size() - 2];
          char lu = (char)tolower(u);
          switch (n % 5) {
            case 1: spelled = num + " " + string(1, lu) + "b"; break;
            case 2: spelled = num + string(1, u) + "B"; break;
            case 3: spelled = num + " " + string(1, u); break;
            case 4: spelled = num + "  " + string(1, lu) + "b"; break;
            default: break;
          }
        }
        parsed += dg(parse_size(spelled.c_str()));
        n++;
      }
      vt::J j;
      j.str("e", "size").num("ib", ib).raw("n", ns + "]").raw("text", text + "]").raw("parsed", parsed + "]");
      tr.emit(j);
      tr.events += n;
      tr.nontrivial("size" + to_string(ib));
    }
    // timeval conversions
    string us = "[", sec = "[", usec = "[", back = "[";
    for (int i = 0; i < 2000; i++) {
      uint64_t u = i < 20 ? (uint64_t)i * 999999 : r.next() >> (1 + r.below(40));
      struct timeval tv = usecs_to_timeval(u);
      uint64_t b = timeval_to_usecs(tv);
      if (i) {
        us += ","; sec += ","; usec += ","; back += ",";
      }
      us += dg(u);
      sec += dg((uint64_t)tv.tv_sec);
      usec += to_string((long)tv.tv_usec);
      back += dg(b);
    }
    vt::J j;
    j.str("e", "tv").raw("us", us + "]").raw("sec", sec + "]").raw("usec", usec + "]").raw("back", back + "]");
    tr.emit(j);
    tr.events += 2000;
  }
  tr.stats();
  return 0;
}
