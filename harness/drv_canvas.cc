// C07 driver: phosg::Image canvas operations (spec/Canvas).  8-bit channels for the per-pixel model; other channel
// widths for the identity laws.     drv_canvas <out> <tier> <seed> <shard> <nshards>
// ASan build: images are exact-size heap allocations, so a write outside the pixel buffer is seen.
#include <phosg/Image.hh>

#include "trace.hh"
using namespace std;
using namespace phosg;
static vt::Trace tr;

static string px_json(const Image& im) {
  string s = "[";
  bool first = true;
  for (ssize_t y = 0; y < (ssize_t)im.get_height(); y++)
    for (ssize_t x = 0; x < (ssize_t)im.get_width(); x++) {
      uint64_t r, g, b, a;
      im.read_pixel(x, y, &r, &g, &b, &a);
      if (!first) s += ",";
      first = false;
      s += "[" + to_string(r) + "," + to_string(g) + "," + to_string(b) + "," + to_string(a) + "]";
    }
  return s + "]";
}
static string col_json(const uint64_t c[4]) { return "[" + to_string(c[0]) + "," + to_string(c[1]) + "," + to_string(c[2]) + "," + to_string(c[3]) + "]"; }
template <typename F>
static string guarded(F f) {
  try {
    f();
    return "ok";
  } catch (const exception& e) {
    return vt::exc_name(e);
  }
}
static void fill_pattern(Image& im, vt::Rng& r, int style) {
  for (ssize_t y = 0; y < (ssize_t)im.get_height(); y++)
    for (ssize_t x = 0; x < (ssize_t)im.get_width(); x++) {
      uint64_t a = style == 0 ? 255 : style == 1 ? (uint64_t[]){0, 255, 128, 1, 254}[r.below(5)] : r.below(256);
      uint64_t rr = r.chance(20) ? 255 : r.below(256), gg = r.chance(20) ? 255 : r.below(256), bb = r.chance(20) ? 255 : r.below(256);
      if (r.chance(15)) rr = gg = bb = 255;
      if (r.chance(15)) {
        rr = 1;
        gg = 2;
        bb = 3;
      }
      im.write_pixel(x, y, rr, gg, bb, a);
    }
}
static void ev_new(const string& which, const Image& im) {
  vt::J j;
  j.str("e", "new").str("which", which).num("w", (long long)im.get_width()).num("h", (long long)im.get_height()).num("alpha", im.get_has_alpha());
  j.raw("px", px_json(im));
  tr.emit(j);
}
static void random_color(vt::Rng& r, uint64_t c[4]) {
  c[0] = r.below(256);
  c[1] = r.below(256);
  c[2] = r.below(256);
  c[3] = (uint64_t[]){255, 255, 0, 128, 1, 254, 77}[r.below(7)];
}

struct Blit {
  string op;
  long a[6];
  uint64_t c[4] = {0, 0, 0, 0};
  uint64_t alpha = 0;
};
// the packed 0xRRGGBBAA overloads are thin wrappers over the per-channel ones: the same events (and specification
// actions) judge both; g_packed selects them for the next call
static bool g_packed = false;
static uint32_t PK(const uint64_t c[4]) { return (uint32_t)(((c[0] & 0xFF) << 24) | ((c[1] & 0xFF) << 16) | ((c[2] & 0xFF) << 8) | (c[3] & 0xFF)); }
static void do_blit(Image& dst, const Image& src, const Image& mask, const Blit& b) {
  string out = guarded([&] {
    const long* a = b.a;
    uint64_t bc[4] = {b.c[0], b.c[1], b.c[2], 0x5A};  // the alpha byte of a packed transparent colour is irrelevant
    if (b.op == "blit") dst.blit(src, a[0], a[1], a[2], a[3], a[4], a[5]);
    else if (b.op == "blend") dst.blend_blit(src, a[0], a[1], a[2], a[3], a[4], a[5]);
    else if (b.op == "blenda") dst.blend_blit(src, a[0], a[1], a[2], a[3], a[4], a[5], b.alpha);
    else if (b.op == "custom" && g_packed)
      dst.custom_blit(src, a[0], a[1], a[2], a[3], a[4], a[5], [](uint32_t& d, uint32_t sc) {
        uint32_t dr = (((d >> 24) & 0xFF) + ((sc >> 24) & 0xFF)) % 256, dg = (sc >> 16) & 0xFF, db = (d >> 8) & 0xFF, da = 255 - (sc & 0xFF);
        d = (dr << 24) | (dg << 16) | (db << 8) | da;
      });
    else if (b.op == "custom")
      dst.custom_blit(src, a[0], a[1], a[2], a[3], a[4], a[5],
          [](uint64_t& dr, uint64_t& dg, uint64_t& db, uint64_t& da, uint64_t sr, uint64_t sg, uint64_t sb, uint64_t sa) {
            dr = (dr + sr) % 256;
            dg = sg;
            (void)db;
            (void)sb;
            da = 255 - sa;
          });
    else if (b.op == "maskc" && g_packed) dst.mask_blit(src, a[0], a[1], a[2], a[3], a[4], a[5], PK(bc));
    else if (b.op == "maskd" && g_packed) dst.mask_blit_dst(src, a[0], a[1], a[2], a[3], a[4], a[5], PK(bc));
    else if (b.op == "maskc") dst.mask_blit(src, a[0], a[1], a[2], a[3], a[4], a[5], b.c[0], b.c[1], b.c[2]);
    else if (b.op == "maskd") dst.mask_blit_dst(src, a[0], a[1], a[2], a[3], a[4], a[5], b.c[0], b.c[1], b.c[2]);
    else dst.mask_blit(src, a[0], a[1], a[2], a[3], a[4], a[5], mask);
  });
  vt::J j;
  j.str("e", "blit").str("op", b.op).ints("a", vector<long>(b.a, b.a + 6)).raw("c", "[" + to_string(b.c[0]) + "," + to_string(b.c[1]) + "," + to_string(b.c[2]) + "]");
  j.num("alpha", (long long)b.alpha).str("out", out).raw("px", px_json(dst));
  tr.emit(j);
  tr.nontrivial("blit" + b.op + out);
}
static const char* BLIT_OPS[] = {"blit", "blend", "blenda", "custom", "maskc", "maskd", "maski"};

static long coord(vt::Rng& r, long size) {
  switch (r.below(10)) {
    case 0: return (long)r.range(-1000000000, 1000000000);
    case 1: return r.chance(50) ? -1000000000 : 1000000000;
    default: return (long)r.range(-3, size + 3);
  }
}

static void history(vt::Rng& r, int nops) {
  tr.emit("{\"e\":\"Reset\"}");
  tr.histories++;
  Image dst(r.below(9), r.below(9), r.chance(50)), src(r.below(7), r.below(7), r.chance(60)), mask(r.below(8), r.below(8), r.chance(50));
  fill_pattern(dst, r, (int)r.below(3));
  fill_pattern(src, r, (int)r.below(3));
  fill_pattern(mask, r, mask.get_has_alpha() ? 1 : 0);  // the mask's own alpha is irrelevant to the rule
  bool mask_wide = false;
  if (r.chance(30)) {
    mask_wide = true;
    // a mask with wider channels.  Pixels that are "white" under one reading only (all channels 0xFF / all channels at the
    // maximum) are avoided; every other pixel is not white and lets the source through: in particular those whose channels
    // all END in 0xFF, or whose channels combine (and / or / sum) to 0xFF or to the maximum
    uint8_t cw = (uint8_t[]){16, 32, 64}[r.below(3)];
    mask.set_channel_width(cw);
    uint64_t top = cw == 16 ? 0xFFFF : 0x3FFFFFFF;
    for (ssize_t y = 0; y < (ssize_t)mask.get_height(); y++)
      for (ssize_t x = 0; x < (ssize_t)mask.get_width(); x++) {
        uint64_t c[3];
        do {
          switch (r.below(5)) {
            case 0: {  // low bytes FF, upper parts with an empty intersection
              uint64_t hi[3] = {r.below(top >> 8), r.below(top >> 8), 0};
              hi[2] = r.below(top >> 8) & ~(hi[0] & hi[1]);
              for (int k = 0; k < 3; k++) c[k] = (hi[k] << 8) | 0xFF;
              break;
            }
            case 1:
              for (int k = 0; k < 3; k++) c[k] = r.chance(70) ? 0xFF : r.chance(50) ? 0x1FF : 0xFE;
              break;
            case 2:
              for (int k = 0; k < 3; k++) c[k] = r.chance(70) ? top : r.chance(50) ? top - 1 : 0xFF;
              break;
            case 3:
              for (int k = 0; k < 3; k++) c[k] = 1ULL << r.below(cw == 16 ? 16 : 30);
              break;
            default:
              for (int k = 0; k < 3; k++) c[k] = r.below(top + 1);
          }
        } while ((c[0] == 0xFF && c[1] == 0xFF && c[2] == 0xFF) || (c[0] == c[1] && c[1] == c[2] && c[0] >= 0xFFFF));
        mask.write_pixel(x, y, c[0], c[1], c[2], 0xFF);
      }
  }
  ev_new("dst", dst);
  ev_new("src", src);
  ev_new("mask", mask);
  long W = dst.get_width(), H = dst.get_height();
  for (int n = 0; n < nops; n++) {
    uint64_t c[4];
    random_color(r, c);
    g_packed = r.chance(35);
    switch (r.below(12)) {
      case 0: {
        long x = coord(r, W), y = coord(r, H);
        string out = guarded([&] {
          if (g_packed) dst.write_pixel(x, y, PK(c));
          else dst.write_pixel(x, y, c[0], c[1], c[2], c[3]);
        });
        vt::J j;
        j.str("e", "write").num("x", x).num("y", y).raw("c", col_json(c)).str("out", out).raw("px", px_json(dst));
        tr.emit(j);
        tr.nontrivial("write" + out);
        break;
      }
      case 1: {
        long x = coord(r, W), y = coord(r, H);
        uint64_t p[4] = {0, 0, 0, 0};
        string out = guarded([&] {
          if (g_packed) {
            uint32_t v = dst.read_pixel(x, y);
            p[0] = v >> 24;
            p[1] = (v >> 16) & 0xFF;
            p[2] = (v >> 8) & 0xFF;
            p[3] = v & 0xFF;
          } else
            dst.read_pixel(x, y, &p[0], &p[1], &p[2], &p[3]);
        });
        vt::J j;
        j.str("e", "read").num("x", x).num("y", y).raw("c", col_json(p)).str("out", out);
        tr.emit(j);
        break;
      }
      case 2:
      case 3: {
        long x = coord(r, W), y = coord(r, H), w = r.chance(10) ? (long)r.range(-5, 1000000000) : (long)r.range(-2, W + 4), h = (long)r.range(-2, H + 4);
        // (every fourth fill; decided by a counter, not by the random stream, so that adding this case left every other
        // generated call - in particular the far lines of the line law - exactly as it was)
        static unsigned fill_no = 0;
        if (fill_no++ % 4 == 3) {
          // text without a single glyph cell (empty, or only line ends): what is drawn is exactly the background column
          // that closes every line - one 1 x 9 fill per line at (x - 1, y - 1 + 8 * line); the variants rotate
          static unsigned rot = 0;
          static const char* texts[] = {"", "\n", "\r", "\n\n", "\r\n", "\n\r\n\n"};
          static const int lines[] = {1, 2, 1, 3, 2, 4};
          unsigned k = rot++ % 6;
          string out = guarded([&] {
            if (g_packed) dst.draw_text(x, y, 0x010203FFu, PK(c), "%s", texts[k]);
            else dst.draw_text(x, y, 1, 2, 3, 255, c[0], c[1], c[2], c[3], "%s", texts[k]);
          });
          vt::J j;
          j.str("e", "textbg").num("x", x).num("y", y).num("lines", lines[k]).raw("c", col_json(c)).str("out", out).raw("px", px_json(dst));
          tr.emit(j);
          tr.nontrivial("textbg" + to_string(k) + to_string(c[3] == 255) + to_string(c[3] == 0));
          break;
        }
        string out = guarded([&] {
          if (g_packed) dst.fill_rect(x, y, w, h, PK(c));
          else dst.fill_rect(x, y, w, h, c[0], c[1], c[2], c[3]);
        });
        vt::J j;
        j.str("e", "fill").num("x", x).num("y", y).num("w", w).num("h", h).raw("c", col_json(c)).str("out", out).raw("px", px_json(dst));
        tr.emit(j);
        tr.nontrivial("fill" + to_string(c[3] == 255) + out);
        break;
      }
      case 4:
      case 5:
      case 6:
      case 7: {
        Blit b;
        b.op = BLIT_OPS[r.below(7)];
        b.a[0] = coord(r, W);
        b.a[1] = coord(r, H);
        b.a[2] = r.chance(20) ? -1 : (long)r.range(-1, W + 4);
        b.a[3] = r.chance(20) ? -1 : (long)r.range(-1, H + 4);
        b.a[4] = coord(r, src.get_width());
        b.a[5] = coord(r, src.get_height());
        // keep at most one astronomically large coordinate per axis so that 32-bit arithmetic in the checker cannot overflow
        if (labs(b.a[0]) > 1000 && labs(b.a[4]) > 1000) b.a[4] = 1;
        if (labs(b.a[1]) > 1000 && labs(b.a[5]) > 1000) b.a[5] = 1;
        if (mask_wide && r.chance(60)) {  // give a wide mask a good chance to be consulted: a rectangle it covers
          long mw = min<long>(mask.get_width(), src.get_width()), mh = min<long>(mask.get_height(), src.get_height());
          b.op = "maski";
          if (mw > 0 && mh > 0) {
            b.a[0] = (long)r.range(-1, W);
            b.a[1] = (long)r.range(-1, H);
            b.a[4] = (long)r.below(mw);
            b.a[5] = (long)r.below(mh);
            b.a[2] = 1 + (long)r.below(mw - b.a[4]);
            b.a[3] = 1 + (long)r.below(mh - b.a[5]);
          }
        }
        if (r.chance(50) && src.get_width() && src.get_height()) {
          uint64_t p[4];
          src.read_pixel(r.below(src.get_width()), r.below(src.get_height()), &p[0], &p[1], &p[2], &p[3]);
          b.c[0] = p[0];
          b.c[1] = p[1];
          b.c[2] = p[2];
        } else {
          b.c[0] = c[0];
          b.c[1] = c[1];
          b.c[2] = c[2];
        }
        if (b.op == "maskd" && r.chance(60) && W && H) {
          uint64_t p[4];
          dst.read_pixel(r.below(W), r.below(H), &p[0], &p[1], &p[2], &p[3]);
          b.c[0] = p[0];
          b.c[1] = p[1];
          b.c[2] = p[2];
        }
        b.alpha = (uint64_t[]){0, 255, 128, 1, 254, 200}[r.below(6)];
        do_blit(dst, src, mask, b);
        break;
      }
      case 8: {
        bool horiz = r.chance(50);
        long a1 = (long)r.range(-3, 8), a2 = a1 + (long)r.range(-1, 10), fixed = (long)r.range(-1, 8), dash = (long)r.below(4);
        string out = guarded([&] {
          if (horiz && g_packed) dst.draw_horizontal_line(a1, a2, fixed, dash, PK(c));
          else if (g_packed) dst.draw_vertical_line(fixed, a1, a2, dash, PK(c));
          else if (horiz) dst.draw_horizontal_line(a1, a2, fixed, dash, c[0], c[1], c[2], c[3]);
          else dst.draw_vertical_line(fixed, a1, a2, dash, c[0], c[1], c[2], c[3]);
        });
        vt::J j;
        j.str("e", "dash").num("horizontal", horiz).num("a1", a1).num("a2", a2).num("fixed", fixed).num("dash", dash).raw("c", col_json(c));
        j.str("out", out).raw("px", px_json(dst));
        tr.emit(j);
        tr.nontrivial("dash" + to_string(dash) + to_string(a1 < 0));
        break;
      }
      case 9: {
        // lines are judged on a canvas freshly painted in another colour, so that the set of changed pixels is visible
        uint64_t bg[4] = {9, 9, 9, 255};
        dst.fill_rect(0, 0, W, H, bg[0], bg[1], bg[2], bg[3]);
        vt::J f;
        f.str("e", "fill").num("x", 0).num("y", 0).num("w", W).num("h", H).raw("c", col_json(bg)).str("out", "ok").raw("px", px_json(dst));
        tr.emit(f);
        bool inside = r.chance(70) && W && H;
        long x0 = inside ? (long)r.below(W) : (long)r.range(-4, W + 3), y0 = inside ? (long)r.below(H) : (long)r.range(-4, H + 3);
        long x1 = inside ? (long)r.below(W) : (long)r.range(-4, W + 3), y1 = inside ? (long)r.below(H) : (long)r.range(-4, H + 3);
        if (r.chance(15) && W && H) {
          // from inside the canvas towards an end point 2^24 .. 2^26 pixels away whose coordinates are NOT exactly
          // representable in single precision (odd numbers above 2^24): the visible part must still hug the ideal segment
          x0 = (long)r.below(W), y0 = (long)r.below(H);
          static const long FAR[][2] = {{33554433, 16777216}, {33554435, 16777219}, {50331649, 16777217}, {16777217, 33554433},
              {67108863, 22369621}, {16777219, 16777217}, {33554431, 11184811}};
          const long* f = FAR[r.below(7)];
          x1 = x0 + (r.chance(50) ? f[0] : -f[0]);
          y1 = y0 + (r.chance(50) ? f[1] : -f[1]);
          if (r.chance(30)) swap(x1, y1), x1 += x0 - y0, y1 += y0 - x0;
          inside = false;
        }
        c[0] = 200;
        string out = guarded([&] {
          if (g_packed) dst.draw_line(x0, y0, x1, y1, PK(c));
          else dst.draw_line(x0, y0, x1, y1, c[0], c[1], c[2], c[3]);
        });
        vt::J j;
        j.str("e", "line").num("x0", x0).num("y0", y0).num("x1", x1).num("y1", y1).raw("c", col_json(c)).str("out", out).raw("px", px_json(dst));
        tr.emit(j);
        tr.nontrivial("line" + to_string(inside) + to_string(labs(x1 - x0) >= labs(y1 - y0)));
        break;
      }
      default: {
        // transforms
        static const char* XF[] = {"reverse_h", "reverse_v", "invert", "rev_h2", "rev_v2", "invert2", "alpha_roundtrip", "widen_narrow", "copy", "add_alpha", "drop_alpha", "widen16"};
        string op = XF[r.below(12)];
        string what = op, evop = op;
        string px;
        string out = guarded([&] {
          if (op == "reverse_h") dst.reverse_horizontal();
          else if (op == "reverse_v") dst.reverse_vertical();
          else if (op == "invert") dst.invert();
          else if (op == "rev_h2") {
            dst.reverse_horizontal();
            dst.reverse_horizontal();
            evop = "identity";
          } else if (op == "rev_v2") {
            dst.reverse_vertical();
            dst.reverse_vertical();
            evop = "identity";
          } else if (op == "invert2") {
            dst.invert();
            dst.invert();
            evop = "identity";
          } else if (op == "alpha_roundtrip") {
            if (!dst.get_has_alpha()) {
              dst.set_has_alpha(true);
              dst.set_has_alpha(false);
              evop = "identity";
            } else
              evop = "skip";
          } else if (op == "widen_narrow") {
            uint8_t wide = (uint8_t[]){16, 32, 64}[r.below(3)];
            dst.set_channel_width(wide);
            if (r.chance(50)) {  // a detour through a third width
              dst.set_channel_width(wide == 64 ? 32 : 64);
            }
            dst.set_channel_width(8);
            evop = "identity";
          } else if (op == "copy") {
            Image c1(dst);
            Image c2;
            c2 = dst;
            // mutate the copies: the original must not change, and the copies must have equalled it
            bool eq = (c1 == dst) && (c2 == dst);
            if (W && H) {
              c1.write_pixel(0, 0, 1, 2, 3, 4);
              c2.fill_rect(0, 0, W, H, 5, 6, 7, 255);
            }
            Image moved(std::move(c1));
            // copy assignment whose source is the canvas itself must leave it as it is
            {
              const Image& self = dst;
              dst = self;
            }
            if (!eq) dst.fill_rect(0, 0, W, H, 66, 66, 66, 255);  // make an unequal copy visible in the trace
            evop = "identity";
          } else if (op == "add_alpha") {
            if (dst.get_has_alpha()) evop = "skip";
            else dst.set_has_alpha(true);
          } else if (op == "drop_alpha") {
            if (!dst.get_has_alpha()) evop = "skip";
            else dst.set_has_alpha(false);
          } else if (op == "widen16") {
            Image wide(dst);
            wide.set_channel_width(16);
            // the wide canvas also arrives in objects that were something else before: move- and copy-assigned onto live
            // 8-bit canvases of another size / alpha mode, and swapped with one
            unsigned how = (unsigned)r.below(4);
            if (how == 1) {
              Image live(r.below(4), r.below(4), r.chance(50));
              live = std::move(wide);
              px = px_json(live);
            } else if (how == 2) {
              Image live(r.below(4), r.below(4), r.chance(50));
              live = wide;
              px = px_json(live);
            } else if (how == 3) {
              Image live(r.below(4), r.below(4), r.chance(50));
              std::swap(live, wide);
              px = px_json(live);
            } else
              px = px_json(wide);
          }
        });
        if (evop == "skip") break;
        vt::J j;
        j.str("e", "xform").str("op", evop).str("what", what).str("out", out).raw("px", px.empty() ? px_json(dst) : px);
        tr.emit(j);
        tr.nontrivial("xform" + op);
        break;
      }
    }
  }
}

// exhaustive 1-D sweeps: destination and source one pixel high, every (x, w, sx) in [-3, size + 3]
static void sweep_1d(vt::Rng& r, int maxw, int shard, int nshards) {
  long counter = 0;
  for (int dw = 0; dw <= maxw; dw++)
    for (int sw : {0, 1, 3, 4}) {
      if ((counter++ % nshards) != shard) continue;
      for (int vertical = 0; vertical < 2; vertical++) {
        tr.emit("{\"e\":\"Reset\"}");
        tr.histories++;
        Image dst(vertical ? 1 : dw, vertical ? dw : 1, true), src(vertical ? 1 : sw, vertical ? sw : 1, true), mask(vertical ? 1 : 3, vertical ? 3 : 1, (dw + sw) % 2 == 1);
        fill_pattern(dst, r, 1);
        fill_pattern(src, r, 1);
        fill_pattern(mask, r, mask.get_has_alpha() ? 1 : 0);
        ev_new("dst", dst);
        ev_new("src", src);
        ev_new("mask", mask);
        for (long x = -3; x <= dw + 3; x++)
          for (long w : {-1L, 0L, 1L, 2L, 5L})
            for (long sx = -3; sx <= sw + 1; sx++) {
              Blit b;
              b.op = BLIT_OPS[(x + w + sx + 20) % 7];
              long other = (x + sx) % 3 == 0 ? -1 : 1;
              if (vertical) {
                long a[6] = {0, x, other, w, 0, sx};
                memcpy(b.a, a, sizeof a);
              } else {
                long a[6] = {x, 0, w, other, sx, 0};
                memcpy(b.a, a, sizeof a);
              }
              b.c[0] = 1;
              b.c[1] = 2;
              b.c[2] = 3;
              b.alpha = 128;
              do_blit(dst, src, mask, b);
              if ((x + sx) % 4 == 0) {
                uint64_t c[4] = {7, 8, 9, (uint64_t)(w == 1 ? 255 : 90)};
                string out = guarded([&] { vertical ? dst.fill_rect(0, x, 1, w < 0 ? 2 : w, c[0], c[1], c[2], c[3]) : dst.fill_rect(x, 0, w < 0 ? 2 : w, 1, c[0], c[1], c[2], c[3]); });
                vt::J j;
                j.str("e", "fill").num("x", vertical ? 0 : x).num("y", vertical ? x : 0).num("w", vertical ? 1 : (w < 0 ? 2 : w)).num("h", vertical ? (w < 0 ? 2 : w) : 1);
                j.raw("c", col_json(c)).str("out", out).raw("px", px_json(dst));
                tr.emit(j);
              }
            }
      }
    }
}

// clipping invariance of text / fill / blit: small canvas vs canvas enlarged by m on every side
static void clip_invariance(vt::Rng& r, int count) {
  for (int i = 0; i < count; i++) {
    long w = r.below(9), h = r.below(12), m = 9;
    bool alpha = r.chance(50);
    Image small(w, h, alpha), big(w + 2 * m, h + 2 * m, alpha);
    uint64_t bgc[4] = {(uint64_t)r.below(256), 40, 50, 255};
    small.fill_rect(0, 0, w, h, bgc[0], bgc[1], bgc[2], bgc[3]);
    big.fill_rect(0, 0, w + 2 * m, h + 2 * m, bgc[0], bgc[1], bgc[2], bgc[3]);
    long x = (long)r.range(-16, w + 8), y = (long)r.range(-18, h + 10);
    // character cell origins exactly on the right / bottom edge are the interesting placements: x + 6*k == w, y + 8*k == h
    if (r.chance(40)) x = w - 6 * (long)r.below(4);
    if (r.chance(40)) y = h - 8 * (long)r.below(3);
    string op;
    string out = guarded([&] {
      switch (r.below(3)) {
        case 0: {
          op = "draw_text";
          static const char* texts[] = {"A", "MW#\nW", "gj|_", "x\ny\nz", "", "\n", "Hi \x7f\x01", "1234567"};
          const char* t = texts[r.below(8)];
          uint32_t fg = 0x102030FF, bg = r.chance(70) ? 0xC04080FF : (r.chance(50) ? 0x00000000 : 0xC0408080);
          small.draw_text(x, y, fg, bg, "%s", t);
          big.draw_text(x + m, y + m, fg, bg, "%s", t);
          break;
        }
        case 1: {
          op = "fill_rect";
          long fw = (long)r.range(-1, 12), fh = (long)r.range(-1, 14);
          uint64_t a = r.chance(50) ? 255 : 99;
          small.fill_rect(x, y, fw, fh, 1, 2, 3, a);
          big.fill_rect(x + m, y + m, fw, fh, 1, 2, 3, a);
          break;
        }
        default: {
          op = "blit";
          Image src(r.below(6), r.below(6), true);
          fill_pattern(src, r, 1);
          long bw = r.chance(30) ? -1 : (long)r.range(0, 7), bh = r.chance(30) ? -1 : (long)r.range(0, 7), sx = (long)r.range(-2, 6), sy = (long)r.range(-2, 6);
          small.blit(src, x, y, bw, bh, sx, sy);
          big.blit(src, x + m, y + m, bw, bh, sx, sy);
        }
      }
    });
    vt::J j;
    j.str("e", "clipinv").str("op", op).num("w", w).num("h", h).num("m", m).str("out", out).raw("small", px_json(small)).raw("big", px_json(big));
    tr.emit(j);
    tr.nontrivial("clip" + op + to_string(x + 6 * 3 >= w) + to_string(y + 8 * 2 >= h));
    // the draw_text overloads (packed / per-channel colours, with / without size out-parameters, without background)
    // must paint the same pixels: the same law with margin 0 compares two equally sized canvases
    if (i % 4 == 0) {
      Image c1(w, h, alpha), c2(w, h, alpha);
      c1.fill_rect(0, 0, w, h, bgc[0], bgc[1], bgc[2], bgc[3]);
      c2.fill_rect(0, 0, w, h, bgc[0], bgc[1], bgc[2], bgc[3]);
      static const char* texts[] = {"A", "MW#\nW", "gj|_", "Hi \x7f\x01", "12"};
      const char* t = texts[r.below(5)];
      int which = (int)r.below(4);
      uint32_t fg = 0x102030FF, bg = which == 3 ? 0x00000000 : (r.chance(50) ? 0xC04080FF : 0xC0408080);
      string out2 = guarded([&] {
        ssize_t tw = 0, th = 0;
        c1.draw_text(x, y, fg, bg, "%s", t);
        switch (which) {
          case 0: c2.draw_text(x, y, &tw, &th, 0x10, 0x20, 0x30, 0xFF, bg >> 24, (bg >> 16) & 0xFF, (bg >> 8) & 0xFF, bg & 0xFF, "%s", t); break;
          case 1: c2.draw_text(x, y, 0x10, 0x20, 0x30, 0xFF, bg >> 24, (bg >> 16) & 0xFF, (bg >> 8) & 0xFF, bg & 0xFF, "%s", t); break;
          case 2: c2.draw_text(x, y, &tw, &th, fg, bg, "%s", t); break;
          default: c2.draw_text(x, y, fg, "%s", t); break;
        }
      });
      vt::J k;
      k.str("e", "clipinv").str("op", "draw_text overloads").num("w", w).num("h", h).num("m", 0).str("out", out2).raw("small", px_json(c1)).raw("big", px_json(c2));
      tr.emit(k);
      tr.nontrivial("textov" + to_string(which));
    }
  }
}

int main(int argc, char** argv) {
  if (argc < 6) return 2;
  tr.open(argv[1]);
  bool quick = string(argv[2]) == "quick";
  int shard = atoi(argv[4]), nshards = atoi(argv[5]);
  vt::Rng r(strtoull(argv[3], nullptr, 10) * 71 + shard);
  sweep_1d(r, quick ? 4 : 8, shard, nshards);
  for (int i = 0; i < (quick ? 120 : 3000) / nshards + 1; i++) history(r, (int)r.range(5, 30));
  tr.emit("{\"e\":\"Reset\"}");
  clip_invariance(r, (quick ? 800 : 12000) / nshards + 1);
  tr.stats();
  return 0;
}
