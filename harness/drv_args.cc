// C17 driver: phosg::Arguments (spec/Args).
//   drv_args lists <out> <maxlen> <shard> <nshards> <seed>   exhaustive token lists over a small token grammar,
//                                                             random getter sequences, assert_none_unused
//   drv_args ints  <out> <lo> <hi> <shard> <nshards>         every integer text n in [lo,hi] in dec/hex/oct forms
//                                                             against int8..uint64 x the four IntFormats (batched),
//                                                             boundary / malformed texts first (incl. ERANGE ones)
// -fno-access-control: the classification (positional / named vectors) and used flags are read directly.
#include <math.h>

#include <algorithm>
#include <map>

#include <phosg/Arguments.hh>

#include "trace.hh"

using namespace std;
using namespace phosg;

static vt::Trace tr;
static string js(const string& s) { return vt::J::arr_bytes(s.data(), s.size()); }
static string jlist(const vector<string>& v) {
  string s = "[";
  for (size_t i = 0; i < v.size(); i++) {
    if (i) s += ",";
    s += js(v[i]);
  }
  return s + "]";
}

static string dump_named(Arguments& a, bool flags) {
  vector<string> names;
  for (auto& it : a.named) names.push_back(it.first);
  sort(names.begin(), names.end());
  string s = "[";
  for (size_t i = 0; i < names.size(); i++) {
    if (i) s += ",";
    s += "[" + js(names[i]) + ",[";
    auto& v = a.named.at(names[i]);
    for (size_t k = 0; k < v.size(); k++) {
      if (k) s += ",";
      s += flags ? string(v[k].used ? "1" : "0") : js(v[k].text);
    }
    s += "]]";
  }
  return s + "]";
}
static void add_flags(vt::J& j, Arguments& a) {
  string u = "[";
  for (size_t i = 0; i < a.positional.size(); i++) {
    if (i) u += ",";
    u += a.positional[i].used ? "1" : "0";
  }
  u += "]";
  j.raw("upos", u).raw("unamed", dump_named(a, true));
}
template <typename F>
static string guarded(F f) {
  try {
    f();
    return "ok";
  } catch (const exception& e) {
    return vt::exc_name(e);
  }
}
static void ident(vt::J& j, bool by_name, const string& name, size_t pos) {
  j.str("by", by_name ? "name" : "pos").raw("name", js(name)).num("pos", (long long)pos);
}
static const char* FMT_NAMES[] = {"default", "hex", "dec", "oct"};

template <typename T>
static void int_getter(Arguments& a, bool by_name, const string& name, size_t pos, int fmt, bool hasdef, T def) {
  T ret = 0;
  auto f = (Arguments::IntFormat)fmt;
  string out = guarded([&] {
    if (by_name)
      ret = hasdef ? a.get<T>(name, def, f) : a.get<T>(name, f);
    else
      ret = hasdef ? a.get<T>(pos, def, f) : a.get<T>(pos, f);
  });
  vt::J j;
  j.str("e", "int");
  ident(j, by_name, name, pos);
  j.str("fmt", FMT_NAMES[fmt]).num("bits", sizeof(T) * 8).num("signed", std::is_signed_v<T>).num("hasdef", hasdef);
  using U = std::make_unsigned_t<T>;
  j.raw("def", vt::J::arr_u64((uint64_t)(U)def, sizeof(T))).str("out", out).raw("ret", vt::J::arr_u64((uint64_t)(U)ret, sizeof(T)));
  add_flags(j, a);
  tr.emit(j);
  tr.nontrivial(string("int") + to_string(sizeof(T)) + out + (hasdef ? "d" : ""));
}

static void float_fields(vt::J& j, double v) {
  // value as sign, 9 significant digits, decimal exponent (trusted: libc's %e)
  char buf[64];
  snprintf(buf, sizeof buf, "%.8e", fabs(v));
  string d;
  int exp10 = 0;
  if (isfinite(v)) {
    for (char* p = buf; *p && *p != 'e'; p++)
      if (*p >= '0' && *p <= '9') d.push_back(*p - '0');
    const char* e = strchr(buf, 'e');
    exp10 = e ? atoi(e + 1) : 0;
  } else
    d.assign(9, 0);
  j.num("fneg", signbit(v) ? 1 : 0).bytes("fdigits", d.data(), d.size()).num("fexp", exp10);
  // and the exact bit pattern (big-endian byte order), judged for the literals the specification has exact values for
  uint64_t bits;
  memcpy(&bits, &v, 8);
  uint8_t be[8];
  for (int i = 0; i < 8; i++) be[i] = (uint8_t)(bits >> (56 - 8 * i));
  j.bytes("fbits", be, 8);
}
static void float_getter(Arguments& a, bool by_name, const string& name, size_t pos, bool hasdef, bool dbl) {
  double ret = 0;
  const double DEF = 1234.5;
  string out = guarded([&] {
    if (dbl) {
      std::optional<double> d = hasdef ? std::optional<double>(DEF) : std::nullopt;
      ret = by_name ? a.get<double>(name, d) : a.get<double>(pos, d);
    } else {
      std::optional<float> d = hasdef ? std::optional<float>((float)DEF) : std::nullopt;
      ret = by_name ? a.get<float>(name, d) : a.get<float>(pos, d);
    }
  });
  const string* text = nullptr;
  if (by_name) {
    auto it = a.named.find(name);
    if (it != a.named.end() && it->second.size() == 1) text = &it->second[0].text;
  } else if (pos < a.positional.size())
    text = &a.positional[pos].text;
  bool hexfloat = text && (text->find("0x") != string::npos || text->find("0X") != string::npos);
  vt::J j;
  j.str("e", "float");
  ident(j, by_name, name, pos);
  j.num("hasdef", hasdef).num("dbl", dbl).str("out", out).num("isdef", ret == DEF).num("hexfloat", hexfloat);
  if (!dbl) {
    // float results are compared at 7 digits only: log through the same 9-digit form of the float's value
  }
  float_fields(j, ret);
  add_flags(j, a);
  tr.emit(j);
  tr.nontrivial("float" + out + (hasdef ? "d" : ""));
}

static void getter_sequence(Arguments& a, vt::Rng& r, const vector<string>& names, int n) {
  for (int i = 0; i < n; i++) {
    bool by_name = r.chance(65);
    string name = names[r.below(names.size())];
    size_t pos = r.below(4);
    switch (r.below(9)) {
      case 0:
      case 1: {
        bool thr = r.chance(50);
        string ret, out = guarded([&] { ret = by_name ? a.get<string>(name, thr) : a.get<string>(pos, thr); });
        vt::J j;
        j.str("e", "str");
        ident(j, by_name, name, pos);
        j.num("throw", thr).str("out", out).raw("ret", js(ret));
        add_flags(j, a);
        tr.emit(j);
        tr.nontrivial("str" + out + to_string(ret.size() > 0));
        break;
      }
      case 2: {
        bool ret = false;
        string out = guarded([&] { ret = a.get<bool>(name.c_str()); });
        vt::J j;
        j.str("e", "bool");
        ident(j, true, name, 0);
        j.str("out", out).num("ret", ret);
        add_flags(j, a);
        tr.emit(j);
        break;
      }
      case 3:
      case 4: {
        int fmt = (int)r.below(4);
        bool hasdef = r.chance(40);
        switch (r.below(8)) {
          case 0: int_getter<int8_t>(a, by_name, name, pos, fmt, hasdef, -7); break;
          case 1: int_getter<uint8_t>(a, by_name, name, pos, fmt, hasdef, 200); break;
          case 2: int_getter<int16_t>(a, by_name, name, pos, fmt, hasdef, -300); break;
          case 3: int_getter<uint16_t>(a, by_name, name, pos, fmt, hasdef, 60000); break;
          case 4: int_getter<int32_t>(a, by_name, name, pos, fmt, hasdef, -70000); break;
          case 5: int_getter<uint32_t>(a, by_name, name, pos, fmt, hasdef, 4000000000u); break;
          case 6: int_getter<int64_t>(a, by_name, name, pos, fmt, hasdef, -5000000000LL); break;
          default: int_getter<uint64_t>(a, by_name, name, pos, fmt, hasdef, 1ULL << 63); break;
        }
        break;
      }
      case 5: float_getter(a, by_name, name, pos, r.chance(40), r.chance(70)); break;
      case 6: {
        vector<string> ret;
        string out = guarded([&] { ret = a.get_multi<string>(name); });
        vt::J j;
        j.str("e", "mstr").raw("name", js(name)).str("out", out).raw("ret", jlist(ret));
        add_flags(j, a);
        tr.emit(j);
        tr.nontrivial("mstr" + to_string(min<size_t>(ret.size(), 3)));
        break;
      }
      case 7: {
        int fmt = (int)r.below(4);
        vector<int32_t> ret;
        string out = guarded([&] { ret = a.get_multi<int32_t>(name, (Arguments::IntFormat)fmt); });
        string rs = "[";
        for (size_t k = 0; k < ret.size(); k++) {
          if (k) rs += ",";
          rs += vt::J::arr_u64((uint32_t)ret[k], 4);
        }
        rs += "]";
        vt::J j;
        j.str("e", "mint").raw("name", js(name)).str("fmt", FMT_NAMES[fmt]).num("bits", 32).num("signed", 1);
        j.str("out", out).raw("ret", rs);
        add_flags(j, a);
        tr.emit(j);
        tr.nontrivial("mint" + out + to_string(min<size_t>(ret.size(), 3)));
        break;
      }
      default: {
        string out = guarded([&] { a.assert_none_unused(); });
        vt::J j;
        j.str("e", "unused").str("out", out);
        tr.emit(j);
        break;
      }
    }
  }
  // read everything that is still unread in a random subset, then assert
  if (r.chance(50)) {
    for (size_t p = 0; p < a.positional.size(); p++)
      if (r.chance(80)) {
        string ret, out = guarded([&] { ret = a.get<string>(p, true); });
        vt::J j;
        j.str("e", "str");
        ident(j, false, "", p);
        j.num("throw", 1).str("out", out).raw("ret", js(ret));
        add_flags(j, a);
        tr.emit(j);
      }
    for (auto& nm : names)
      if (r.chance(80)) {
        vector<string> ret;
        string out = guarded([&] { ret = a.get_multi<string>(nm); });
        vt::J j;
        j.str("e", "mstr").raw("name", js(nm)).str("out", out).raw("ret", jlist(ret));
        add_flags(j, a);
        tr.emit(j);
      }
  }
  string out = guarded([&] { a.assert_none_unused(); });
  vt::J j;
  j.str("e", "unused").str("out", out);
  tr.emit(j);
  tr.nontrivial("unused" + out);
}

static const vector<string> GRAMMAR = {"-", "--", "--a", "--a=1", "--b=0x10", "-ab", "-a", "x", "12", "--a=", "--n=-5",
    "-vv", "--f=2.5e3", "", "--=z", "--b=077", "-5", "a=b"};

static void run_list(const vector<string>& tokens, vt::Rng& r, int ctor) {
  tr.emit("{\"e\":\"Reset\"}");
  tr.histories++;
  Arguments* a;
  if (ctor == 0) {
    a = new Arguments(tokens);
  } else if (ctor == 1) {
    vector<const char*> argv;
    for (auto& t : tokens) argv.push_back(t.c_str());
    a = new Arguments(argv.data(), argv.size());
  } else if (ctor == 2) {
    vector<string> copy = tokens;
    a = new Arguments(std::move(copy));
  } else {
    // the one-string command line: usable when no token needs quoting (tokenisation itself is decided under C08)
    bool simple = !tokens.empty();
    for (auto& t : tokens)
      if (t.empty() || t.find_first_of(" \t\n'\"\\") != string::npos) simple = false;
    if (simple) {
      string text;
      for (size_t i = 0; i < tokens.size(); i++) text += (i ? string(1 + r.below(3), ' ') : string()) + tokens[i];
      a = new Arguments(text);
    } else
      a = new Arguments(tokens);
  }
  vector<string> pos;
  for (auto& p : a->positional) pos.push_back(p.text);
  vt::J j;
  j.str("e", "new").raw("tokens", jlist(tokens)).raw("pos", jlist(pos)).raw("named", dump_named(*a, false));
  tr.emit(j);
  static const vector<string> names = {"a", "b", "n", "v", "f", "", "zz", "5"};
  getter_sequence(*a, r, names, (int)r.range(2, 7));
  delete a;
}

// ---------------------------------------------------------------- float text sweep
// one mini history per text: Arguments{"--f=<text>"} then the four float getter forms by name
static void float_texts_sweep(int shard, int nshards) {
  static const vector<string> texts = {"0", "-0", "1", "-1", "1.5", "-2.25", ".5", "5.", "+3", "1e5", "1E5", "1e+5", "1e-5", "2.5e3", "123456789", "0.000123",
      "1e300", "1e-300", "1.7976931348623157e308", "2.2250738585072014e-308", "1e-310", "4.94e-324", "1e-400", "-1e-400", "1e999", "-1e999",
      "3.4028235e38", "1e39", "1e-46",
      // decimal texts just past / exactly at the midpoint of two adjacent doubles (one correct rounding decides)
      "9007199254740993.0001", "18446744073709553665", "1.00000000000000011102230246251565404236316680908203126", "9007199254740993", "0.1", " 1.5", "\t2", "1.5 ", "1.5x", "x1.5", "1e", "1e+", "e5", ".", "", "-", "+", "--1", "1..5", "1.5.2", "1,5", "inf", "-inf",
      "infinity", "nan", "NaN", "INF", "0x10", "0x1p4", "1_000", "1e5e5", "12abc", "١٢"};
  for (size_t i = 0; i < texts.size(); i++) {
    if ((int)(i % nshards) != shard) continue;
    vector<string> tokens = {"--f=" + texts[i], "--n=77"};
    tr.emit("{\"e\":\"Reset\"}");
    tr.histories++;
    Arguments a(tokens);
    vector<string> pos;
    for (auto& p : a.positional) pos.push_back(p.text);
    vt::J j;
    j.str("e", "new").raw("tokens", jlist(tokens)).raw("pos", jlist(pos)).raw("named", dump_named(a, false));
    tr.emit(j);
    for (int hasdef = 0; hasdef < 2; hasdef++)
      for (int dbl = 0; dbl < 2; dbl++) {
        float_getter(a, true, "f", 0, hasdef, dbl);
        // an integer getter right after a float getter: nothing the float conversion left behind (errno) may leak into it
        if (dbl) int_getter<int32_t>(a, true, "n", 0, 0, false, -70000);
        else int_getter<uint8_t>(a, true, "n", 0, 0, false, 200);
      }
    float_getter(a, true, "absent", 0, true, true);
    float_getter(a, true, "absent", 0, false, true);
  }
}

// repeated options of which a LATER instance does not parse: get_multi<int> fails part-way, and whatever it had not read
// is still unread for assert_none_unused (deterministic mini histories)
static void multi_partial_sweep(int shard, int nshards) {
  static const vector<vector<string>> LISTS = {{"--n=1", "--n=x", "--n=3"}, {"--n=1", "--n=2", "--n=99999999999"}, {"--n=7", "--n="},
      {"--n=1", "--n=2", "--n=3"}, {"--n=x", "--n=1"}, {"--n=1", "pos", "--n=2x", "--b=4"}, {"--n=0x10", "--n=077", "--n=8z"}};
  for (size_t i = 0; i < LISTS.size(); i++) {
    if ((int)(i % nshards) != shard) continue;
    for (int fmt = 0; fmt < 2; fmt++) {
      tr.emit("{\"e\":\"Reset\"}");
      tr.histories++;
      Arguments a(LISTS[i]);
      vector<string> pos;
      for (auto& p : a.positional) pos.push_back(p.text);
      vt::J j0;
      j0.str("e", "new").raw("tokens", jlist(LISTS[i])).raw("pos", jlist(pos)).raw("named", dump_named(a, false));
      tr.emit(j0);
      vector<int32_t> ret;
      string out = guarded([&] { ret = a.get_multi<int32_t>("n", (Arguments::IntFormat)fmt); });
      string rs = "[";
      for (size_t k = 0; k < ret.size(); k++) rs += (k ? "," : "") + vt::J::arr_u64((uint32_t)ret[k], 4);
      rs += "]";
      vt::J j;
      j.str("e", "mint").raw("name", js("n")).str("fmt", FMT_NAMES[fmt]).num("bits", 32).num("signed", 1);
      j.str("out", out).raw("ret", rs);
      add_flags(j, a);
      tr.emit(j);
      string out2 = guarded([&] { a.assert_none_unused(); });
      vt::J k;
      k.str("e", "unused").str("out", out2);
      tr.emit(k);
      tr.nontrivial("mpartial" + out + out2);
    }
  }
}

// ---------------------------------------------------------------- integer text sweeps
template <typename T>
static void int_batch(const vector<string>& texts, int fmt) {
  vector<string> toks = {"x"};
  string outs = "[", rets = "[", txts = "[";
  bool first = true;
  for (auto& t : texts) {
    // passed as an option value: a positional text starting with '-' would be classified as flags
    Arguments a(vector<string>{"--n=" + t});
    T ret = 0;
    string out = guarded([&] { ret = a.get<T>(string("n"), (Arguments::IntFormat)fmt); });
    if (!first) {
      outs += ",";
      rets += ",";
      txts += ",";
    }
    first = false;
    outs += out == "ok" ? "0" : out == "invalid_argument" ? "1" : "2";
    using U = std::make_unsigned_t<T>;
    rets += vt::J::arr_u64((uint64_t)(U)ret, sizeof(T));
    txts += js(t);
  }
  vt::J j;
  j.str("e", "ints").str("fmt", FMT_NAMES[fmt]).num("bits", sizeof(T) * 8).num("signed", std::is_signed_v<T>);
  j.raw("texts", txts + "]").raw("outs", outs + "]").raw("rets", rets + "]");
  tr.emit(j);
  tr.events += texts.size() - 1;
  tr.nontrivial(string("ints") + FMT_NAMES[fmt] + to_string(sizeof(T)) + (std::is_signed_v<T> ? "s" : "u"));
}
static void all_types(const vector<string>& texts) {
  for (int fmt = 0; fmt < 4; fmt++) {
    int_batch<int8_t>(texts, fmt);
    int_batch<uint8_t>(texts, fmt);
    int_batch<int16_t>(texts, fmt);
    int_batch<uint16_t>(texts, fmt);
    int_batch<int32_t>(texts, fmt);
    int_batch<uint32_t>(texts, fmt);
    int_batch<int64_t>(texts, fmt);
    int_batch<uint64_t>(texts, fmt);
  }
}
static vector<string> boundary_texts() {
  vector<string> t = {"99999999999999999999999", "18446744073709551616", "18446744073709551615", "-18446744073709551615",
      "9223372036854775808", "9223372036854775807", "-9223372036854775808", "-9223372036854775809", "4294967296",
      "4294967295", "-4294967295", "-4294967296", "2147483648", "2147483647", "-2147483648", "-2147483649", "65536", "65535",
      "-32768", "-32769", "32768", "256", "255", "-128", "-129", "128", "127", "0", "-0", "+0", "+5", "--5", "+-5", "", "-", "+",
      "0x", "0x-5", "x10", "0xG", "12 ", " 12", "\t12", "\n-12", "\v7", "\f7", "1 2", "12a", "a12", "1e3", "1.0", "0b11", "08", "09",
      "0x7fffffff", "0x80000000", "0xffffffff", "0x100000000", "0xFFFFFFFFFFFFFFFF", "0x10000000000000000", "-0x80000000",
      "-0x80000001", "0X1f", "1F", "ff", "-ff", "0777", "0377", "0400", "-0200", "-0201", "017777777777", "037777777777",
      "040000000000", "00", "000", "0x0", "007", "7fffffffffffffff", "8000000000000000", "ffffffffffffffff",
      "10000000000000000", "1777777777777777777777", "2000000000000000000000", "777777777777777777777"};
  return t;
}

int main(int argc, char** argv) {
  if (argc < 3) return 2;
  string mode = argv[1];
  tr.open(argv[2]);
  if (mode == "lists") {
    int maxlen = atoi(argv[3]), shard = atoi(argv[4]), nshards = atoi(argv[5]);
    vt::Rng r(strtoull(argv[6], nullptr, 10) * 977 + shard);
    uint64_t counter = 0;
    int G = (int)GRAMMAR.size();
    for (int len = 0; len <= maxlen; len++) {
      vector<int> idx(len, 0);
      for (;;) {
        if ((int)(counter++ % nshards) == shard) {
          vector<string> tokens;
          for (int i : idx) tokens.push_back(GRAMMAR[i]);
          run_list(tokens, r, (int)r.below(4));
        }
        int i = len - 1;
        while (i >= 0 && ++idx[i] == G) idx[i--] = 0;
        if (i < 0) break;
      }
    }
    // longer random lists
    for (int k = 0; k < 200 / nshards + 1; k++) {
      vector<string> tokens;
      for (int n = (int)r.range(4, 8); n > 0; n--) tokens.push_back(GRAMMAR[r.below(G)]);
      run_list(tokens, r, (int)r.below(4));
    }
  } else {
    long lo = atol(argv[3]), hi = atol(argv[4]);
    int shard = atoi(argv[5]), nshards = atoi(argv[6]);
    tr.emit("{\"e\":\"Reset\"}");
    tr.histories++;
    float_texts_sweep(shard, nshards);
    multi_partial_sweep(shard, nshards);
    // malformed and boundary texts first (some set errno = ERANGE), then the valid sweeps
    all_types(boundary_texts());
    const long CH = 500;
    long nchunks = (hi - lo + CH) / CH;
    for (long c = 0; c < nchunks; c++) {
      if ((int)(c % nshards) != shard) continue;
      vector<string> texts;
      for (long n = lo + c * CH; n < lo + (c + 1) * CH && n <= hi; n++) {
        char b[64];
        long m = n < 0 ? -n : n;
        const char* sg = n < 0 ? "-" : "";
        snprintf(b, sizeof b, "%ld", n);
        texts.push_back(b);
        snprintf(b, sizeof b, "%s0x%lx", sg, m);
        texts.push_back(b);
        snprintf(b, sizeof b, "%s%lX", sg, m);
        texts.push_back(b);
        snprintf(b, sizeof b, "%s0%lo", sg, m);
        texts.push_back(b);
      }
      all_types(texts);
      if (c % 7 == 0) all_types(boundary_texts());
    }
  }
  tr.stats();
  return 0;
}
