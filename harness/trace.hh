// Common helpers for the conformance drivers: ndjson event writer, seeded PRNG,
// distinct-case counter, STATS line.  Events are written one per line with a
// single write() each so that a crash loses at most the event being produced.
#pragma once
#include <fcntl.h>
#include <signal.h>
#include <stdint.h>
#include <stdio.h>
#include <stdlib.h>
#include <string.h>
#include <sys/wait.h>
#include <unistd.h>

#include <exception>
#include <functional>
#include <set>
#include <stdexcept>
#include <string>
#include <typeinfo>
#include <vector>

extern "C" void __gcov_dump(void) __attribute__((weak));  // present only in coverage builds (bin/coverage.sh)

namespace vt {

struct Rng {
  uint64_t s;
  explicit Rng(uint64_t seed) : s(seed * 0x9E3779B97F4A7C15ULL + 0x1234567ULL) {}
  uint64_t next() {
    uint64_t z = (s += 0x9E3779B97F4A7C15ULL);
    z = (z ^ (z >> 30)) * 0xBF58476D1CE4E5B9ULL;
    z = (z ^ (z >> 27)) * 0x94D049BB133111EBULL;
    return z ^ (z >> 31);
  }
  uint64_t below(uint64_t n) { return n ? next() % n : 0; }
  int64_t range(int64_t lo, int64_t hi) { return lo + (int64_t)below((uint64_t)(hi - lo + 1)); }
  bool chance(unsigned pct) { return below(100) < pct; }
};

// ---- JSON building -------------------------------------------------------
struct J {
  std::string s;
  bool first = true;
  J() { s = "{"; }
  void key(const char* k) {
    if (!first) s += ",";
    first = false;
    s += "\"";
    s += k;
    s += "\":";
  }
  J& str(const char* k, const std::string& v) {  // plain ASCII identifiers only
    key(k);
    s += "\"";
    for (char c : v) {
      if (c == '"' || c == '\\') {
        s += '\\';
        s += c;
      } else if ((unsigned char)c < 0x20 || (unsigned char)c > 0x7E) {
        char b[8];
        snprintf(b, sizeof b, "\\u%04x", (unsigned char)c);
        s += b;
      } else
        s += c;
    }
    s += "\"";
    return *this;
  }
  J& num(const char* k, long long v) {
    key(k);
    s += std::to_string(v);
    return *this;
  }
  J& boolean(const char* k, bool v) {
    key(k);
    s += v ? "true" : "false";
    return *this;
  }
  J& raw(const char* k, const std::string& json) {
    key(k);
    s += json;
    return *this;
  }
  // byte string as array of 0..255
  J& bytes(const char* k, const void* p, size_t n) {
    key(k);
    s += arr_bytes(p, n);
    return *this;
  }
  J& bytes(const char* k, const std::string& v) { return bytes(k, v.data(), v.size()); }
  // unsigned 64-bit value as 8 big-endian digits (TLC ints are 32-bit)
  J& u64(const char* k, uint64_t v) {
    key(k);
    s += arr_u64(v);
    return *this;
  }
  template <typename T>
  J& ints(const char* k, const std::vector<T>& v) {
    key(k);
    s += "[";
    for (size_t i = 0; i < v.size(); i++) {
      if (i) s += ",";
      s += std::to_string((long long)v[i]);
    }
    s += "]";
    return *this;
  }
  static std::string arr_bytes(const void* p, size_t n) {
    const uint8_t* b = (const uint8_t*)p;
    std::string r = "[";
    for (size_t i = 0; i < n; i++) {
      if (i) r += ",";
      r += std::to_string((unsigned)b[i]);
    }
    r += "]";
    return r;
  }
  static std::string arr_u64(uint64_t v, int nbytes = 8) {
    std::string r = "[";
    for (int i = nbytes - 1; i >= 0; i--) {
      r += std::to_string((unsigned)((v >> (8 * i)) & 0xFF));
      if (i) r += ",";
    }
    r += "]";
    return r;
  }
  std::string done() const { return s + "}"; }
};

struct Trace {
  int fd = -1;
  uint64_t events = 0, histories = 0;
  std::set<uint64_t> distinct;
  std::vector<std::string> samples;
  void open(const char* path) {
    fd = ::open(path, O_WRONLY | O_CREAT | O_TRUNC, 0644);
    if (fd < 0) {
      perror("open trace");
      exit(2);
    }
  }
  void emit(const std::string& line) {
    std::string l = line + "\n";
    size_t off = 0;
    while (off < l.size()) {
      ssize_t w = ::write(fd, l.data() + off, l.size() - off);
      if (w <= 0) {
        perror("write trace");
        exit(2);
      }
      off += w;
    }
    events++;
    if (samples.size() < 4 && line.size() < 400 && (events % 7 == 3) && line.find('\n') == std::string::npos) samples.push_back(line);
  }
  void emit(const J& j) { emit(j.done()); }
  void reset_marker() {
    emit("{\"e\":\"Reset\"}");
    histories++;
  }
  // count a distinct non-trivial case: hash of a short class string
  void nontrivial(const std::string& cls) {
    uint64_t h = 1469598103934665603ULL;
    for (unsigned char c : cls) h = (h ^ c) * 1099511628211ULL;
    distinct.insert(h);
  }
  void stats(const char* extra = nullptr) {
    std::string s = "STATS {\"events\":" + std::to_string(events) + ",\"histories\":" + std::to_string(histories) +
        ",\"distinct\":" + std::to_string(distinct.size()) + ",\"samples\":[";
    for (size_t i = 0; i < samples.size(); i++) {
      if (i) s += ",";
      s += samples[i];
    }
    s += "]";
    if (extra) {
      s += ",";
      s += extra;
    }
    s += "}";
    printf("%s\n", s.c_str());
    fflush(stdout);
  }
};

// Name of the exception class, reduced to the categories the specs talk about.
inline std::string exc_name(const std::exception& e) {
  if (dynamic_cast<const std::out_of_range*>(&e)) return "out_of_range";
  if (dynamic_cast<const std::invalid_argument*>(&e)) return "invalid_argument";
  if (dynamic_cast<const std::length_error*>(&e)) return "length_error";
  if (dynamic_cast<const std::domain_error*>(&e)) return "domain_error";
  if (dynamic_cast<const std::logic_error*>(&e)) return "logic_error";
  if (dynamic_cast<const std::range_error*>(&e)) return "range_error";
  if (dynamic_cast<const std::overflow_error*>(&e)) return "overflow_error";
  if (dynamic_cast<const std::runtime_error*>(&e)) return "runtime_error";
  if (dynamic_cast<const std::bad_alloc*>(&e)) return "bad_alloc";
  return "exception";
}

// Run fn in a forked child; returns 0 if it exited normally with status 0,
// otherwise the signal number (or 1000+exit status).  The child shares the
// trace fd (O_APPEND not needed: the parent does not write while waiting).
inline int in_child(const std::function<void()>& fn, unsigned watchdog_s = 60) {
  fflush(stdout);
  pid_t pid = fork();
  if (pid == 0) {
    alarm(watchdog_s);
    fn();
    if (__gcov_dump) __gcov_dump();
    _exit(0);
  }
  int st = 0;
  while (waitpid(pid, &st, 0) < 0) {
  }
  if (WIFSIGNALED(st)) return WTERMSIG(st);
  if (WEXITSTATUS(st)) return 1000 + WEXITSTATUS(st);
  return 0;
}

}  // namespace vt
