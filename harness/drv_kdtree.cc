// C13 driver: phosg::KDTree against the multiset model (spec/KdTree).
//   drv_kdtree small <out> <maxlen> <shard> <nshards> [sample_pct]
//       exhaustive small scope: every insertion sequence of <= maxlen points of
//       the 3x3 grid (values alternate 1,2 so duplicates with equal and with
//       different values occur), observed completely (probe of all grid
//       points, all boxes), followed by EVERY erase order, probing after each
//       erase; the tree is destroyed in every reached state (incl. empty).
//   drv_kdtree random <out> <tier> <seed> <shard> <nshards>
//       random histories of up to 300 operations on 2-D grids of side 2..12 and
//       3-D points, with interleaved iterate-and-erase loops.
// ASan + LSan build; a sanitizer report or signal ends the process and becomes
// a Crash event appended by check.py (no specification action => rejected).
#include <algorithm>
#include <array>

#include <phosg/KDTree.hh>
#include <phosg/Vector.hh>

#include <stdexcept>

#include "trace.hh"

using namespace std;
using namespace phosg;

typedef Vector2<int64_t> P2;
typedef Vector3<int64_t> P3;
typedef Vector4<int64_t> P4;
typedef Vector2<uint64_t> P2u;  // unsigned coordinates: differences of coordinates are not meaningful, only their order is
typedef Vector2<uint32_t> P2w;
// a value type whose move constructor / move assignment leave a visible mark (-777) in the source: an entry that is
// still in the tree but was moved from shows up in every later observation
struct MV {
  int64_t v;
  MV(int64_t x = 0) : v(x) {}
  // arm = k: the k-th copy construction from now on throws (an insert whose value cannot be copied must leave the tree as it was)
  static inline int arm = 0;
  MV(const MV& o) : v(o.v) {
    if (arm && --arm == 0) throw std::runtime_error("value copy failed");
  }
  MV& operator=(const MV&) = default;
  MV(MV&& o) noexcept : v(o.v) { o.v = -777; }
  MV& operator=(MV&& o) noexcept {
    v = o.v;
    if (&o != this) o.v = -777;
    return *this;
  }
  operator int64_t() const { return v; }
  bool operator==(const MV& o) const { return v == o.v; }
};
typedef KDTree<P2, int64_t> T2;
typedef KDTree<P2, MV> T2m;
typedef KDTree<P3, int64_t> T3;
typedef KDTree<P4, int64_t> T4;
typedef KDTree<P2u, int64_t> T2u;
typedef KDTree<P2w, int64_t> T2w;

static string vec(const vector<long>& v) {
  string s = "[";
  for (size_t i = 0; i < v.size(); i++) {
    if (i) s += ",";
    s += to_string(v[i]);
  }
  return s + "]";
}
static string vecs(vector<vector<long>> v, bool sorted = true) {
  if (sorted) sort(v.begin(), v.end());
  string s = "[";
  for (size_t i = 0; i < v.size(); i++) {
    if (i) s += ",";
    s += vec(v[i]);
  }
  return s + "]";
}
static vector<long> flat(const P2& p, int64_t v) { return {p.x, p.y, v}; }
static vector<long> flat(const P3& p, int64_t v) { return {p.x, p.y, p.z, v}; }
static vector<long> coords(const P2& p) { return {p.x, p.y}; }
static vector<long> flat(const P2u& p, int64_t v) { return {(long)p.x, (long)p.y, v}; }
static vector<long> coords(const P2u& p) { return {(long)p.x, (long)p.y}; }
static vector<long> flat(const P2w& p, int64_t v) { return {(long)p.x, (long)p.y, v}; }
static vector<long> coords(const P2w& p) { return {(long)p.x, (long)p.y}; }
static vector<long> coords(const P3& p) { return {p.x, p.y, p.z}; }
static vector<long> flat(const P4& p, int64_t v) { return {p.x, p.y, p.z, p.w, v}; }
static vector<long> coords(const P4& p) { return {p.x, p.y, p.z, p.w}; }
// The tree only compares coordinates, so a history may run on real coordinates (c - g_co) * g_cs (order-preserving):
// negative values and neighbours that are 2^31, 2^32 or 2^40 apart; events carry the logical coordinates.
static int64_t g_cs = 1, g_co = 0;
static int64_t rc(int64_t c) { return (c - g_co) * g_cs; }
static int64_t lc(int64_t x) { return x % g_cs == 0 ? x / g_cs + g_co : 987654; }
static P2 R(const P2& p) { return P2(rc(p.x), rc(p.y)); }
static P3 R(const P3& p) { return P3(rc(p.x), rc(p.y), rc(p.z)); }
static P2 L(const P2& p) { return P2(lc(p.x), lc(p.y)); }
// unsigned trees run on the logical coordinates themselves (small non-negative numbers: every difference b - a with
// a > b wraps)
static P2u R(const P2u& p) { return p; }
static P2u L(const P2u& p) { return p; }
static P2w R(const P2w& p) { return p; }
static P2w L(const P2w& p) { return p; }
static P3 L(const P3& p) { return P3(lc(p.x), lc(p.y), lc(p.z)); }
static P4 R(const P4& p) { return P4(rc(p.x), rc(p.y), rc(p.z), rc(p.w)); }
static P4 L(const P4& p) { return P4(lc(p.x), lc(p.y), lc(p.z), lc(p.w)); }

template <class T>
static vector<vector<long>> items_of(const T& t) {
  vector<vector<long>> r;
  size_t guard = t.size() + 4;
  // walks alternate between the prefix and the postfix increment (whose result is the position BEFORE advancing)
  static unsigned walk = 0;
  if (walk++ % 2) {
    for (auto it = t.begin(); it != t.end();) {
      auto prev = it++;
      r.push_back(flat(L(prev->first), prev->second));
      if (r.size() > guard) {
        r.push_back({-99});
        break;
      }
    }
    return r;
  }
  for (auto it = t.begin(); it != t.end(); ++it) {
    r.push_back(flat(L(it->first), it->second));
    if (r.size() > guard) {
      r.push_back({-99});
      break;
    }
  }
  return r;
}

template <class T, class P>
static void ev_ins(vt::Trace& tr, T& t, const P& p, int64_t v) {
  t.insert(R(p), v);
  vt::J j;
  j.str("e", "ins").raw("p", vec(coords(p))).num("v", v).num("size", (long long)t.size()).raw("items", vecs(items_of(t)));
  tr.emit(j);
}
// an insert that fails because the value's copy constructor throws (first copy: the one into the new node)
template <class T, class P>
static void ev_insfail(vt::Trace& tr, T& t, const P& p, int64_t v) {
  if constexpr (std::is_same_v<T, T2m>) {
    MV val(v);
    bool threw = false;
    MV::arm = 1;
    try {
      t.insert(R(p), val);
    } catch (const std::runtime_error&) {
      threw = true;
    }
    MV::arm = 0;
    vt::J j;
    j.str("e", "insfail").raw("p", vec(coords(p))).num("v", v).num("threw", threw).num("size", (long long)t.size()).raw("items", vecs(items_of(t)));
    tr.emit(j);
  }
}
template <class T, class P>
static bool ev_era(vt::Trace& tr, T& t, const P& p, int64_t v) {
  bool r = t.erase(R(p), v);
  vt::J j;
  j.str("e", "era").raw("p", vec(coords(p))).num("v", v).num("ret", r).num("size", (long long)t.size());
  j.raw("items", vecs(items_of(t)));
  tr.emit(j);
  return r;
}
template <class T, class P>
static void ev_at(vt::Trace& tr, T& t, const P& p) {
  long ret;
  try {
    ret = t.at(R(p));
  } catch (const out_of_range&) {
    ret = -1;
  }
  vt::J j;
  j.str("e", "at").raw("p", vec(coords(p))).num("ret", ret);
  tr.emit(j);
  vt::J k;
  k.str("e", "exists").raw("p", vec(coords(p))).num("ret", t.exists(R(p)));
  tr.emit(k);
}
template <class T, class P>
static void ev_within(vt::Trace& tr, T& t, const P& lo, const P& hi) {
  vector<vector<long>> r;
  string exc;
  for (auto& e : t.within(R(lo), R(hi))) r.push_back(flat(L(e.first), e.second));
  vt::J j;
  j.str("e", "within").raw("lo", vec(coords(lo))).raw("hi", vec(coords(hi))).raw("ret", vecs(r));
  j.num("ex", t.exists(R(lo), R(hi)));
  tr.emit(j);
}
static void ev_probe(vt::Trace& tr, T2& t, int g) {
  vector<long> ex, at;
  for (int i = 0; i < g * g; i++) {
    P2 p(i / g, i % g);
    ex.push_back(t.exists(R(p)));
    try {
      at.push_back(t.at(R(p)));
    } catch (const out_of_range&) {
      at.push_back(-1);
    }
  }
  vt::J j;
  j.str("e", "probe").num("g", g).raw("ex", vec(ex)).raw("at", vec(at));
  tr.emit(j);
}
static void ev_boxes(vt::Trace& tr, T2& t, int g) {
  // all boxes with corners in 0..g (including empty and inverted ones)
  string s = "[";
  bool first = true;
  for (int lx = 0; lx <= g; lx++)
    for (int ly = 0; ly <= g; ly++)
      for (int hx = 0; hx <= g; hx++)
        for (int hy = 0; hy <= g; hy++) {
          P2 lo(lx, ly), hi(hx, hy);
          auto w = t.within(R(lo), R(hi));
          // every returned entry must really lie in the box (checked here only as the 7th field; count and
          // existence are judged by the specification)
          long inside = 1;
          for (auto& e : w)
            if (L(e.first).x < lx || L(e.first).x >= hx || L(e.first).y < ly || L(e.first).y >= hy) inside = 0;
          if (!first) s += ",";
          first = false;
          s += vec({lx, ly, hx, hy, (long)w.size(), (long)t.exists(R(lo), R(hi)), inside});
        }
  s += "]";
  vt::J j;
  j.str("e", "boxes").raw("b", s);
  tr.emit(j);
}
template <class T>
static void ev_iter(vt::Trace& tr, T& t) {
  vt::J j;
  j.str("e", "iter").num("size", (long long)t.size()).raw("items", vecs(items_of(t)));
  tr.emit(j);
}
template <class T>
static void ev_itera(vt::Trace& tr, T& t, const string& kind, long c) {
  vector<vector<long>> visited;
  size_t guard = t.size() * 2 + 8;
  for (auto it = t.begin(); it != t.end();) {
    vector<long> e = flat(L(it->first), it->second);
    visited.push_back(e);
    if (visited.size() > guard) {
      visited.push_back({-99});
      break;
    }
    bool kill = kind == "all" ? true
        : kind == "none"      ? false
        : kind == "x_eq"      ? e[0] == c
        : kind == "y_eq"      ? e[1] == c
        : kind == "v_eq"      ? e.back() == c
                              : ((e[0] + e[1]) % 2 == 1);
    if (kill)
      t.erase_advance(it);
    else
      ++it;
  }
  vt::J j;
  j.str("e", "itera").str("kind", kind).num("c", c).raw("visited", vecs(visited));
  j.num("size", (long long)t.size()).raw("items", vecs(items_of(t)));
  tr.emit(j);
}

// ------------------------------------------------------------- small scope
static void small_history(vt::Trace& tr, const vector<int>& seq, const vector<int>* erase_order, bool boxes) {
  tr.emit("{\"e\":\"Reset\",\"d\":2}");
  tr.histories++;
  static const int64_t SC[] = {1, 1, 3000000000LL, 1LL << 32};
  g_cs = SC[tr.histories % 4];
  g_co = g_cs == 1 ? 0 : 1;  // scaled grids are centred: coordinates -s, 0, +s
  T2* t = new T2();
  for (size_t i = 0; i < seq.size(); i++) ev_ins(tr, *t, P2(seq[i] / 3, seq[i] % 3), 1 + (i % 2));
  ev_probe(tr, *t, 3);
  if (boxes) ev_boxes(tr, *t, 3);
  if (erase_order) {
    for (int idx : *erase_order) {
      ev_era(tr, *t, P2(seq[idx] / 3, seq[idx] % 3), 1 + (idx % 2));
      ev_probe(tr, *t, 3);
    }
    if (boxes) ev_boxes(tr, *t, 3);
    // erasing something that is not there
    ev_era(tr, *t, P2(1, 1), 3);
  }
  delete t;  // destroyed in every reached state, including empty
  tr.emit("{\"e\":\"destroy\"}");
  g_cs = 1;
  g_co = 0;
}

static void small(vt::Trace& tr, int maxlen, int shard, int nshards, int sample_pct, uint64_t seed) {
  vt::Rng r(seed + 77);
  uint64_t counter = 0;
  {
    // the empty tree: queries and destruction
    tr.emit("{\"e\":\"Reset\",\"d\":2}");
    T2* t = new T2();
    ev_probe(tr, *t, 3);
    ev_boxes(tr, *t, 3);
    ev_iter(tr, *t);
    ev_era(tr, *t, P2(0, 0), 1);
    ev_itera(tr, *t, "all", 0);
    delete t;
    tr.emit("{\"e\":\"destroy\"}");
  }
  for (int len = 1; len <= maxlen; len++) {
    vector<int> seq(len, 0);
    for (;;) {
      if ((counter++ % nshards) == (uint64_t)shard) {
        bool full = len <= 3 || (int)r.below(100) < sample_pct;
        if (full) {
          vector<int> perm(len);
          for (int i = 0; i < len; i++) perm[i] = i;
          bool firstperm = true;
          do {
            small_history(tr, seq, &perm, firstperm);
            firstperm = false;
          } while (next_permutation(perm.begin(), perm.end()));
          string cls = "ins" + to_string(len);
          for (int i = 0; i < len; i++)
            for (int k = 0; k < i; k++) {
              if (seq[i] == seq[k]) cls += "d";
              else if (seq[i] / 3 == seq[k] / 3 || seq[i] % 3 == seq[k] % 3) cls += "t";
            }
          tr.nontrivial(cls);
        }
      }
      int i = len - 1;
      while (i >= 0 && ++seq[i] == 9) seq[i--] = 0;
      if (i < 0) break;
    }
  }
}

// ------------------------------------------------------------- random
template <class T, class P>
static void random_history(vt::Trace& tr, vt::Rng& r, int dims, int len) {
  int side = (int)r.range(2, 12);
  int nv = (int)r.range(1, 3);
  tr.emit("{\"e\":\"Reset\",\"d\":" + to_string(dims) + "}");
  tr.histories++;
  static const int64_t SC[] = {1, 1, 1, 3000000000LL, 1LL << 32, (1LL << 40) + 7};
  g_cs = SC[r.below(6)];
  g_co = r.chance(50) ? side / 2 : 0;
  T* t = new T();
  vector<pair<P, int64_t>> live;
  auto rp = [&]() {
    if constexpr (std::is_same_v<P, P2>)
      return P2(r.below(side), r.below(side));
    else if constexpr (std::is_same_v<P, P2u> || std::is_same_v<P, P2w>)
      return P(r.below(side), r.below(side));
    else if constexpr (std::is_same_v<P, P3>)
      return P3(r.below(side), r.below(side), r.below(side));
    else  // 4-D: a small side, so that points agreeing in all but one coordinate are common
      return P4(r.below(min(side, 3)), r.below(min(side, 3)), r.below(min(side, 3)), r.below(side));
  };
  for (int n = 0; n < len; n++) {
    unsigned c = r.below(100);
    if (c < 40) {
      P p = rp();
      int64_t v = 1 + r.below(nv);
      if (std::is_same_v<T, T2m> && r.chance(12)) ev_insfail(tr, *t, p, v);
      ev_ins(tr, *t, p, v);
      live.emplace_back(p, v);
      tr.nontrivial("ins");
    } else if (c < 65) {
      if (!live.empty() && r.chance(80)) {
        size_t i = r.below(live.size());
        bool ok = ev_era(tr, *t, live[i].first, live[i].second);
        live.erase(live.begin() + i);
        tr.nontrivial(string("era") + (ok ? "1" : "0") + to_string(min<size_t>(live.size(), 4)));
      } else {
        P p = rp();
        int64_t v = 1 + r.below(nv + 1);
        bool ok = ev_era(tr, *t, p, v);
        if (ok)
          for (size_t i = 0; i < live.size(); i++)
            if (live[i].first == p && live[i].second == v) {
              live.erase(live.begin() + i);
              break;
            }
        tr.nontrivial(string("erx") + (ok ? "1" : "0"));
      }
    } else if (c < 80) {
      ev_at(tr, *t, rp());
    } else if (c < 92) {
      P lo = rp(), hi = rp();
      if (r.chance(70)) {
        if constexpr (std::is_same_v<P, P2> || std::is_same_v<P, P2u> || std::is_same_v<P, P2w>) {
          if (lo.x > hi.x) swap(lo.x, hi.x);
          if (lo.y > hi.y) swap(lo.y, hi.y);
          hi.x++;
          hi.y++;
        } else {
          if (lo.x > hi.x) swap(lo.x, hi.x);
          if (lo.y > hi.y) swap(lo.y, hi.y);
          if (lo.z > hi.z) swap(lo.z, hi.z);
          hi.x++;
          hi.y++;
          hi.z++;
          if constexpr (std::is_same_v<P, P4>) {
            if (lo.w > hi.w) swap(lo.w, hi.w);
            hi.w++;
          }
        }
      }
      ev_within(tr, *t, lo, hi);
      tr.nontrivial("within");
    } else if (c < 96) {
      ev_iter(tr, *t);
    } else {
      static const char* kinds[] = {"x_eq", "y_eq", "v_eq", "sum_odd", "none", "all"};
      string kind = kinds[r.below(r.chance(10) ? 6 : 5)];
      long cc = kind == "v_eq" ? 1 + r.below(nv) : r.below(side);
      size_t before = t->size();
      ev_itera(tr, *t, kind, cc);
      // rebuild `live` from the tree is not needed: erase of a dead entry is legal and checked
      vector<pair<P, int64_t>> nl;
      for (auto& e : live) {
        vector<long> f = flat(e.first, e.second);
        bool kill = kind == "all" ? true : kind == "none" ? false : kind == "x_eq" ? f[0] == cc
            : kind == "y_eq" ? f[1] == cc : kind == "v_eq" ? f.back() == cc : ((f[0] + f[1]) % 2 == 1);
        if (!kill) nl.push_back(e);
      }
      live = nl;
      tr.nontrivial("itera" + kind + to_string(before != t->size()));
    }
  }
  ev_iter(tr, *t);
  delete t;
  tr.emit("{\"e\":\"destroy\"}");
  g_cs = 1;
  g_co = 0;
}

int main(int argc, char** argv) {
  if (argc < 3) return 2;
  string mode = argv[1];
  vt::Trace tr;
  tr.open(argv[2]);
  if (mode == "small") {
    int maxlen = atoi(argv[3]), shard = atoi(argv[4]), nshards = atoi(argv[5]);
    int pct = argc > 6 ? atoi(argv[6]) : 100;
    uint64_t seed = argc > 7 ? strtoull(argv[7], nullptr, 10) : 1;
    small(tr, maxlen, shard, nshards, pct, seed);
  } else {
    string tier = argv[3];
    uint64_t seed = strtoull(argv[4], nullptr, 10);
    int shard = atoi(argv[5]), nshards = atoi(argv[6]);
    vt::Rng r(seed * 7919 + shard);
    int nh = (tier == "quick" ? 48 : 2000) / nshards + 1;
    for (int h = 0; h < nh; h++) {
      int len = r.chance(15) ? 300 : (int)r.range(10, 120);
      if (h % 7 == 6)
        random_history<T4, P4>(tr, r, 4, len);
      else if (h % 7 == 5)
        random_history<T2u, P2u>(tr, r, 2, len);
      else if (h % 7 == 4)
        random_history<T2w, P2w>(tr, r, 2, len);
      else if (h % 3 == 2)
        random_history<T3, P3>(tr, r, 3, len);
      else if (h % 3 == 1)
        random_history<T2m, P2>(tr, r, 2, len);
      else
        random_history<T2, P2>(tr, r, 2, len);
    }
  }
  tr.stats();
  return 0;
}
