// Scheduler-controlled stand-ins for std::atomic and std::thread, used to bind
// spec/ParallelRange to the *unmodified* template code of <phosg/Tools.hh>:
// the driver defines the identifiers `atomic` and `thread` as macros for the
// duration of the #include, so std::atomic<T> / std::thread inside the header
// become std::vatomic<T> / std::vthread (aliases of the classes below).
//
// Workers are real threads, but only one runs at a time: before every atomic
// operation a worker parks and the scheduler (running inside join()) picks the
// next worker according to a schedule (a vector of choices).  Every atomic
// operation is logged, so a run is a sequence of model-level steps.
#pragma once
#include <atomic>
#include <condition_variable>
#include <functional>
#include <mutex>
#include <string>
#include <thread>
#include <vector>

namespace vshim {

struct Event {
  int t;            // thread id (-1 = main)
  std::string op;   // load store cas fadd fsub xchg
  int obj;          // construction index of the atomic (0 = first)
  long long a, b;   // operands (store: value; cas: expected, desired; fadd: delta)
  long long ret;    // value returned (cas: value of `expected` after the call)
  int ok;           // cas success
};

struct Sched {
  std::mutex m;
  std::condition_variable cv;
  int turn = -1;                    // worker allowed to run; -1 = scheduler
  std::vector<int> state;           // per worker: 0 not started, 1 parked, 2 running, 3 done
  std::vector<int> choices;         // schedule prefix (index into the sorted enabled set)
  std::vector<int> nopts;           // per decision: number of enabled workers
  std::vector<int> taken;           // per decision: worker chosen
  size_t decision = 0;
  std::function<int(int)> chooser;  // beyond the prefix: n options -> choice (default 0)
  bool free_run = false;            // workers abandoned without join: let them go
  bool scheduled_once = false;
  int next_obj = 0;
  int next_thread = 0;
  std::vector<Event> log;           // atomic operations, in execution order
  std::function<void(const Event&)> on_event;
  std::vector<std::string> anomalies;

  void reset(const std::vector<int>& prefix) {
    turn = -1;
    state.clear();
    choices = prefix;
    nopts.clear();
    taken.clear();
    decision = 0;
    free_run = false;
    scheduled_once = false;
    next_obj = 0;
    next_thread = 0;
    log.clear();
    anomalies.clear();
  }
};
inline Sched g;
inline thread_local int my_id = -1;

inline void park() {  // called by a worker before each atomic operation
  if (my_id < 0) return;
  std::unique_lock<std::mutex> lk(g.m);
  if (g.free_run) return;
  g.state[my_id] = 1;
  g.turn = -1;
  g.cv.notify_all();
  g.cv.wait(lk, [&] { return g.turn == my_id || g.free_run; });
  g.state[my_id] = 2;
}

inline void record(Event e) {
  e.t = my_id;
  if (g.free_run) {
    std::lock_guard<std::mutex> lk(g.m);
    g.log.push_back(e);
    if (g.on_event) g.on_event(e);
    return;
  }
  g.log.push_back(e);
  if (g.on_event) g.on_event(e);
}

// run the scheduling loop until every started worker is done
inline void run_all() {
  std::unique_lock<std::mutex> lk(g.m);
  g.scheduled_once = true;
  for (;;) {
    g.cv.wait(lk, [&] {
      if (g.turn != -1) return false;
      for (int s : g.state)
        if (s == 0 || s == 2) return false;
      return true;
    });
    std::vector<int> enabled;
    for (size_t i = 0; i < g.state.size(); i++)
      if (g.state[i] == 1) enabled.push_back((int)i);
    if (enabled.empty()) return;
    int c;
    if (g.decision < g.choices.size())
      c = g.choices[g.decision];
    else
      c = g.chooser ? g.chooser((int)enabled.size()) : 0;
    if (c >= (int)enabled.size()) c = (int)enabled.size() - 1;
    g.nopts.push_back((int)enabled.size());
    g.taken.push_back(c);
    g.decision++;
    g.turn = enabled[c];
    g.cv.notify_all();
  }
}

template <typename T>
struct Atomic {
  T val;
  int id;
  Atomic() : val(), id(g.next_obj++) {}
  Atomic(T v) : val(v), id(g.next_obj++) {}
  Atomic(const Atomic&) = delete;
  Atomic& operator=(const Atomic&) = delete;

  T load(std::memory_order = std::memory_order_seq_cst) const {
    park();
    T r = val;
    record({0, "load", id, 0, 0, (long long)r, 0});
    return r;
  }
  void store(T v, std::memory_order = std::memory_order_seq_cst) {
    park();
    val = v;
    record({0, "store", id, (long long)v, 0, 0, 0});
  }
  T operator=(T v) {
    store(v);
    return v;
  }
  operator T() const { return load(); }
  T exchange(T v, std::memory_order = std::memory_order_seq_cst) {
    park();
    T r = val;
    val = v;
    record({0, "xchg", id, (long long)v, 0, (long long)r, 0});
    return r;
  }
  T fetch_add(T d, std::memory_order = std::memory_order_seq_cst) {
    park();
    T r = val;
    val = (T)(val + d);
    record({0, "fadd", id, (long long)d, 0, (long long)r, 0});
    return r;
  }
  T fetch_sub(T d, std::memory_order = std::memory_order_seq_cst) {
    park();
    T r = val;
    val = (T)(val - d);
    record({0, "fsub", id, (long long)d, 0, (long long)r, 0});
    return r;
  }
  bool cas(T& expected, T desired) {
    park();
    T e = expected;
    bool ok = (val == expected);
    if (ok)
      val = desired;
    else
      expected = val;
    record({0, "cas", id, (long long)e, (long long)desired, (long long)expected, ok ? 1 : 0});
    return ok;
  }
  bool compare_exchange_weak(T& e, T d, std::memory_order = std::memory_order_seq_cst,
      std::memory_order = std::memory_order_seq_cst) {
    return cas(e, d);
  }
  bool compare_exchange_strong(T& e, T d, std::memory_order = std::memory_order_seq_cst,
      std::memory_order = std::memory_order_seq_cst) {
    return cas(e, d);
  }
  T operator++() { return (T)(fetch_add(1) + 1); }
  T operator++(int) { return fetch_add(1); }
  T operator--() { return (T)(fetch_sub(1) - 1); }
  T operator--(int) { return fetch_sub(1); }
  T operator+=(T d) { return (T)(fetch_add(d) + d); }
  T operator-=(T d) { return (T)(fetch_sub(d) - d); }
};

struct Thread {
  std::thread real;
  int id = -1;
  Thread() = default;
  Thread(Thread&&) = default;
  Thread& operator=(Thread&&) = default;
  template <typename F, typename... A>
  explicit Thread(F&& f, A&&... a) {
    {
      std::lock_guard<std::mutex> lk(g.m);
      id = g.next_thread++;
      g.state.push_back(0);
    }
    int tid = id;
    real = std::thread(
        [tid](auto fn, auto... args) {
          my_id = tid;  // runs freely up to its first atomic operation, where it parks
          std::invoke(fn, args...);
          std::unique_lock<std::mutex> lk(g.m);
          g.state[tid] = 3;
          if (g.on_event) g.on_event({tid, "fin", -1, 0, 0, 0, 0});
          g.turn = -1;
          g.cv.notify_all();
        },
        std::forward<F>(f), std::forward<A>(a)...);
  }
  bool joinable() const { return real.joinable(); }
  void join() {
    if (!g.free_run) run_all();
    real.join();
    if (g.on_event) g.on_event({-1, "joined", id, 0, 0, 0, 0});
  }
  void detach() {
    {
      std::lock_guard<std::mutex> lk(g.m);
      g.anomalies.push_back("detach");
      g.free_run = true;
      g.cv.notify_all();
    }
    real.detach();
  }
  ~Thread() {
    if (real.joinable()) {
      // the code under test abandoned a worker without joining it
      {
        std::lock_guard<std::mutex> lk(g.m);
        g.anomalies.push_back("unjoined");
        g.free_run = true;
        g.cv.notify_all();
      }
      real.join();
    }
  }
  static unsigned hardware_concurrency() { return 2; }
};

}  // namespace vshim

namespace std {
template <typename T>
using vatomic = vshim::Atomic<T>;
using vthread = vshim::Thread;
}  // namespace std
