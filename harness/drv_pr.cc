// C16 driver (controlled scheduler): runs the real parallel_range templates of
// <phosg/Tools.hh> with std::atomic / std::thread retargeted to vshim, under
// schedules chosen by the harness, and logs every atomic operation, callback
// invocation, worker termination and the returned value.
//   drv_pr dfs  <out> <variant> <N> <maxlen> <maxruns> <shard> <nshards>
//       systematic DFS over all schedules for every (len <= maxlen, block,
//       TrueSet) configuration (bounded by maxruns schedules per configuration)
//   drv_pr rand <out> <variant> <N> <maxlen> <runs> <seed>
//   drv_pr wrap <out> <runs> <seed>       uint8_t ranges ending at 255 (cursor wrap)
//   drv_pr signed <out> <runs> <seed>     int64_t / int8_t ranges below zero, across zero and at the extremes
// variant: range | blocks | multi
#include <stdint.h>
#include <unistd.h>

#include <atomic>
#include <functional>
#include <mutex>
#include <set>
#include <stdexcept>
#include <string>
#include <thread>
#include <unordered_set>
#include <vector>

#include <phosg/Encoding.hh>
#include <phosg/Strings.hh>
#include <phosg/Time.hh>

#include "trace.hh"
#include "vshim.hh"

#define atomic vatomic
#define thread vthread
#include <phosg/Tools.hh>
#undef atomic
#undef thread

using namespace std;

struct Cfg {
  string variant;
  long long s, e, blk;
  int n;
  set<long long> ts;
  int bits = 64;
  bool auto_n = false;  // pass num_threads = 0 ("as many as there are cores": the shim reports n cores)
  // the real range is [s + base, e + base) in the element type; everything that is logged is relative to base again, so
  // ranges next to the maximum of 32- and 64-bit types stay within the checker's integers
  unsigned long long base = 0;
};
static unsigned long long g_base = 0;
static int g_w = 64;
static long long rel(long long x) {
  if (!g_base) return x;
  unsigned long long d = (unsigned long long)x - g_base;
  if (g_w < 64) {
    d &= (1ULL << g_w) - 1;
    if (d >> (g_w - 1)) return (long long)d - (1LL << g_w);
  }
  long long r = (long long)d;
  return r < -1000000 ? -999999 : r > 1000000 ? 999999 : r;   // far outside any range driven: one sentinel value
}

static vt::Trace tr;

static string ev_json(const vshim::Event& e) {
  vt::J j;
  if (e.op == "fin") {
    j.str("e", "fin").num("t", e.t);
  } else if (e.op == "joined") {
    j.str("e", "joined").num("t", e.obj);
  } else {
    j.str("e", "a").num("t", e.t).str("op", e.op).num("obj", e.obj).num("a", rel(e.a)).num("b", rel(e.b)).num("ret", rel(e.ret)).num("ok", e.ok);
  }
  return j.done();
}

template <typename IntT>
static void run_once(const Cfg& c, const vector<int>& prefix, function<int(int)> chooser) {
  vshim::g.reset(prefix);
  vshim::g.chooser = chooser;
  g_base = c.base;
  g_w = (int)(8 * sizeof(IntT));
  vector<string> lines;
  mutex lm;  // only contended if the code under test stops using atomics (then workers run unscheduled)
  vshim::g.on_event = [&](const vshim::Event& e) {
    lock_guard<mutex> g(lm);
    lines.push_back(ev_json(e));
    // a run that goes on claiming blocks for ever (a cursor that wrapped, a loop that lost its bound) is cut off here and
    // reported as an event of its own instead of hanging the check
    if (lines.size() > 60000) {
      string all;
      for (size_t i = 0; i < 400 && i < lines.size(); i++) all += lines[i] + "\n";
      all += "{\"e\":\"Runaway\",\"events\":" + to_string(lines.size()) + "}";
      tr.emit(all);
      tr.stats();
      fflush(nullptr);
      _exit(0);
    }
  };
  {
    vt::J j;
    j.str("e", "Reset").str("variant", c.variant).num("s", c.s).num("end", c.e).num("blk", c.blk).num("n", c.n);
    j.ints("ts", vector<long long>(c.ts.begin(), c.ts.end())).num("bits", c.bits).num("free", 0);
    lines.push_back(j.done());
  }
  auto fn = [&](IntT v, size_t thread_num) -> bool {
    bool r = c.ts.count(rel((long long)v)) != 0;
    vt::J j;
    j.str("e", "call").num("t", vshim::my_id).num("v", rel((long long)v)).num("tn", (long long)thread_num).num("r", r);
    lock_guard<mutex> g(lm);
    lines.push_back(j.done());
    return r;
  };
  string ret_line;
  try {
    if (c.variant == "range") {
      IntT r = phosg::parallel_range<IntT>(fn, (IntT)((unsigned long long)c.s + c.base), (IntT)((unsigned long long)c.e + c.base), c.auto_n ? 0 : c.n, nullptr);
      vt::J j;
      j.str("e", "ret").num("val", rel((long long)r)).raw("set", "[]").str("exc", "");
      ret_line = j.done();
    } else if (c.variant == "blocks") {
      IntT r = phosg::parallel_range_blocks<IntT>(fn, (IntT)((unsigned long long)c.s + c.base), (IntT)((unsigned long long)c.e + c.base), (IntT)c.blk, c.auto_n ? 0 : c.n, nullptr);
      vt::J j;
      j.str("e", "ret").num("val", rel((long long)r)).raw("set", "[]").str("exc", "");
      ret_line = j.done();
    } else {
      auto r = phosg::parallel_range_blocks_multi<IntT>(fn, (IntT)((unsigned long long)c.s + c.base), (IntT)((unsigned long long)c.e + c.base), (IntT)c.blk, c.auto_n ? 0 : c.n, nullptr);
      vector<long long> v;
      for (auto x : r) v.push_back(rel((long long)x));
      sort(v.begin(), v.end());
      vt::J j;
      j.str("e", "ret").num("val", -1).ints("set", v).str("exc", "");
      ret_line = j.done();
    }
  } catch (const exception& ex) {
    vt::J j;
    j.str("e", "ret").num("val", -1).raw("set", "[]").str("exc", vt::exc_name(ex));
    ret_line = j.done();
  }
  // anomalies noticed by the shim (worker abandoned without join, detach)
  for (auto& a : vshim::g.anomalies) lines.push_back("{\"e\":\"" + a + "\"}");
  lines.push_back(ret_line);
  string all;
  for (auto& l : lines) {
    all += l;
    all += "\n";
  }
  // one write for the whole run
  tr.events += lines.size() - 1;
  all.pop_back();
  tr.emit(all);
  tr.histories++;
  vshim::g.on_event = nullptr;
}

static vector<Cfg> configs(const string& variant, int n, int maxlen) {
  vector<Cfg> out;
  vector<long long> blks = variant == "range" ? vector<long long>{1} : vector<long long>{1, 2};
  for (int len = 0; len <= maxlen; len++)
    for (long long blk : blks) {
      if (len % blk) continue;
      for (unsigned mask = 0; mask < (1u << len); mask++) {
        Cfg c;
        c.variant = variant;
        c.s = 5;
        c.e = 5 + len;
        c.blk = blk;
        c.n = n;
        for (int i = 0; i < len; i++)
          if (mask & (1u << i)) c.ts.insert(5 + i);
        out.push_back(c);
      }
    }
  return out;
}

int main(int argc, char** argv) {
  if (argc < 3) return 2;
  string mode = argv[1];
  tr.open(argv[2]);
  if (mode == "dfs") {
    string variant = argv[3];
    int n = atoi(argv[4]), maxlen = atoi(argv[5]);
    long maxruns = atol(argv[6]);
    int shard = atoi(argv[7]), nshards = atoi(argv[8]);
    auto cfgs = configs(variant, n, maxlen);
    long complete = 0, truncated = 0;
    for (size_t ci = 0; ci < cfgs.size(); ci++) {
      if ((int)(ci % nshards) != shard) continue;
      vector<int> prefix;
      long runs = 0;
      bool done = false;
      while (!done && runs < maxruns) {
        run_once<uint64_t>(cfgs[ci], prefix, nullptr);
        runs++;
        // backtrack: last decision with an untried option
        vector<int> taken = vshim::g.taken, nopts = vshim::g.nopts;
        int i = (int)taken.size() - 1;
        while (i >= 0 && taken[i] + 1 >= nopts[i]) i--;
        if (i < 0) {
          done = true;
        } else {
          prefix.assign(taken.begin(), taken.begin() + i);
          prefix.push_back(taken[i] + 1);
        }
      }
      if (done)
        complete++;
      else
        truncated++;
      tr.nontrivial(variant + to_string(cfgs[ci].e - cfgs[ci].s) + "/" + to_string(cfgs[ci].blk) + "/" + to_string(cfgs[ci].ts.size()));
    }
    string extra = "\"configs_complete\":" + to_string(complete) + ",\"configs_truncated\":" + to_string(truncated);
    tr.stats(extra.c_str());
    return 0;
  }
  if (mode == "rand") {
    string variant = argv[3];
    int n = atoi(argv[4]), maxlen = atoi(argv[5]);
    long runs = atol(argv[6]);
    vt::Rng r(strtoull(argv[7], nullptr, 10));
    auto cfgs = configs(variant, n, maxlen);
    for (long i = 0; i < runs; i++) {
      Cfg c = cfgs[r.below(cfgs.size())];
      if (r.chance(15)) {  // the automatic thread count (the shim has 2 "cores")
        c.auto_n = true;
        c.n = 2;
      }
      run_once<uint64_t>(c, {}, [&](int k) { return (int)r.below(k); });
      tr.nontrivial(variant + to_string(c.e - c.s) + "/" + to_string(c.blk) + "/" + to_string(c.ts.size()) + "/" + to_string(vshim::g.taken.size() / 4));
    }
    tr.stats();
    return 0;
  }
  if (mode == "signed") {
    // signed element types: ranges that are negative, cross zero, or touch the extremes of int8_t
    long runs = atol(argv[3]);
    vt::Rng r(strtoull(argv[4], nullptr, 10));
    for (long i = 0; i < runs; i++) {
      Cfg c;
      int which = (int)r.below(3);
      c.variant = which == 0 ? "range" : which == 1 ? "blocks" : "multi";
      c.n = 1 + (int)r.below(3);
      c.blk = c.variant == "range" ? 1 : 1 + (long long)r.below(3);
      int len = (int)r.below(4) * (int)c.blk;
      bool narrow = r.chance(40);
      c.bits = narrow ? 8 : 64;
      switch (r.below(narrow ? 5 : 3)) {
        case 0: c.s = -(long long)r.below(len + 2); break;          // crosses or touches zero
        case 1: c.s = -10 - len; break;                             // all negative
        case 2: c.s = -1; break;
        case 3: c.s = -128; break;                                  // int8_t minimum
        default: c.s = 127 - len - (long long)r.below((uint64_t)(c.n * c.blk + 2)); break;    // up to / near the int8_t maximum
      }
      c.e = c.s + len;
      // int8_t ranges WIDER than the type's positive maximum (the difference end - start does not fit the type itself),
      // with block sizes that divide them: every value exactly once, no spurious argument error
      if (narrow && c.variant != "range" && r.chance(12)) {
        static const long long W[][3] = {{-100, 100, 50}, {-100, 100, 100}, {-100, 100, 25}, {-100, 100, 40}, {-128, 127, 85},
            {-128, 127, 51}, {-128, 127, 15}, {-128, 126, 127}, {-64, 64, 128}, {-90, 90, 60}};
        const long long* w = W[r.below(10)];
        c.s = w[0], c.e = w[1], c.blk = w[2];
        len = (int)(c.e - c.s);
      }
      for (int k = 0; k < len; k++)
        if (r.chance(len > 20 ? 2 : 25)) c.ts.insert(c.s + k);
      if (narrow)
        run_once<int8_t>(c, {}, [&](int k) { return (int)r.below(k); });
      else
        run_once<int64_t>(c, {}, [&](int k) { return (int)r.below(k); });
      tr.nontrivial("signed" + c.variant + to_string(len) + to_string(c.n) + (c.s < 0 && c.e > 0 ? "x" : ""));
    }
    tr.stats();
    return 0;
  }
  if (mode == "wrap") {
    long runs = atol(argv[3]);
    vt::Rng r(strtoull(argv[4], nullptr, 10));
    for (long i = 0; i < runs; i++) {
      Cfg c;
      int which = (int)r.below(3);
      c.variant = which == 0 ? "range" : which == 1 ? "blocks" : "multi";
      c.bits = 8;
      c.n = 2 + (int)r.below(2);
      c.blk = c.variant == "range" ? 1 : 1 + (long long)r.below(3);
      int len = (int)r.below(3) * (int)c.blk;
      // the end lies 0..(threads * block + 1) below the maximum of the type: every distance at which a cursor that is
      // advanced once too often (by 1 or by a whole block, by one or by every worker) would wrap
      c.e = 255 - (long long)r.below((uint64_t)(c.n * c.blk + 2));
      c.s = c.e - len;
      if (r.chance(30) && len) c.ts.insert(c.s + r.below(len));
      // the same distances below the maximum of the 32- and 64-bit types (logged relative to a base just below it)
      switch (i % 5) {
        case 1: {
          Cfg h = c;
          h.bits = 32;
          h.base = 4294967295ULL - 255;   // relative 255 = UINT32_MAX
          run_once<uint32_t>(h, {}, [&](int k) { return (int)r.below(k); });
          break;
        }
        case 2: {
          Cfg h = c;
          h.bits = 64;
          h.base = 18446744073709551615ULL - 255;   // relative 255 = UINT64_MAX
          run_once<uint64_t>(h, {}, [&](int k) { return (int)r.below(k); });
          break;
        }
        case 3: {
          Cfg h = c;
          h.bits = 32;
          h.base = 2147483647ULL - 255;   // relative 255 = INT32_MAX
          run_once<int32_t>(h, {}, [&](int k) { return (int)r.below(k); });
          break;
        }
        case 4: {
          Cfg h = c;
          h.bits = 64;
          h.base = 9223372036854775807ULL - 255;   // relative 255 = INT64_MAX
          run_once<int64_t>(h, {}, [&](int k) { return (int)r.below(k); });
          break;
        }
        default: run_once<uint8_t>(c, {}, [&](int k) { return (int)r.below(k); });
      }
      tr.nontrivial("wrap" + c.variant + to_string(len) + to_string(c.n) + to_string(i % 5));
    }
    tr.stats();
    return 0;
  }
  return 2;
}
