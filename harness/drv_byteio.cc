// C01 / C02 driver: typed binary writers and readers (spec/ByteIO).
//   drv_byteio rt     <out> <tier> <seed> <shard> <nshards>   round-trip histories (C01)
//   drv_byteio bounds <out> <tier> <seed> <shard> <nshards>   boundary offsets/sizes, cursor histories (C02)
// Built with ASan and -fno-access-control (to read StringReader::data for the
// sub-reader placement check).  Every accessor NAME is exercised through the
// tables below; values are handed to / taken from the library as C++ scalars
// and logged as big-endian digit arrays of their bit pattern.
#include <math.h>

#include <phosg/Strings.hh>

#include <memory>

#include "trace.hh"

using namespace std;
using namespace phosg;

typedef vector<uint8_t> Bytes;
static string jb(const Bytes& b) { return vt::J::arr_bytes(b.data(), b.size()); }
static string js(const string& s) { return vt::J::arr_bytes(s.data(), s.size()); }
static string d8(uint64_t v) { return vt::J::arr_u64(v, 8); }

static Bytes digits_of(uint64_t v, int w) {
  Bytes d(w);
  for (int i = 0; i < w; i++) d[i] = (v >> (8 * (w - 1 - i))) & 0xFF;
  return d;
}
template <typename T>
static T from_bits(uint64_t v) {
  T t;
  if constexpr (sizeof(T) == 1) {
    uint8_t x = v;
    memcpy(&t, &x, 1);
  } else if constexpr (sizeof(T) == 2) {
    uint16_t x = v;
    memcpy(&t, &x, 2);
  } else if constexpr (sizeof(T) == 4) {
    uint32_t x = v;
    memcpy(&t, &x, 4);
  } else {
    uint64_t x = v;
    memcpy(&t, &x, 8);
  }
  return t;
}
template <typename T>
static uint64_t to_bits(T t) {
  if constexpr (sizeof(T) == 1) {
    uint8_t x;
    memcpy(&x, &t, 1);
    return x;
  } else if constexpr (sizeof(T) == 2) {
    uint16_t x;
    memcpy(&x, &t, 2);
    return x;
  } else if constexpr (sizeof(T) == 4) {
    uint32_t x;
    memcpy(&x, &t, 4);
    return x;
  } else {
    uint64_t x;
    memcpy(&x, &t, 8);
    return x;
  }
}

// ---------------------------------------------------------------- accessor tables
struct WAcc {
  string name;
  int w;
  string ord;  // n r b l
  bool is_float;
  function<void(StringWriter&, uint64_t)> put;
  function<void(StringWriter&, size_t, uint64_t)> pput;
  function<void(BufferWriter&, uint64_t)> bput;
  function<void(BufferWriter&, size_t, uint64_t)> bpput;
};
struct RAcc {
  string name;
  int w, rw;
  string ord;
  bool sx, is_float;
  function<uint64_t(StringReader&, bool)> get;
  function<uint64_t(const StringReader&, size_t)> pget;
};
static vector<WAcc> W;
static vector<RAcc> R;

#define WACC(NAME, T, ORD, FL)                                                                   \
  W.push_back({#NAME, (int)sizeof(T), ORD, FL,                                                   \
      [](StringWriter& w, uint64_t v) { w.put_##NAME(from_bits<T>(v)); },                        \
      [](StringWriter& w, size_t o, uint64_t v) { w.pput_##NAME(o, from_bits<T>(v)); },          \
      [](BufferWriter& w, uint64_t v) { w.put_##NAME(from_bits<T>(v)); },                        \
      [](BufferWriter& w, size_t o, uint64_t v) { w.pput_##NAME(o, from_bits<T>(v)); }});
#define WACC4(BASE, T, FL) WACC(BASE, T, "n", FL) WACC(BASE##r, T, "r", FL) WACC(BASE##b, T, "b", FL) WACC(BASE##l, T, "l", FL)
#define RACC(NAME, T, WIDTH, ORD, SX, FL)                                                        \
  R.push_back({#NAME, WIDTH, (int)sizeof(T), ORD, SX, FL,                                        \
      [](StringReader& r, bool adv) { return to_bits<T>(r.get_##NAME(adv)); },                   \
      [](const StringReader& r, size_t o) { return to_bits<T>(r.pget_##NAME(o)); }});
#define RACC2(BASE, T, WIDTH, SX, FL) RACC(BASE##b, T, WIDTH, "b", SX, FL) RACC(BASE##l, T, WIDTH, "l", SX, FL)

static void init_tables() {
  WACC(u8, uint8_t, "n", false)
  WACC(s8, int8_t, "n", false)
  WACC4(u16, uint16_t, false)
  WACC4(s16, int16_t, false)
  WACC4(u32, uint32_t, false)
  WACC4(s32, int32_t, false)
  WACC4(u64, uint64_t, false)
  WACC4(s64, int64_t, false)
  WACC4(f32, float, true)
  WACC4(f64, double, true)
  RACC(u8, uint8_t, 1, "b", false, false)
  RACC(s8, int8_t, 1, "b", true, false)
  RACC2(u16, uint16_t, 2, false, false)
  RACC2(s16, int16_t, 2, true, false)
  RACC2(u24, uint32_t, 3, false, false)
  RACC2(s24, int32_t, 3, true, false)
  RACC2(u32, uint32_t, 4, false, false)
  RACC2(s32, int32_t, 4, true, false)
  RACC2(u48, uint64_t, 6, false, false)
  RACC2(s48, int64_t, 6, true, false)
  RACC2(u64, uint64_t, 8, false, false)
  RACC2(s64, int64_t, 8, true, false)
  RACC2(f32, float, 4, false, true)
  RACC2(f64, double, 8, false, true)
}

static vt::Trace tr;

static uint64_t interesting(vt::Rng& r, int w, bool is_float) {
  uint64_t mask = w == 8 ? ~0ULL : ((1ULL << (8 * w)) - 1);
  if (is_float && r.chance(40)) {
    if (w == 4) {
      static const uint32_t f[] = {0x7FC00001, 0xFFC12345, 0x7F800001, 0xFF800000, 0x7F800000, 0x80000000, 0x00000001,
          0x007FFFFF, 0x3F800000, 0xBF800000, 0x7F7FFFFF, 0x00800000};
      return f[r.below(12)];
    }
    static const uint64_t d[] = {0x7FF8000000000001ULL, 0xFFF8123456789ABCULL, 0x7FF0000000000001ULL,
        0xFFF0000000000000ULL, 0x8000000000000000ULL, 0x0000000000000001ULL, 0x000FFFFFFFFFFFFFULL,
        0x3FF0000000000000ULL, 0x7FEFFFFFFFFFFFFFULL};
    return d[r.below(9)];
  }
  switch (r.below(9)) {
    case 0: return 0;
    case 1: return mask;
    case 2: return 1ULL << (8 * w - 1);
    case 3: return mask >> 1;
    case 4: return ((uint64_t)(1 + r.below(255))) << (8 * r.below(w));  // one non-zero lane
    case 5: return 0x0102030405060708ULL & mask;
    case 6: return 0x80FF7F0180FF7F01ULL & mask;
    default: return r.next() & mask;
  }
}

// ---------------------------------------------------------------- reader event helpers
struct RdCtx {
  StringReader* r;
  const uint8_t* base;
};
template <typename F>
static string guarded(F f) {
  try {
    f();
    return "ok";
  } catch (const exception& e) {
    return vt::exc_name(e);
  }
}
static void ev_get(StringReader& r, const RAcc& a, bool adv) {
  uint64_t v = 0;
  string out = guarded([&] { v = a.get(r, adv); });
  vt::J j;
  j.str("e", "get").str("name", a.name).str("ord", a.ord).num("w", a.w).num("rw", a.rw).num("sx", a.sx).num("adv", adv);
  j.str("out", out).raw("ret", jb(digits_of(v, a.rw))).raw("where", d8(r.where()));
  tr.emit(j);
}
static void ev_pget(StringReader& r, const RAcc& a, uint64_t off) {
  uint64_t v = 0;
  string out = guarded([&] { v = a.pget(r, off); });
  vt::J j;
  j.str("e", "pget").str("name", a.name).str("ord", a.ord).num("w", a.w).num("rw", a.rw).num("sx", a.sx).raw("off", d8(off));
  j.str("out", out).raw("ret", jb(digits_of(v, a.rw))).raw("where", d8(r.where()));
  tr.emit(j);
}
// the template forms with an explicit span size (a record header followed by `size - sizeof(T)` further bytes)
static void ev_gspan(StringReader& r, int which, bool positional, uint64_t off, uint64_t size, bool adv) {
  uint64_t v = 0;
  int w = which == 0 ? 1 : which == 1 ? 2 : which == 2 ? 4 : 8;
  const char* ord = which == 0 ? "b" : which == 1 ? "l" : which == 2 ? "l" : "b";
  string out = guarded([&] {
    if (positional) {
      if (which == 0) v = r.pget<uint8_t>(off, size);
      else if (which == 1) v = r.pget<le_uint16_t>(off, size);
      else if (which == 2) v = r.pget<le_uint32_t>(off, size);
      else v = r.pget<be_uint64_t>(off, size);
    } else {
      if (which == 0) v = r.get<uint8_t>(adv, size);
      else if (which == 1) v = r.get<le_uint16_t>(adv, size);
      else if (which == 2) v = r.get<le_uint32_t>(adv, size);
      else v = r.get<be_uint64_t>(adv, size);
    }
  });
  vt::J j;
  j.str("e", "gspan").str("ord", ord).num("w", w).num("pos", positional).raw("off", d8(off)).raw("size", d8(size)).num("adv", adv);
  j.str("out", out).raw("ret", jb(digits_of(v, w))).raw("where", d8(r.where()));
  tr.emit(j);
}
static void ev_read(StringReader& r, const string& kind, uint64_t off, uint64_t size, bool adv) {
  string ret;
  string out;
  size_t n = r.size();
  bool isvoid = kind.back() == 'v';
  if (!isvoid) {
    out = guarded([&] {
      if (kind == "read") ret = r.read(size, adv);
      else if (kind == "readx") ret = r.readx(size, adv);
      else if (kind == "pread") ret = r.pread(off, size);
      else ret = r.preadx(off, size);
    });
  } else {
    // destination sized for what may legitimately be copied; ASan guards the rest
    size_t cap = (size_t)min<uint64_t>(size, n);
    uint8_t* buf = (uint8_t*)malloc(cap ? cap : 1);
    size_t cnt = 0;
    out = guarded([&] {
      if (kind == "readv") cnt = r.read(buf, size, adv);
      else if (kind == "readxv") {
        r.readx(buf, size, adv);
        cnt = size;
      } else if (kind == "preadv") cnt = r.pread(off, buf, size);
      else {
        r.preadx(off, buf, size);
        cnt = size;
      }
    });
    if (out == "ok") ret.assign((const char*)buf, min(cnt, cap));
    if (out == "ok" && cnt > cap) ret = "\xFF<count larger than the buffer>";
    free(buf);
  }
  vt::J j;
  j.str("e", "read").str("kind", kind).raw("off", d8(off)).raw("size", d8(size)).num("adv", adv).str("out", out);
  j.raw("ret", js(ret)).raw("where", d8(r.where()));
  tr.emit(j);
  tr.nontrivial("read" + kind + out + to_string(min<size_t>(ret.size(), 2)));
}
static void ev_simple(StringReader& r, const string& e, function<void(vt::J&)> body) {
  vt::J j;
  j.str("e", e);
  body(j);
  j.raw("where", d8(r.where()));
  tr.emit(j);
}
static void ev_skip(StringReader& r, uint64_t k) {
  string out = guarded([&] { r.skip(k); });
  ev_simple(r, "skip", [&](vt::J& j) { j.raw("size", d8(k)).str("out", out); });
}
static void ev_go(StringReader& r, uint64_t k) {
  r.go(k);
  ev_simple(r, "go", [&](vt::J& j) { j.raw("off", d8(k)); });
}
static void ev_cstr(StringReader& r, bool adv) {
  string ret, out = guarded([&] { ret = r.get_cstr(adv); });
  ev_simple(r, "cstr", [&](vt::J& j) { j.num("adv", adv).str("out", out).raw("ret", js(ret)); });
}
static void ev_pcstr(StringReader& r, uint64_t off) {
  string ret, out = guarded([&] { ret = r.pget_cstr(off); });
  ev_simple(r, "pcstr", [&](vt::J& j) { j.raw("off", d8(off)).str("out", out).raw("ret", js(ret)); });
}
static void ev_line(StringReader& r, bool adv) {
  string ret, out = guarded([&] { ret = r.get_line(adv); });
  ev_simple(r, "line", [&](vt::J& j) { j.num("adv", adv).str("out", out).raw("ret", js(ret)); });
}
static void ev_skipif(StringReader& r, const string& d) {
  bool ret = false;
  string out = guarded([&] { ret = r.skip_if(d.data(), d.size()); });
  ev_simple(r, "skipif", [&](vt::J& j) { j.raw("data", js(d)).str("out", out).num("ret", ret); });
}
static void ev_peek(StringReader& r, uint64_t size) {
  string ret, out = guarded([&] {
    const char* p = r.peek(size);
    ret.assign(p, size);
  });
  ev_simple(r, "peek", [&](vt::J& j) { j.raw("size", d8(size)).str("out", out).raw("ret", js(ret)); });
}
static void ev_eof(StringReader& r) {
  ev_simple(r, "eof", [&](vt::J& j) { j.num("ret", r.eof()).raw("rem", d8(r.remaining())).raw("size", d8(r.size())); });
}
static void ev_sub(StringReader& r, const string& kind, uint64_t off, uint64_t size) {
  StringReader child;
  string out = guarded([&] {
    if (kind == "sub1") child = r.sub(off);
    else if (kind == "sub2") child = r.sub(off, size);
    else if (kind == "subx1") child = r.subx(off);
    else child = r.subx(off, size);
  });
  string data;
  long long delta = -1;
  if (out == "ok") {
    if (child.size() <= r.size()) data = child.all();  // only dereference a child that claims to be inside
    if (child.data && r.data) delta = (long long)(child.data - r.data);
  }
  ev_simple(r, "sub", [&](vt::J& j) {
    j.str("kind", kind).raw("off", d8(off)).raw("size", d8(size)).str("out", out).raw("csize", d8(child.size()));
    j.raw("data", js(data)).num("delta", delta);
  });
  tr.nontrivial("sub" + kind + out + to_string(min<size_t>(data.size(), 2)));
}
static void ev_trunc(StringReader& r, uint64_t n) {
  string out = guarded([&] { r.truncate(n); });
  ev_simple(r, "trunc", [&](vt::J& j) { j.raw("n", d8(n)).str("out", out); });
}
static void ev_rnew(const string& src, const void* p, size_t n) {
  vt::J j;
  j.str("e", "rnew").str("src", src).bytes("data", p, n);
  tr.emit(j);
}
static void reset_event() {
  tr.emit("{\"e\":\"Reset\",\"host\":\"l\"}");
  tr.histories++;
}

// ---------------------------------------------------------------- C01 histories
struct Item {
  int kind;  // 0 scalar, 1 raw, 2 cstr, 3 line
  size_t off;
  int wacc;
  size_t len;
};
static const RAcc& reader_for(const WAcc& w, bool other_sign, vt::Rng& r) {
  // the matching reader accessor: same width, byte order as stored on this (little-endian) host
  string ord = (w.ord == "n" || w.ord == "l") ? "l" : "b";
  vector<const RAcc*> c;
  for (auto& a : R)
    if (a.w == w.w && a.rw == w.w && a.is_float == w.is_float && (a.w == 1 || a.ord == ord)) c.push_back(&a);
  if (c.empty())
    for (auto& a : R)
      if (a.w == w.w && a.rw == w.w && (a.w == 1 || a.ord == ord)) c.push_back(&a);
  return *c[r.below(c.size())];
}

static void rt_history(vt::Rng& r) {
  reset_event();
  StringWriter sw;
  vector<Item> items;
  int nops = (int)r.range(1, 14);
  for (int i = 0; i < nops; i++) {
    unsigned c = r.below(100);
    if (c < 60) {
      int wi = (int)r.below(W.size());
      const WAcc& a = W[wi];
      uint64_t v = interesting(r, a.w, a.is_float);
      items.push_back({0, sw.size(), wi, (size_t)a.w});
      a.put(sw, v);
      vt::J j;
      j.str("e", "put").str("name", a.name).str("ord", a.ord).raw("v", jb(digits_of(v, a.w))).raw("bytes", js(sw.str()));
      tr.emit(j);
      tr.nontrivial("put" + a.name);
    } else if (c < 75) {
      const WAcc& a = W[r.below(W.size())];
      uint64_t v = interesting(r, a.w, a.is_float);
      size_t off = r.chance(50) ? r.below(sw.size() + 1) : sw.size() + r.below(7);
      bool past = off + a.w > sw.size();
      string out = guarded([&] { a.pput(sw, off, v); });
      vt::J j;
      j.str("e", "pput").str("name", a.name).str("ord", a.ord).raw("v", jb(digits_of(v, a.w))).raw("off", d8(off));
      j.str("out", out).raw("bytes", js(sw.str()));
      tr.emit(j);
      tr.nontrivial("pput" + a.name + (past ? "past" : "in"));
      if (past) items.clear();  // layout after a zero-extension is read back positionally only
    } else if (c < 85) {
      string blk;
      for (int k = (int)r.below(6); k > 0; k--) blk.push_back((char)r.below(256));
      // a third of the raw blocks is a BACK-REFERENCE: the source is a slice of the writer's own buffer (as an LZ-style
      // copy does), handed over as pointer + size or as the buffer string itself; the append may have to reallocate
      int self = sw.size() ? (int)r.below(3) : 0;
      if (self == 1) {
        size_t from = r.below(sw.size()), n = 1 + r.below(sw.size() - from);
        if (r.chance(30)) from = 0, n = sw.size();
        blk = sw.str().substr(from, n);
        items.push_back({1, sw.size(), 0, blk.size()});
        if (from == 0 && n == sw.size() && r.chance(50))
          sw.write(sw.str());
        else
          sw.write(sw.str().data() + from, n);
      } else {
      items.push_back({1, sw.size(), 0, blk.size()});
      if (r.chance(50))
        sw.write(blk);
      else
        sw.write(blk.data(), blk.size());
      }
      vt::J j;
      j.str("e", "swrite").raw("data", js(blk)).raw("bytes", js(sw.str()));
      tr.emit(j);
    } else if (c < 93) {
      string s;
      for (int k = (int)r.below(5); k > 0; k--) s.push_back((char)(1 + r.below(255)));
      items.push_back({2, sw.size(), 0, s.size()});
      string blk = s + string(1, '\0');
      sw.write(blk);
      vt::J j;
      j.str("e", "swrite").raw("data", js(blk)).raw("bytes", js(sw.str()));
      tr.emit(j);
    } else {
      string s;
      for (int k = (int)r.below(5); k > 0; k--) {
        char ch = (char)r.below(256);
        if (ch == '\n') ch = 'x';
        s.push_back(ch);
      }
      if (r.chance(30)) s.push_back('\r');
      items.push_back({3, sw.size(), 0, s.size()});
      string blk = s + "\n";
      sw.write(blk);
      vt::J j;
      j.str("e", "swrite").raw("data", js(blk)).raw("bytes", js(sw.str()));
      tr.emit(j);
    }
  }
  // read back, in order, through the matching accessors
  string data = sw.str();
  StringReader rd(data);
  ev_rnew("sw", data.data(), data.size());
  for (auto& it : items) {
    if (rd.where() != it.off) ev_go(rd, it.off);
    if (it.kind == 0) {
      const RAcc& a = reader_for(W[it.wacc], false, r);
      if (r.chance(25)) ev_get(rd, a, false);
      ev_get(rd, a, true);
      tr.nontrivial("get" + a.name);
    } else if (it.kind == 1) {
      static const char* kinds[] = {"read", "readx", "readv", "readxv"};
      ev_read(rd, kinds[r.below(4)], 0, it.len, true);
    } else if (it.kind == 2) {
      if (r.chance(30)) ev_pcstr(rd, it.off);
      ev_cstr(rd, true);
    } else {
      if (r.chance(30)) ev_line(rd, false);
      ev_line(rd, true);
    }
  }
  ev_eof(rd);
  // an empty raw block as the LAST item: zero-size reads with the cursor exactly at the end succeed in every form
  ev_go(rd, data.size());
  for (const char* k : {"readx", "read", "readv", "readxv"}) ev_read(rd, k, 0, 0, true);
  for (const char* k : {"preadx", "pread", "preadv", "preadxv"}) ev_read(rd, k, data.size(), 0, false);
  // positional reads in random order with every accessor family (incl. 24/48-bit, sign-extending)
  for (int k = 0; k < 10 && data.size(); k++) {
    const RAcc& a = R[r.below(R.size())];
    size_t off = r.below(data.size() + 1);
    ev_pget(rd, a, off);
    tr.nontrivial("pget" + a.name);
  }
  // cursor reads with arbitrary accessors from arbitrary positions
  for (int k = 0; k < 6 && data.size(); k++) {
    ev_go(rd, r.below(data.size() + 1));
    const RAcc& a = R[r.below(R.size())];
    ev_get(rd, a, r.chance(70));
    tr.nontrivial("get" + a.name);
  }
  if (r.chance(30)) {
    sw.reset();
    vt::J j;
    j.str("e", "sreset").raw("bytes", js(sw.str()));
    tr.emit(j);
  }
}

static void bw_history(vt::Rng& r, bool boundary) {
  reset_event();
  size_t cap = r.below(25);
  uint8_t* buf = (uint8_t*)malloc(cap ? cap : 1);
  memset(buf, 0xEE, cap);
  BufferWriter bw(buf, cap);
  size_t cur = 0;
  {
    vt::J j;
    j.str("e", "bwnew").bytes("bytes", buf, cap).num("cur", 0);
    tr.emit(j);
  }
  auto boundary_off = [&]() -> uint64_t {
    static const uint64_t big[] = {1ULL << 31, 1ULL << 32, (1ULL << 63) - 1, 1ULL << 63, ~0ULL, ~0ULL - 1, ~0ULL - 7};
    switch (r.below(6)) {
      case 0: return cap;
      case 1: return cap + 1;
      case 2: return cap ? cap - 1 : 0;
      case 3: return big[r.below(7)];
      case 4: return ~0ULL - cap + r.below(3);
      default: return r.below(cap + 2);
    }
  };
  int nops = (int)r.range(1, 10);
  for (int i = 0; i < nops; i++) {
    unsigned c = r.below(4);
    string out, e;
    vt::J j;
    if (c == 0) {
      const WAcc& a = W[r.below(W.size())];
      uint64_t v = interesting(r, a.w, a.is_float);
      out = guarded([&] { a.bput(bw, v); });
      if (out == "ok") cur += a.w;
      j.str("e", "bput").str("name", a.name).str("ord", a.ord).raw("v", jb(digits_of(v, a.w)));
      tr.nontrivial("bput" + a.name + out);
    } else if (c == 1) {
      const WAcc& a = W[r.below(W.size())];
      uint64_t v = interesting(r, a.w, a.is_float);
      uint64_t off = boundary ? boundary_off() : r.below(cap + 2);
      out = guarded([&] { a.bpput(bw, off, v); });
      j.str("e", "bpput").str("name", a.name).str("ord", a.ord).raw("v", jb(digits_of(v, a.w))).raw("off", d8(off));
      tr.nontrivial("bpput" + to_string(a.w) + out);
    } else if (c == 2) {
      string blk;
      for (int k = (int)r.below(6); k > 0; k--) blk.push_back((char)r.below(256));
      out = guarded([&] { bw.write(blk); });
      if (out == "ok") cur += blk.size();
      j.str("e", "bwrite").raw("data", js(blk));
    } else {
      string blk;
      for (int k = (int)r.below(6); k > 0; k--) blk.push_back((char)r.below(256));
      uint64_t off = boundary ? boundary_off() : r.below(cap + 2);
      out = guarded([&] {
        if (r.chance(50))
          bw.pwrite(off, blk);
        else
          bw.pwrite(off, blk.data(), blk.size());
      });
      j.str("e", "bpwrite").raw("data", js(blk)).raw("off", d8(off));
      tr.nontrivial("bpwrite" + out + to_string(blk.size() > 0));
    }
    j.str("out", out).bytes("bytes", buf, cap).num("cur", (long long)cur);
    tr.emit(j);
  }
  // read the buffer back through a reader
  StringReader rd(buf, cap);
  ev_rnew("data", buf, cap);
  for (int k = 0; k < 4 && cap; k++) ev_pget(rd, R[r.below(R.size())], r.below(cap + 1));
  free(buf);
}

static void bit_history(vt::Rng& r) {
  reset_event();
  BitWriter w;
  vector<int> bits;
  int n = (int)r.below(70);
  for (int i = 0; i < n; i++) {
    if (r.chance(6)) {
      size_t k = r.chance(80) ? r.below(bits.size() + 1) : bits.size() + 1 + r.below(3);
      string out = guarded([&] { w.truncate(k); });
      if (out == "ok") bits.resize(k);
      vt::J j;
      j.str("e", "bittrunc").num("n", (long long)k).str("out", out).raw("bytes", js(w.str())).num("size", (long long)w.size());
      tr.emit(j);
      tr.nontrivial("bittrunc" + out + to_string(k % 8));
    } else {
      bool b = r.chance(50);
      w.write(b);
      bits.push_back(b);
      vt::J j;
      j.str("e", "bit").num("b", b).str("out", "ok").raw("bytes", js(w.str())).num("size", (long long)w.size());
      tr.emit(j);
    }
  }
  string data = w.str();
  {
    vt::J j;
    j.str("e", "brnew").raw("data", js(data)).num("nbits", (long long)bits.size());
    tr.emit(j);
  }
  BitReader br(data.data(), bits.size());
  size_t pos = 0;
  auto bitsof = [](uint64_t v, int size) {
    string s = "[";
    for (int i = size - 1; i >= 0; i--) {
      s += ((v >> i) & 1) ? "1" : "0";
      if (i) s += ",";
    }
    return s + "]";
  };
  while (pos < bits.size()) {
    int size = (int)min<size_t>(1 + r.below(r.chance(20) ? 64 : 9), bits.size() - pos);
    bool adv = r.chance(85);
    uint64_t v = br.read(size, adv);
    if (adv) pos += size;
    vt::J j;
    j.str("e", "bread").num("size", size).num("adv", adv).raw("ret", bitsof(v, size)).num("where", (long long)br.where());
    tr.emit(j);
    tr.nontrivial("bread" + to_string(size > 8) + to_string(pos % 8));
    if (r.chance(20) && bits.size()) {
      size_t off = r.below(bits.size());
      int sz = (int)min<size_t>(1 + r.below(64), bits.size() - off);
      uint64_t pv = br.pread(off, sz);
      vt::J k;
      k.str("e", "bpread").num("off", (long long)off).num("size", sz).num("adv", 0).raw("ret", bitsof(pv, sz)).num("where", (long long)br.where());
      tr.emit(k);
    }
  }
  // the bit writer's bytes read through a byte reader too
  StringReader rd(data);
  ev_rnew("bits", data.data(), data.size());
  if (data.size()) ev_pget(rd, R[0], r.below(data.size()));
}

// ---------------------------------------------------------------- buffers beyond 64 KiB / 128 KiB
// The data follow a formula that the specification evaluates itself (event rnewgen / swgen), so that nothing of the size of
// the buffer has to be logged: byte i = (i * a + (i / 256) * b + c) mod 256.
static string gen_pattern(size_t n, unsigned a, unsigned b, unsigned c) {
  string s(n, 0);
  for (size_t i = 0; i < n; i++) s[i] = (char)((i * a + (i / 256) * b + c) & 0xFF);
  return s;
}
static void big_history(vt::Rng& r, int variant) {
  reset_event();
  size_t base = variant % 3 == 0 ? 65536 : variant % 3 == 1 ? 131072 : 65536 * 3;
  size_t n = base + 40 + r.below(300);
  unsigned a = 1 + 2 * (unsigned)r.below(100), b = (unsigned)r.below(256), c = (unsigned)r.below(256);
  string data = gen_pattern(n, a, b, c);
  uint8_t* buf = (uint8_t*)malloc(n);
  memcpy(buf, data.data(), n);
  StringReader rd(buf, n);
  {
    vt::J j;
    j.str("e", "rnewgen").num("n", n).num("a", a).num("b", b).num("c", c);
    tr.emit(j);
  }
  for (auto& acc : R) {
    uint64_t offs[] = {base - acc.w, base - 1, base, base + 1 + r.below(38), r.below(n - 8), n - acc.w, n - acc.w + 1};
    for (uint64_t off : offs) ev_pget(rd, acc, off);
    tr.nontrivial("pgetbig" + to_string(acc.w));
  }
  for (int k = 0; k < 6; k++) {
    ev_go(rd, k == 0 ? base - 1 : k == 1 ? base : base + r.below(40));
    ev_get(rd, R[r.below(R.size())], true);
    ev_read(rd, "read", 0, 1 + r.below(6), true);
  }
  free(buf);
  // the growable writer: filled with the pattern in one block, then positional writes beyond the 64 KiB marks; only a window
  // around the write is logged, the driver states whether anything outside the window changed
  StringWriter sw;
  sw.write(data);
  {
    vt::J j;
    j.str("e", "swgen").num("n", n).num("a", a).num("b", b).num("c", c).num("size", sw.size());
    tr.emit(j);
  }
  for (auto& acc : W) {
    uint64_t offs[] = {base - 1, base + r.below(40), n - acc.w, n - 1};
    for (uint64_t off : offs) {
      uint64_t v = interesting(r, acc.w, acc.is_float);
      string before = sw.str();
      string out = guarded([&] { acc.pput(sw, off, v); });
      const string& after = sw.str();
      size_t lo = off >= 8 ? off - 8 : 0, hi = min<size_t>(after.size(), off + 16);
      bool same = after.size() >= before.size();
      for (size_t i = 0; same && i < before.size(); i++)
        if ((i < lo || i >= hi) && before[i] != after[i]) same = false;
      for (size_t i = before.size(); same && i < after.size(); i++)
        if ((i < lo || i >= hi) && after[i] != 0) same = false;
      vt::J j;
      j.str("e", "pputw").str("name", acc.name).str("ord", acc.ord).raw("v", jb(digits_of(v, acc.w))).num("off", off);
      j.str("out", out).num("lo", lo).bytes("win", after.data() + lo, hi - lo).num("same", same).num("size", after.size());
      tr.emit(j);
      tr.nontrivial("pputbig" + to_string(acc.w));
    }
  }
}

// ---------------------------------------------------------------- C02 boundary sweeps
static vector<uint64_t> boundary_set(size_t n) {
  vector<uint64_t> b = {0, 1, n, n + 1, n + 7, 1ULL << 31, 1ULL << 32, (1ULL << 63) - 1, 1ULL << 63, (1ULL << 63) + 1,
      ~0ULL - n - 1, ~0ULL - n, ~0ULL - n + 1, ~0ULL - 7, ~0ULL - 5, ~0ULL - 2, ~0ULL - 1, ~0ULL};
  if (n > 0) b.push_back(n - 1);
  if (n > 2) b.push_back(n / 2);
  if (n > 6) b.push_back(n - 6), b.push_back(n - 3);
  sort(b.begin(), b.end());
  b.erase(unique(b.begin(), b.end()), b.end());
  return b;
}

static void bounds_sweep(vt::Rng& r, size_t n) {
  reset_event();
  uint8_t* buf = (uint8_t*)malloc(n ? n : 1);
  for (size_t i = 0; i < n; i++) buf[i] = (uint8_t)(r.chance(15) ? 0 : r.chance(10) ? '\n' : r.below(256));
  // the three ways of making a reader: over caller memory (exact-size heap block), over a std::string, owning a shared string
  // (the last two have a NUL right behind the data that does not belong to it)
  auto owned = make_shared<string>((const char*)buf, n);
  int ctor_kind = (int)r.below(3);
  StringReader rd = ctor_kind == 0 ? StringReader(buf, n) : ctor_kind == 1 ? StringReader(*owned) : StringReader(owned);
  if (ctor_kind == 2) owned.reset();  // the reader shares ownership: the caller's reference may go away
  ev_rnew("data", buf, n);
  auto B = boundary_set(n);
  // positional typed reads: one accessor per width class at every boundary offset
  for (uint64_t off : B)
    for (int k = 0; k < 6; k++) {
      const RAcc& a = R[r.below(R.size())];
      ev_pget(rd, a, off);
      tr.nontrivial("pget" + to_string(a.w) + (off <= n ? "in" : "out"));
    }
  // block reads: all (offset, size) pairs
  for (uint64_t off : B)
    for (uint64_t size : B) {
      ev_read(rd, "pread", off, size, false);
      ev_read(rd, "preadx", off, size, false);
      ev_read(rd, "preadv", off, size, false);
      ev_read(rd, "preadxv", off, size, false);
      ev_sub(rd, "sub2", off, size);
      ev_sub(rd, "subx2", off, size);
    }
  for (uint64_t off : B) {
    ev_sub(rd, "sub1", off, 0);
    ev_sub(rd, "subx1", off, 0);
    ev_pcstr(rd, off);
  }
  // cursor forms from every boundary cursor position
  for (uint64_t cur : B)
    for (uint64_t size : B) {
      static const char* kinds[] = {"read", "readx", "readv", "readxv"};
      for (const char* k : kinds) {
        ev_go(rd, cur);
        ev_read(rd, k, 0, size, true);
      }
      ev_go(rd, cur);
      ev_skip(rd, size);
      ev_go(rd, cur);
      ev_peek(rd, size);
    }
  for (uint64_t cur : B) {
    ev_go(rd, cur);
    ev_eof(rd);
    ev_go(rd, cur);
    ev_get(rd, R[r.below(R.size())], true);
    ev_go(rd, cur);
    ev_cstr(rd, true);
    ev_go(rd, cur);
    ev_line(rd, true);
    ev_go(rd, cur);
    ev_skipif(rd, string("ab").substr(0, r.below(3)));
  }
  free(buf);
}

// small scope for the line / C-string readers: EVERY string of length 0..4 over {'a', CR, LF, NUL}, read from every cursor
// position (advancing and peeking), through a reader over an exact-size heap block
static void line_sweep(int shard, int nshards) {
  static const char AL[] = {'a', '\r', '\n', '\0'};
  int counter = 0;
  for (int len = 0; len <= 4; len++) {
    int total = 1;
    for (int k = 0; k < len; k++) total *= 4;
    for (int code = 0; code < total; code++) {
      if ((counter++ % nshards) != shard) continue;
      reset_event();
      uint8_t* buf = (uint8_t*)malloc(len ? len : 1);
      for (int k = 0, c = code; k < len; k++, c /= 4) buf[k] = (uint8_t)AL[c % 4];
      StringReader rd(buf, len);
      ev_rnew("data", buf, len);
      for (int cur = 0; cur <= len; cur++) {
        ev_go(rd, cur);
        ev_line(rd, true);
        ev_eof(rd);
        ev_go(rd, cur);
        ev_line(rd, false);
        ev_go(rd, cur);
        ev_cstr(rd, true);
        ev_pcstr(rd, cur);
      }
      // the whole text read line by line
      ev_go(rd, 0);
      for (int k = 0; k <= len && !rd.eof(); k++) ev_line(rd, true);
      ev_eof(rd);
      free(buf);
    }
  }
}

// lines far longer than 64 KiB: a buffer of one fill byte with newlines at a few positions; only lengths, the cursor and
// "every byte of the line is the fill byte" are logged, the expected length follows from the newline positions
static void long_lines(vt::Rng& r) {
  reset_event();
  size_t n = 150000 + r.below(5000);
  vector<long> nl = {(long)(65536 + r.below(9000)), 0, 0};
  nl[1] = nl[0] + 1 + 65536 + (long)r.below(3);   // a second line of 65536..65538 bytes
  nl[2] = nl[1] + 1 + 300;                         // and an ordinary one
  char fill = (char)('a' + r.below(20));
  char* buf = (char*)malloc(n);
  memset(buf, fill, n);
  for (long p : nl) buf[p] = '\n';
  bool cr = r.chance(50);
  if (cr) buf[nl[0] - 1] = '\r';   // the first line ends CR LF: the CR is stripped from the result, not from the cursor
  StringReader rd(buf, n);
  for (int k = 0; k < 5 && !rd.eof(); k++) {
    bool adv = k != 1;   // the second call peeks
    size_t before = rd.where();
    string ret, out = guarded([&] { ret = rd.get_line(adv); });
    bool allfill = true;
    for (char ch : ret) allfill = allfill && ch == fill;
    vt::J j;
    j.str("e", "linebig").num("n", (long long)n).ints("nl", nl).num("cur", (long long)before).num("adv", adv).num("cr", cr ? nl[0] - 1 : -1);
    j.str("out", out).num("retlen", (long long)ret.size()).num("allfill", allfill).num("where", (long long)rd.where());
    tr.emit(j);
    tr.nontrivial("linebig" + to_string(ret.size() >= 65536));
  }
  free(buf);
}

static void cursor_history(vt::Rng& r) {
  reset_event();
  size_t n = r.chance(20) ? 0 : r.below(40);
  uint8_t* buf = (uint8_t*)malloc(n ? n : 1);
  for (size_t i = 0; i < n; i++) buf[i] = (uint8_t)(r.chance(20) ? 0 : r.chance(20) ? '\n' : r.chance(10) ? '\r' : 'a' + r.below(4));
  auto owned = make_shared<string>((const char*)buf, n);
  int ctor_kind = (int)r.below(3);
  StringReader rd = ctor_kind == 0 ? StringReader(buf, n) : ctor_kind == 1 ? StringReader(*owned) : StringReader(owned);
  if (ctor_kind == 2) owned.reset();  // the reader shares ownership: the caller's reference may go away
  ev_rnew("data", buf, n);
  auto B = boundary_set(n);
  auto sz = [&]() -> uint64_t { return r.chance(75) ? r.below(n + 3) : B[r.below(B.size())]; };
  size_t cur_n = n;
  int nops = (int)r.range(3, 40);
  for (int i = 0; i < nops; i++) {
    switch (r.below(15)) {
      case 14: {
        int which = (int)r.below(4);
        uint64_t w = which == 0 ? 1 : which == 1 ? 2 : which == 2 ? 4 : 8, size = sz();
        if (size < w) size = w;
        bool positional = r.chance(40);
        ev_gspan(rd, which, positional, positional ? (r.chance(85) ? r.below(cur_n + 2) : B[r.below(B.size())]) : 0, size, r.chance(80));
        break;
      }
      case 0: ev_go(rd, r.chance(85) ? r.below(cur_n + 2) : B[r.below(B.size())]); break;
      case 1: ev_skip(rd, sz()); break;
      case 2: ev_get(rd, R[r.below(R.size())], r.chance(80)); break;
      case 3: ev_read(rd, "read", 0, sz(), r.chance(80)); break;
      case 4: ev_read(rd, "readx", 0, sz(), r.chance(80)); break;
      case 5: ev_read(rd, "readv", 0, sz(), r.chance(80)); break;
      case 6: ev_read(rd, "readxv", 0, sz(), r.chance(80)); break;
      case 7: ev_line(rd, r.chance(85)); break;
      case 8: ev_cstr(rd, r.chance(85)); break;
      case 9: {
        string d;
        if (r.chance(60) && rd.where() < cur_n) d.assign((const char*)buf + rd.where(), min<size_t>(r.below(3), cur_n - rd.where()));
        else d = string("ab").substr(0, r.below(3));
        ev_skipif(rd, d);
        break;
      }
      case 10: ev_peek(rd, sz()); break;
      case 11: ev_eof(rd); break;
      case 12:
        if (r.chance(25)) {
          uint64_t k = r.chance(80) ? r.below(cur_n + 2) : B[r.below(B.size())];
          ev_trunc(rd, k);
          if (k <= cur_n) cur_n = k;
        } else
          ev_eof(rd);
        break;
      default: ev_sub(rd, r.chance(50) ? "sub2" : "subx2", sz(), sz()); break;
    }
  }
  ev_eof(rd);
  free(buf);
}

static void sw_bounds(vt::Rng& r) {
  reset_event();
  StringWriter sw;
  int pre = (int)r.below(6);
  for (int i = 0; i < pre; i++) {
    sw.put_u8((uint8_t)r.below(256));
    vt::J j;
    uint8_t last = (uint8_t)sw.str().back();
    j.str("e", "put").str("name", "u8").str("ord", "n").raw("v", jb(Bytes{last})).raw("bytes", js(sw.str()));
    tr.emit(j);
  }
  for (int i = 0; i < 8; i++) {
    const WAcc& a = W[r.below(W.size())];
    uint64_t v = interesting(r, a.w, a.is_float);
    static const uint64_t big[] = {(1ULL << 63) - 1, (1ULL << 63) + 5, 1ULL << 63, ~0ULL, ~0ULL - 1, ~0ULL - 3, ~0ULL - 7, ~0ULL - 8};
    uint64_t off = r.chance(55) ? big[r.below(8)] : r.below(sw.size() + 9);
    string out = guarded([&] { a.pput(sw, off, v); });
    vt::J j;
    j.str("e", "pput").str("name", a.name).str("ord", a.ord).raw("v", jb(digits_of(v, a.w))).raw("off", d8(off));
    j.str("out", out).raw("bytes", js(sw.str()));
    tr.emit(j);
    tr.nontrivial("pputb" + to_string(a.w) + out);
  }
}

int main(int argc, char** argv) {
  if (argc < 7) return 2;
  init_tables();
  string mode = argv[1];
  tr.open(argv[2]);
  string tier = argv[3];
  uint64_t seed = strtoull(argv[4], nullptr, 10);
  int shard = atoi(argv[5]), nshards = atoi(argv[6]);
  vt::Rng r(seed * 104729 + shard * 17 + (mode == "rt" ? 0 : 5));
  bool quick = tier == "quick";
  if (mode == "rt") {
    int n = (quick ? 400 : 20000) / nshards + 1;
    for (int i = 0; i < n; i++) {
      rt_history(r);
      if (i % 4 == 0) bw_history(r, false);
      if (i % 4 == 1) bit_history(r);
    }
    if (quick ? shard == 0 : shard < 4) big_history(r, quick ? (int)(seed % 3) : shard);
    if (shard == 0) {
      // every writer accessor x single-lane patterns, read back by the specification from the bytes
      for (auto& a : W) {
        reset_event();
        StringWriter sw;
        for (int lane = 0; lane < a.w; lane++) {
          uint64_t v = (uint64_t)(0x81 + lane) << (8 * lane);
          a.put(sw, v);
          vt::J j;
          j.str("e", "put").str("name", a.name).str("ord", a.ord).raw("v", jb(digits_of(v, a.w))).raw("bytes", js(sw.str()));
          tr.emit(j);
        }
      }
      // every reader accessor x single-lane patterns
      for (auto& a : R) {
        reset_event();
        string data;
        for (int lane = 0; lane < a.w; lane++)
          for (int k = 0; k < a.w; k++) data.push_back(k == lane ? (char)(0x81 + lane) : 0);
        StringReader rd(data);
        ev_rnew("data", data.data(), data.size());
        for (int lane = 0; lane < a.w; lane++) ev_get(rd, a, true);
        for (int lane = 0; lane < a.w; lane++) ev_pget(rd, a, lane * a.w);
      }
    }
  } else {
    vector<size_t> sizes = quick ? vector<size_t>{0, 8} : vector<size_t>{0, 1, 2, 7, 8, 64};
    for (size_t i = 0; i < sizes.size(); i++)
      if ((int)(i % nshards) == shard) bounds_sweep(r, sizes[i]);
    line_sweep(shard, nshards);
    if (shard == 0 || !quick) long_lines(r);
    int n = (quick ? 200 : 5000) / nshards + 1;
    for (int i = 0; i < n; i++) {
      cursor_history(r);
      if (i % 3 == 0) bw_history(r, true);
      if (i % 3 == 1) sw_bounds(r);
    }
  }
  tr.stats();
  return 0;
}
