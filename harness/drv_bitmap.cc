// X03 (extension) driver: phosg::BitmapImage (spec/Canvas/Bitmap).  Two bitmaps are changed by every public operation
// (constructors, copy / move construction and assignment, write_pixel, clear, invert, write_row, loading from a FILE*)
// and observed with read_pixel, ==, !=, empty, get_width / get_height / get_data_size / get_data and to_color; after
// every call both bitmaps are logged completely (width, height, empty, packed rows).
//   drv_bitmap <out> <tier> <seed> <shard> <nshards>
#include <phosg/Filesystem.hh>
#include <phosg/Image.hh>

#include "trace.hh"
using namespace std;
using namespace phosg;
static vt::Trace tr;

static string dump(const BitmapImage& b) {
  string s = "{\"w\":" + to_string(b.get_width()) + ",\"h\":" + to_string(b.get_height()) + ",\"null\":" + (b.empty() ? "true" : "false");
  s += ",\"size\":" + to_string(b.get_data_size()) + ",\"d\":" + (b.empty() ? string("[]") : vt::J::arr_bytes(b.get_data(), b.get_data_size())) + "}";
  return s;
}
static string both(const BitmapImage* B) { return "[" + dump(B[0]) + "," + dump(B[1]) + "]"; }
static string col(uint32_t c) { return vt::J::arr_u64(c, 4); }

template <typename F>
static string guarded(F&& f) {
  try {
    f();
    return "ok";
  } catch (const exception& e) {
    return vt::exc_name(e);
  }
}

static const size_t WIDTHS[] = {0, 1, 3, 7, 8, 9, 15, 16, 17, 24, 31};

static void history(vt::Rng& r, int nops, const string& tmpdir) {
  BitmapImage B[2];
  tr.emit(vt::J().str("e", "Reset").raw("bms", both(B)));
  tr.histories++;
  for (int n = 0; n < nops; n++) {
    int i = (int)r.below(2), j = 1 - i;
    unsigned k = (unsigned)r.below(B[i].empty() ? 6 : 17);
    // a bitmap without storage hands a null pointer to memcpy / memcmp (length 0) in copies and comparisons, which
    // UBSan reports although nothing is read; those calls are not driven (DESIGN section 8)
    if (k == 1 && B[j].empty()) k = 0;
    if (k == 4 && (B[i].empty() || B[j].empty())) k = 2;
    string op, out = "ok", extra = "[]";
    long long x = 0, y = 0, v = 0, ret = 0, bits = 0;
    string bytes = "";
    uint32_t fc = 0, tc = 0;
    bool alpha = false;
    size_t w = B[i].get_width(), h = B[i].get_height();
    switch (k) {
      case 0:
      case 5: {
        op = "new";
        x = (long long)WIDTHS[r.below(sizeof(WIDTHS) / sizeof(WIDTHS[0]))];
        y = (long long)r.below(5);
        out = guarded([&] { B[i] = BitmapImage((size_t)x, (size_t)y); });
        break;
      }
      case 1:
        op = "copy";
        if (r.chance(50)) out = guarded([&] { B[i] = static_cast<const BitmapImage&>(B[j]); });
        else
          out = guarded([&] { BitmapImage t(static_cast<const BitmapImage&>(B[j])); B[i] = std::move(t); });
        break;
      case 2:
        op = "move";
        if (r.chance(50)) out = guarded([&] { B[i] = std::move(B[j]); });
        else
          out = guarded([&] { BitmapImage t(std::move(B[j])); B[i] = std::move(t); });
        break;
      case 3: {
        op = "load";
        x = (long long)WIDTHS[r.below(8)];
        y = (long long)r.below(4);
        size_t need = (size_t)y * (((size_t)x + 7) / 8);
        size_t have = r.chance(80) ? need + r.below(3) : (need ? need - 1 : 0);
        for (size_t z = 0; z < have; z++) bytes.push_back((char)r.below(256));
        string fn = tmpdir + "/bm.bin";
        save_file(fn, bytes);
        int how = (int)r.below(3);
        out = guarded([&] {
          if (how == 0) {
            auto f = fopen_unique(fn, "rb");
            B[i] = BitmapImage(f.get(), (size_t)x, (size_t)y);
          } else if (how == 1)
            B[i] = BitmapImage(fn.c_str(), (size_t)x, (size_t)y);
          else
            B[i] = BitmapImage(fn, (size_t)x, (size_t)y);
        });
        break;
      }
      case 4:
        op = "eq";
        out = guarded([&] { ret = (B[i] == B[j]); v = (B[i] != B[j]); });
        break;
      case 6:
      case 7:
      case 8:
        op = "write";
        x = (long long)r.below(w + 2);
        y = (long long)r.below(h + 2);
        if (r.chance(3)) x = -1;  // size_t: far out of range
        v = r.chance(50);
        out = guarded([&] { B[i].write_pixel((size_t)x, (size_t)y, v); });
        break;
      case 9:
      case 10:
        op = "read";
        x = (long long)r.below(w + 2);
        y = (long long)r.below(h + 2);
        if (r.chance(3)) y = -1;
        out = guarded([&] { ret = B[i].read_pixel((size_t)x, (size_t)y); });
        break;
      case 11:
        op = "clear";
        v = r.chance(50);
        out = guarded([&] { B[i].clear(v); });
        break;
      case 12:
        op = "invert";
        out = guarded([&] { B[i].invert(); });
        break;
      case 13:
      case 14: {
        op = "row";
        y = (long long)r.below(h + 1);
        bits = (long long)r.below(8 * (((w + 7) / 8) + 2) + 1);
        size_t nb = ((size_t)bits + 7) / 8;
        // exactly the bytes the call may read, in their own heap block (AddressSanitizer sees an over-read)
        unique_ptr<uint8_t[]> buf(new uint8_t[nb ? nb : 1]);
        for (size_t z = 0; z < nb; z++) {
          buf[z] = (uint8_t)r.below(256);
          bytes.push_back((char)buf[z]);
        }
        out = guarded([&] { B[i].write_row((size_t)y, buf.get(), (size_t)bits); });
        break;
      }
      default: {
        op = "color";
        fc = (uint32_t)r.next();
        tc = (uint32_t)r.next();
        alpha = r.chance(50);
        string px = "[";
        out = guarded([&] {
          Image im = B[i].to_color(fc, tc, alpha);
          ret = (im.get_width() == w && im.get_height() == h && im.get_has_alpha() == alpha);
          for (size_t yy = 0; yy < h; yy++)
            for (size_t xx = 0; xx < w; xx++) {
              uint64_t cr, cg, cb, ca;
              im.read_pixel(xx, yy, &cr, &cg, &cb, &ca);
              if (px.size() > 1) px += ",";
              px += "[" + to_string(cr) + "," + to_string(cg) + "," + to_string(cb) + "," + to_string(ca) + "]";
            }
        });
        extra = px + "]";
        break;
      }
    }
    vt::J e;
    e.str("e", "op").str("op", op).num("i", i + 1).num("j", j + 1).num("x", x).num("y", y).num("v", v).num("bits", bits);
    e.bytes("bytes", bytes).raw("fc", col(fc)).raw("tc", col(tc)).num("alpha", alpha).str("out", out).num("ret", ret);
    e.raw("px", extra).raw("bms", both(B));
    tr.emit(e);
    tr.nontrivial(op + out + to_string(w % 8) + (op == "row" ? to_string(bits % 8 == 0) : ""));
  }
}

int main(int argc, char** argv) {
  if (argc < 6) return 2;
  tr.open(argv[1]);
  bool quick = string(argv[2]) == "quick";
  int shard = atoi(argv[4]), nshards = atoi(argv[5]);
  vt::Rng r(strtoull(argv[3], nullptr, 10) * 131 + shard);
  char tmpl[] = "/tmp/vbmXXXXXX";
  string tmpdir = mkdtemp(tmpl);
  int nh = (quick ? 160 : 3200) / nshards + 1;
  for (int h = 0; h < nh; h++) history(r, (int)r.range(10, 80), tmpdir);
  ::unlink((tmpdir + "/bm.bin").c_str());
  ::rmdir(tmpdir.c_str());
  tr.stats();
  return 0;
}
