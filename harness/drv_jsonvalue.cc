// X01 (extension) driver: the value layer of phosg::JSON - operator<=> and the six relational operators between JSON
// values and against primitives, as_* conversions, at / get_* with and without defaults, size (spec/Json/JsonValue).
//   drv_jsonvalue <out> <tier> <seed> <shard> <nshards>
#include <cmath>
#include <phosg/JSON.hh>

#include "trace.hh"
using namespace std;
using namespace phosg;
static vt::Trace tr;
static string js(const string& s) { return vt::J::arr_bytes(s.data(), s.size()); }

static string dumpv(const JSON& v);
static string dump_list(const JSON::list_type& l) {
  string s = "{\"t\":\"list\",\"v\":[";
  for (size_t i = 0; i < l.size(); i++) s += (i ? "," : "") + dumpv(*l[i]);
  return s + "]}";
}
static string dump_dict(const JSON::dict_type& d) {
  string ks = "[", vs = "[";
  bool first = true;
  for (const auto& it : d) {
    if (!first) {
      ks += ",";
      vs += ",";
    }
    first = false;
    ks += js(it.first);
    vs += dumpv(*it.second);
  }
  return "{\"t\":\"dict\",\"k\":" + ks + "],\"v\":" + vs + "]}";
}
static string dump_num(double d) {
  if (std::isnan(d)) return "{\"t\":\"float\",\"h\":0,\"nan\":1}";
  return "{\"t\":\"float\",\"h\":" + to_string((long long)llround(d * 2)) + ",\"nan\":0}";
}
static string dumpv(const JSON& v) {
  if (v.is_null()) return "{\"t\":\"null\"}";
  if (v.is_bool()) return string("{\"t\":\"bool\",\"b\":") + (v.as_bool() ? "1" : "0") + "}";
  if (v.is_int()) return "{\"t\":\"int\",\"n\":" + to_string(v.as_int()) + "}";
  if (v.is_float()) return dump_num(v.as_float());
  if (v.is_string()) return "{\"t\":\"str\",\"s\":" + js(v.as_string()) + "}";
  if (v.is_list()) return dump_list(v.as_list());
  return dump_dict(v.as_dict());
}

static const vector<string> STRS = {"", "a", "b", "ab", string("a\0", 2), "\xff", "aa", "B"};
static JSON atom(vt::Rng& r) {
  switch (r.below(6)) {
    case 0: return JSON(nullptr);
    case 1: return JSON(r.chance(50));
    case 2: return JSON((int64_t)(r.chance(80) ? r.range(-3, 3) : r.range(-1000000, 1000000)));
    case 3: return r.chance(10) ? JSON(NAN) : JSON((double)r.range(-7, 7) / 2.0 + (r.chance(10) ? 1048576.0 : 0.0));
    default: return JSON(STRS[r.below(STRS.size())]);
  }
}
static JSON gen(vt::Rng& r, int depth) {
  if (depth <= 0 || r.chance(45)) return atom(r);
  if (r.chance(55)) {
    JSON l = JSON::list();
    for (int n = (int)r.below(4); n > 0; n--) l.emplace_back(gen(r, depth - 1));
    return l;
  }
  JSON d = JSON::dict();
  for (int n = (int)r.below(4); n > 0; n--) d.emplace(STRS[r.below(4)], gen(r, depth - 1));
  return d;
}
static const char* ord_name(partial_ordering o) {
  return o == partial_ordering::less ? "lt" : o == partial_ordering::greater ? "gt" : o == partial_ordering::equivalent ? "eq" : "un";
}
template <typename A, typename B>
static void cmp_event(const char* e, const A& a, const B& b, const string& aj, const string& bj) {
  vector<int> ops = {a == b, a != b, a < b, a <= b, a > b, a >= b};
  vt::J j;
  j.str("e", e).raw("a", aj).raw("b", bj).str("r", ord_name(a <=> b)).ints("ops", ops);
  tr.emit(j);
  tr.nontrivial(string(e) + ord_name(a <=> b));
}
template <typename F>
static void guarded(F f, string& out) {
  try {
    f();
  } catch (const JSON::type_error&) {
    out = "type_error";
  } catch (const out_of_range&) {
    out = "out_of_range";
  } catch (const exception& e) {
    out = string("other:") + vt::exc_name(e);
  }
}
static void acc_events(const JSON& a, vt::Rng& r, const string& aj) {
  static const char* KINDS[] = {"bool", "int", "float", "str", "list", "dict"};
  auto conv = [&](const JSON& x, int kind, string& val) {
    switch (kind) {
      case 0: val = string("{\"t\":\"bool\",\"b\":") + (x.as_bool() ? "1" : "0") + "}"; break;
      case 1:
        if (x.is_float() && std::isnan(x.as_float())) throw JSON::type_error("skip");  // NaN -> int is undefined behaviour: not driven
        val = "{\"t\":\"int\",\"n\":" + to_string(x.as_int()) + "}";
        break;
      case 2: val = dump_num(x.as_float()); break;
      case 3: val = "{\"t\":\"str\",\"s\":" + js(x.as_string()) + "}"; break;
      case 4: val = dump_list(x.as_list()); break;
      default: val = dump_dict(x.as_dict()); break;
    }
  };
  for (int kind = 0; kind < 6; kind++) {
    if (kind == 1 && a.is_float() && std::isnan(a.as_float())) continue;
    string out = "ok", val = "{\"t\":\"null\"}";
    guarded([&] { conv(a, kind, val); }, out);
    vt::J j;
    j.str("e", "as").raw("a", aj).str("kind", KINDS[kind]).str("out", out).raw("val", val);
    tr.emit(j);
    tr.nontrivial(string("as") + KINDS[kind] + out);
  }
  {
    string out = "ok";
    long long n = 0;
    guarded([&] { n = (long long)a.size(); }, out);
    vt::J j;
    j.str("e", "size").raw("a", aj).str("out", out).num("n", n);
    tr.emit(j);
  }
  {
    // empty() and clear(): containers only; clear() on a copy (which must not affect the original)
    string out = "ok";
    long long e = 0;
    guarded([&] { e = a.empty(); }, out);
    vt::J j;
    j.str("e", "empty").raw("a", aj).str("out", out).num("n", e);
    tr.emit(j);
    JSON copy(a);
    string out2 = "ok";
    guarded([&] { copy.clear(); }, out2);
    vt::J k;
    k.str("e", "clear").raw("a", aj).str("out", out2).raw("val", dumpv(copy)).raw("orig", dumpv(a));
    tr.emit(k);
    // non-const element access returns a reference into the value: writing through it changes exactly that element
    if (a.is_list() && a.size() > 0) {
      JSON c2(a);
      size_t idx = r.below(c2.size());
      c2.at(idx) = JSON("replaced", 8);
      vt::J m;
      m.str("e", "setat").raw("a", aj).num("index", (long long)idx).raw("val", dumpv(c2));
      tr.emit(m);
    }
  }
  // element access
  for (int t = 0; t < 6; t++) {
    bool by_key = r.chance(50);
    string key = STRS[r.below(5)];
    size_t index = r.below(5);
    {
      string out = "ok", val = "{\"t\":\"null\"}";
      guarded([&] { val = dumpv(by_key ? a.at(key) : a.at(index)); }, out);
      vt::J j;
      j.str("e", "at").raw("a", aj).num("bykey", by_key).raw("key", js(key)).num("index", (long long)index).str("out", out).raw("val", val);
      tr.emit(j);
      tr.nontrivial(string("at") + out);
    }
    int kind = (int)r.below(4);  // typed getters with defaults exist for bool / int / float / string
    bool hasdef = r.chance(60);
    string out = "ok", val = "{\"t\":\"null\"}", def = "{\"t\":\"null\"}";
    guarded(
        [&] {
          switch (kind) {
            case 0: {
              bool d = r.chance(50);
              def = string("{\"t\":\"bool\",\"b\":") + (d ? "1" : "0") + "}";
              bool v = hasdef ? (by_key ? a.get_bool(key, d) : a.get_bool(index, d)) : (by_key ? a.get_bool(key) : a.get_bool(index));
              val = string("{\"t\":\"bool\",\"b\":") + (v ? "1" : "0") + "}";
              break;
            }
            case 1: {
              int64_t d = r.range(-50, 50);
              def = "{\"t\":\"int\",\"n\":" + to_string(d) + "}";
              const JSON* el = nullptr;
              try {
                el = by_key ? &a.at(key) : &a.at(index);
              } catch (...) {
              }
              if (el && el->is_float() && std::isnan(el->as_float())) throw JSON::type_error("skip");
              int64_t v = hasdef ? (by_key ? a.get_int(key, d) : a.get_int(index, d)) : (by_key ? a.get_int(key) : a.get_int(index));
              val = "{\"t\":\"int\",\"n\":" + to_string(v) + "}";
              break;
            }
            case 2: {
              double d = (double)r.range(-9, 9) / 2.0;
              def = dump_num(d);
              double v = hasdef ? (by_key ? a.get_float(key, d) : a.get_float(index, d)) : (by_key ? a.get_float(key) : a.get_float(index));
              val = dump_num(v);
              break;
            }
            default: {
              string d = STRS[r.below(STRS.size())];
              def = "{\"t\":\"str\",\"s\":" + js(d) + "}";
              const string& v = hasdef ? (by_key ? a.get_string(key, d) : a.get_string(index, d)) : (by_key ? a.get_string(key) : a.get_string(index));
              val = "{\"t\":\"str\",\"s\":" + js(v) + "}";
              break;
            }
          }
        },
        out);
    bool skipped = false;
    if (kind == 1 && out == "type_error") {
      // distinguish the harness's own NaN skip from a real type_error
      const JSON* el = nullptr;
      try {
        el = by_key ? &a.at(key) : &a.at(index);
      } catch (...) {
      }
      skipped = el && el->is_float() && std::isnan(el->as_float());
    }
    if (skipped) continue;
    static const char* GK[] = {"bool", "int", "float", "str"};
    vt::J j;
    j.str("e", "get").raw("a", aj).str("kind", GK[kind]).num("bykey", by_key).raw("key", js(key)).num("index", (long long)index);
    j.num("hasdef", hasdef).raw("def", def).str("out", out).raw("val", val);
    tr.emit(j);
    tr.nontrivial(string("get") + GK[kind] + out + (hasdef ? "d" : ""));
  }
  // get(key, default JSON)
  {
    string key = STRS[r.below(5)];
    JSON d = atom(r);
    string out = "ok", val = "{\"t\":\"null\"}";
    guarded([&] { val = dumpv(a.get(key, d)); }, out);
    vt::J j;
    j.str("e", "getj").raw("a", aj).raw("key", js(key)).raw("def", dumpv(d)).str("out", out).raw("val", val);
    tr.emit(j);
  }
}

int main(int argc, char** argv) {
  if (argc < 6) return 2;
  tr.open(argv[1]);
  bool quick = string(argv[2]) == "quick";
  int shard = atoi(argv[4]), nshards = atoi(argv[5]);
  vt::Rng r(strtoull(argv[3], nullptr, 10) * 71 + shard);
  tr.emit("{\"e\":\"Reset\"}");
  tr.histories++;
  int npool = quick ? 40 : 160;
  vector<JSON> pool;
  for (int i = 0; i < npool; i++) pool.push_back(gen(r, 1 + (int)r.below(3)));
  // near-duplicates: copies, and dicts rebuilt in another insertion order
  for (int i = 0; i < npool / 4; i++) pool.push_back(JSON(pool[r.below(npool)]));
  vector<string> pj;
  for (auto& v : pool) pj.push_back(dumpv(v));
  for (size_t i = 0; i < pool.size(); i++) {
    for (size_t k = 0; k < pool.size(); k++) {
      if ((int)((i * pool.size() + k) % nshards) != shard) continue;
      if (!quick || r.chance(35) || i == k) cmp_event("cmp", pool[i], pool[k], pj[i], pj[k]);
    }
    if ((int)(i % nshards) != shard) continue;
    // against primitives (the heterogeneous overloads)
    int64_t pi = r.range(-3, 3);
    cmp_event("cmp", pool[i], pi, pj[i], "{\"t\":\"int\",\"n\":" + to_string(pi) + "}");
    double pd = (double)r.range(-7, 7) / 2.0;
    cmp_event("cmp", pool[i], pd, pj[i], dump_num(pd));
    cmp_event("cmp", pool[i], (double)NAN, pj[i], dump_num(NAN));
    bool pb = r.chance(50);
    cmp_event("cmp", pool[i], pb, pj[i], string("{\"t\":\"bool\",\"b\":") + (pb ? "1" : "0") + "}");
    cmp_event("cmp", pool[i], nullptr, pj[i], "{\"t\":\"null\"}");
    string ps = STRS[r.below(STRS.size())];
    cmp_event("cmp", pool[i], ps, pj[i], "{\"t\":\"str\",\"s\":" + js(ps) + "}");
    if (ps.find('\0') == string::npos) cmp_event("cmp", pool[i], ps.c_str(), pj[i], "{\"t\":\"str\",\"s\":" + js(ps) + "}");
    acc_events(pool[i], r, pj[i]);
    tr.histories++;
  }
  tr.stats();
  return 0;
}
