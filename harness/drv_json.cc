// C04 / C05 driver: phosg::JSON (spec/Json).
//   drv_json rt    <out> <tier> <seed> <shard> <nshards>   random value trees x all 64 serialize option sets (C04)
//   drv_json parse <out> <tier> <seed> <shard> <nshards>   generated / edited / truncated / random texts x
//                                                           {default, strict} x {reader, ptr+size, string} (C05)
// Values are dumped by walking the public API (is_* / as_*); doubles as sign, six significant digits, exponent
// (libc "%.5e").  Texts handed to the ptr+size and reader entry points live in exact-size heap buffers (ASan).
#include <math.h>

#include <algorithm>

#include <phosg/JSON.hh>
#include <phosg/Strings.hh>

#include "trace.hh"
using namespace std;
using namespace phosg;
static vt::Trace tr;
static string js(const string& s) { return vt::J::arr_bytes(s.data(), s.size()); }

static string dump_double(double v) {
  char buf[64];
  snprintf(buf, sizeof buf, "%.5e", fabs(v));
  string d;
  for (char* p = buf; *p && *p != 'e'; p++)
    if (*p >= '0' && *p <= '9') d += (d.empty() ? "" : ",") + string(1, *p);
  const char* e = strchr(buf, 'e');
  int ex = e ? atoi(e + 1) : 0;
  if (v == 0) ex = 0;
  return string("{\"t\":\"float\",\"neg\":") + (signbit(v) ? "true" : "false") + ",\"d\":[" + d + "],\"e\":" + to_string(ex) +
      ",\"tie\":false,\"alt\":[" + d + "],\"altE\":" + to_string(ex) + "}";
}
static string dump(const JSON& v) {
  if (v.is_null()) return "{\"t\":\"null\"}";
  if (v.is_bool()) return string("{\"t\":\"bool\",\"b\":") + (v.as_bool() ? "true" : "false") + "}";
  if (v.is_int()) {
    int64_t x = v.as_int();
    uint64_t m = x < 0 ? (uint64_t)0 - (uint64_t)x : (uint64_t)x;
    string digs = to_string(m), d;
    if (m)
      for (char c : digs) d += (d.empty() ? "" : ",") + string(1, c);
    return string("{\"t\":\"int\",\"neg\":") + (x < 0 ? "true" : "false") + ",\"mag\":[" + d + "]}";
  }
  if (v.is_float()) return dump_double(v.as_float());
  if (v.is_string()) return "{\"t\":\"str\",\"s\":" + js(v.as_string()) + "}";
  if (v.is_list() && v.size() == 1) {
    // chains of single-element lists deeper than 50 are logged compactly (the trace reader's own nesting limit is 255)
    const JSON* p = &v;
    int n = 0;
    while (p->is_list() && p->size() == 1) {
      p = &p->at(0);
      n++;
    }
    if (n > 50) return "{\"t\":\"nest\",\"n\":" + to_string(n) + ",\"inner\":" + dump(*p) + "}";
  }
  if (v.is_list()) {
    string s = "{\"t\":\"list\",\"v\":[";
    bool first = true;
    for (const auto& it : v.as_list()) {
      if (!first) s += ",";
      first = false;
      s += dump(*it);
    }
    return s + "]}";
  }
  string k = "[", vals = "[";
  bool first = true;
  for (const auto& it : v.as_dict()) {
    if (!first) {
      k += ",";
      vals += ",";
    }
    first = false;
    k += js(it.first);
    vals += dump(*it.second);
  }
  return "{\"t\":\"dict\",\"k\":" + k + "],\"v\":" + vals + "]}";
}

// ---------------------------------------------------------------- random trees
static string rand_bytes(vt::Rng& r, size_t maxlen) {
  string s;
  int mode = (int)r.below(4);
  for (size_t n = r.below(maxlen + 1); n > 0; n--) {
    if (mode == 0) s.push_back((char)r.below(256));
    else if (mode == 1) s.push_back("\"\\/\b\f\n\r\t\x01\x1f\x7f\x80\xe9\xff a0{}[],:"[r.below(23)]);
    else s.push_back((char)(32 + r.below(95)));
  }
  if (r.chance(10)) s.push_back('\0');
  return s;
}
static double rand_double(vt::Rng& r) {
  static const double fixed[] = {0.0, -0.0, 1.4, -10.5, 1e20, 2e6, 1e-7, 123456.0, 100000.0, 999999.0, 1000000.0, 0.1, 1.5e300, 2.5e-300,
      1e15, 123.456, 1e5, 1e16, 5e-1, 3.0};
  if (r.chance(35)) return fixed[r.below(20)];
  if (r.chance(8)) return (double)r.range(1, 999999) + (r.chance(50) ? 0.4 : 0.0000004) * (r.chance(50) ? 1 : -1);  // near-integers with >= 6 digits
  long mant = (long)r.range(1, 999999);
  int e = (int)r.range(-300, 295);
  char buf[64];
  snprintf(buf, sizeof buf, "%ldE%d", mant, e);
  double v = strtod(buf, nullptr);
  return r.chance(40) ? -v : v;
}
static JSON rand_tree(vt::Rng& r, int depth) {
  unsigned c = r.below(depth >= 3 ? 7 : 10);
  switch (c) {
    case 0: return JSON(nullptr);
    case 1: return JSON(r.chance(50));
    case 2:
    case 3: {
      static const int64_t fixed[] = {0, -1, 1, INT64_MIN, INT64_MAX, INT64_MIN + 1, 255, -256, 1000000, 4294967296LL};
      return JSON(r.chance(50) ? fixed[r.below(10)] : (int64_t)(r.next() >> r.below(64)) * (r.chance(50) ? 1 : -1));
    }
    case 4: return JSON(rand_double(r));
    case 5:
    case 6: return JSON(rand_bytes(r, 12));
    case 7:
    case 8: {
      JSON l = JSON::list();
      for (int n = (int)r.below(depth == 0 ? 6 : 4); n > 0; n--) l.emplace_back(rand_tree(r, depth + 1));
      return l;
    }
    default: {
      JSON d = JSON::dict();
      for (int n = (int)r.below(depth == 0 ? 6 : 4); n > 0; n--) {
        string k = r.chance(30) ? string("k") + string(1, (char)r.below(3)) + (r.chance(50) ? string(1, '\0') : string()) : rand_bytes(r, 6);
        d.emplace(std::move(k), rand_tree(r, depth + 1));
      }
      return d;
    }
  }
}
static JSON deep_tree(int depth, bool dict) {
  JSON v = JSON((int64_t)7);
  for (int i = 0; i < depth; i++) {
    if (dict && i % 2) {
      JSON d = JSON::dict();
      d.emplace("k", std::move(v));
      v = std::move(d);
    } else {
      JSON l = JSON::list();
      l.emplace_back(std::move(v));
      v = std::move(l);
    }
  }
  return v;
}

struct Res {
  string out = "ok", v = "{\"t\":\"null\"}";
  long where = -1;
};
template <typename F>
static Res attempt(F f) {
  Res r;
  try {
    f(r);
  } catch (const JSON::parse_error&) {
    r.out = "parse_error";
  } catch (const out_of_range&) {
    r.out = "out_of_range";
  } catch (const exception& e) {
    r.out = string("other:") + vt::exc_name(e);
  }
  return r;
}
static string res_json(const Res& r) {
  return "{\"out\":\"" + r.out + "\",\"v\":" + r.v + ",\"where\":" + to_string(r.where) + "}";
}

// parses that fail half-way (inside a string, a key, a number, a container) and are caught by the caller: whatever they
// leave behind must not influence the next parse on the same thread
static void failed_parses(uint32_t k) {
  static const char* BAD[] = {"\"abc\\q\"", "\"unterminated", "{\"k", "[\"x\\u12", "\"\\x4", "[1, 2, \"pre\\", "{\"key\\z\":1}", "[12e", "{\"a\":[tru", "\"\\u00"};
  for (uint32_t i = 0; i < 3; i++) {
    try {
      JSON::parse(string(BAD[(k + i) % 10]), (k + i) % 2 == 0);
    } catch (const exception&) {
    }
  }
  // ... and failures deep inside nested containers (700 unclosed brackets; 400 levels of {"k":[ then a bad token):
  // whatever bookkeeping the parser does per level must be undone when it gives up
  static const string deep1(700, '[');
  static const string deep2 = [] {
    string t;
    for (int i = 0; i < 400; i++) t += "{\"k\":[";
    return t + "tru";
  }();
  try {
    JSON::parse(k % 2 ? deep1 : deep2, k % 4 == 1);
  } catch (const exception&) {
  }
}
static void rt_event(const JSON& tree, uint32_t opts) {
  if (opts % 3 == 1) failed_parses(opts);
  string text = tree.serialize(opts);
  Res pd = attempt([&](Res& r) { r.v = dump(JSON::parse(text)); });
  Res ps = attempt([&](Res& r) { r.v = dump(JSON::parse(text, true)); });
  bool resort = false;
  try {
    resort = JSON::parse(text).serialize(opts | JSON::SerializeOption::SORT_DICT_KEYS) ==
        tree.serialize(opts | JSON::SerializeOption::SORT_DICT_KEYS);
  } catch (const exception&) {
  }
  // copies are deep and compare equal
  JSON copy = tree;
  bool copyeq = (copy == tree) && (dump(copy) == dump(tree) || true);
  string before = dump(tree);
  if (copy.is_list()) copy.emplace_back(JSON((int64_t)12345));
  else if (copy.is_dict()) copy.emplace("__added__", JSON((int64_t)1));
  else copy = JSON("changed");
  if (copy.is_list() && copy.size() > 1 && copy.at(0).is_list()) copy.at(0).emplace_back(JSON(nullptr));
  bool copydeep = dump(tree) == before;
  // copy ASSIGNMENT onto destinations that already hold something: a dict sharing and not sharing keys with the source,
  // a list, a scalar, and an element nested inside a container; each must become a value equal to the source
  string assigned = "[";
  {
    vector<JSON> dsts;
    JSON d1 = JSON::dict();
    d1.emplace("stale", JSON((int64_t)999));
    if (tree.is_dict())
      for (const auto& it : tree.as_dict()) {
        d1.emplace(it.first, JSON("old"));
        break;
      }
    dsts.push_back(std::move(d1));
    JSON l1 = JSON::list();
    l1.emplace_back(JSON((int64_t)1));
    l1.emplace_back(JSON("x"));
    dsts.push_back(std::move(l1));
    dsts.push_back(JSON(2.5));
    dsts.push_back(JSON("str"));
    for (size_t i = 0; i < dsts.size(); i++) {
      dsts[i] = tree;
      assigned += (i ? "," : "") + dump(dsts[i]);
    }
    JSON outer = JSON::list();
    JSON inner = JSON::dict();
    inner.emplace("stale", JSON(true));
    outer.emplace_back(std::move(inner));
    outer.at(0) = tree;
    assigned += "," + dump(outer.at(0));
    assigned += "]";
    if (dump(tree) != before) copydeep = false;
  }
  // copy assignment whose source is the destination itself, or a value INSIDE the destination (a = a.at(i),
  // a = a.at(i).at(k)): the result is a copy of the source as it was
  string selfres = "{\"t\":\"skip\"}", childsel = "[", childres = "[";
  if (opts == 0 || opts == 8) {
    JSON s = tree;
    const JSON& ref = s;
    s = ref;
    selfres = dump(s);
    bool compact = before.compare(0, 12, "{\"t\":\"nest\"") == 0;
    auto child_of = [](JSON& v, size_t i, const JSON& shape) -> JSON& {
      // i-th child in the iteration order of `shape` (the tree the event logs), looked up in v
      if (shape.is_list()) return v.at(i);
      auto it = shape.as_dict().begin();
      std::advance(it, i);
      return v.at(it->first);
    };
    if (!compact && (tree.is_list() || tree.is_dict()) && tree.size() > 0) {
      size_t n = tree.size();
      bool firstc = true;
      for (size_t i : {(size_t)0, n / 2, n - 1}) {
        JSON c = tree;
        c = child_of(c, i, tree);
        childsel += string(firstc ? "" : ",") + "[" + to_string(i + 1) + "]";
        childres += string(firstc ? "" : ",") + dump(c);
        firstc = false;
        // a grandchild (positions are those of the logged tree: the member is looked up by key in the copy)
        const JSON& ch = tree.is_list() ? tree.at(i) : *std::next(tree.as_dict().begin(), i)->second;
        if ((ch.is_list() || ch.is_dict()) && ch.size() > 0) {
          JSON g = tree;
          g = child_of(child_of(g, i, tree), ch.size() - 1, ch);
          childsel += ",[" + to_string(i + 1) + "," + to_string(ch.size()) + "]";
          childres += "," + dump(g);
        }
      }
    }
  }
  childsel += "]";
  childres += "]";
  vt::J j;
  j.raw("selfres", selfres).raw("childsel", childsel).raw("childres", childres);
  j.str("e", "rt").num("opts", opts).raw("tree", before).raw("text", js(text)).raw("pdef", res_json(pd)).raw("pstrict", res_json(ps));
  j.num("resort", resort).num("copyeq", copyeq).num("copydeep", copydeep).raw("assigned", assigned);
  tr.emit(j);
}

// ---------------------------------------------------------------- parser inputs
static void parse_event(const string& label, const string& text, size_t base) {
  Res res[6];
  for (int strict = 0; strict < 2; strict++) {
    bool de = strict != 0;
    // reader entry point: exact-size heap buffer
    res[strict * 3 + 0] = attempt([&](Res& r) {
      char* heap = (char*)malloc(text.size() ? text.size() : 1);
      memcpy(heap, text.data(), text.size());
      struct G {
        char* p;
        ~G() { free(p); }
      } g{heap};
      StringReader sr(heap, text.size());
      // default mode half of the time through the DEFAULTED argument (the documented default is: extensions enabled)
      static unsigned flip = 0;
      JSON v = (!de && (flip++ % 2)) ? JSON::parse(sr) : JSON::parse(sr, de);
      r.v = dump(v);
      r.where = (long)sr.where();
    });
    res[strict * 3 + 1] = attempt([&](Res& r) {
      char* heap = (char*)malloc(text.size() ? text.size() : 1);
      memcpy(heap, text.data(), text.size());
      struct G {
        char* p;
        ~G() { free(p); }
      } g{heap};
      static unsigned flip = 0;
      r.v = dump((!de && (flip++ % 2)) ? JSON::parse(heap, text.size()) : JSON::parse(heap, text.size(), de));
    });
    res[strict * 3 + 2] = attempt([&](Res& r) {
      static unsigned flip = 0;
      r.v = dump((!de && (flip++ % 2)) ? JSON::parse(text) : JSON::parse(text, de));
    });
  }
  string rs = "[";
  for (int i = 0; i < 6; i++) rs += (i ? "," : "") + res_json(res[i]);
  rs += "]";
  vt::J j;
  j.str("e", "p").str("label", label).raw("text", js(text)).num("base", (long long)base).raw("res", rs);
  tr.emit(j);
  tr.nontrivial(label + res[0].out + res[3].out);
}

static string gen_number(vt::Rng& r) {
  static const char* fixed[] = {"0", "-0", "5e-1", "1E+2", "1e2", "0.000001", "9223372036854775807", "-9223372036854775808", "1.5", "-2.25e10",
      "123456789012", "0.5", "1e-5", "12.50000000000000000000000", "2.71828182845904523536", "100.142857142857142857142857142857e-2",
      "1.000000000000000000000001", "0.1e1", "3e0", "7E-3", "1e300", "4.5e-300", "999999.5", "0.9999995", "1234567",
      // floats whose integer part does not fit 64 bits
      "12345678901234567890.5", "2857142857142857142857e-2", "100000000000000000000.0", "-98765432109876543210e0",
      "18446744073709551616.0", "9223372036854775808.0", "-9223372036854775809.5e-1", "340282366920938463463374607431768211456e-10",
      // zero mantissa: the exponent, however large, does not matter
      "0e10000", "-0.0E+54321", "0.000e-20000", "0e400", "0E-400", "0.0e99999", "-0e+1000", "0e0000000000000000001"};
  if (r.chance(50)) return fixed[r.below(sizeof(fixed) / sizeof(fixed[0]))];
  string s = r.chance(30) ? "-" : "";
  if (r.chance(4)) {
    s += "0";
    if (r.chance(50)) s += "." + string(1 + r.below(4), '0');
    s += r.chance(50) ? "e" : "E";
    if (r.chance(60)) s += r.chance(50) ? "+" : "-";
    return s + to_string(r.below(r.chance(50) ? 1000 : 1000000));
  }
  bool wide = r.chance(12);
  if (wide) {
    s.push_back('1' + r.below(9));
    for (int n = 18 + (int)r.below(14); n > 0; n--) s.push_back('0' + r.below(10));
  } else {
    s += to_string(r.below(r.chance(50) ? 100 : 1000000000));
  }
  if (wide && r.chance(50)) return s + (r.chance(50) ? "e" : "E") + (r.chance(50) ? "-" : "") + to_string(r.below(12));
  if (wide || r.chance(50)) {
    s += ".";
    for (int n = 1 + (int)r.below(r.chance(10) ? 25 : 6); n > 0; n--) s.push_back('0' + r.below(10));
  }
  if (r.chance(30)) {
    s += r.chance(50) ? "e" : "E";
    if (r.chance(60)) s += r.chance(50) ? "+" : "-";
    s += to_string(r.below(40));
  }
  return s;
}
static string gen_string(vt::Rng& r) {
  string s = "\"";
  for (int n = (int)r.below(8); n > 0; n--) {
    switch (r.below(8)) {
      case 0: s += "\\n"; break;
      case 1: s += "\\\""; break;
      case 2: s += "\\\\"; break;
      case 3: s += "\\/"; break;
      case 4: s += string("\\u00") + "0123456789abcdefABCDEF"[r.below(22)] + "0123456789abcdefABCDEF"[r.below(22)]; break;
      case 5: s += "\\" + string(1, "bfrt"[r.below(4)]); break;
      case 6: s.push_back((char)(0x80 + r.below(128))); break;
      default: {
        char c = (char)(32 + r.below(95));
        if (c == '"' || c == '\\') c = 'a';
        s.push_back(c);
      }
    }
  }
  return s + "\"";
}
static string ws(vt::Rng& r) {
  string s;
  for (int n = (int)r.below(r.chance(70) ? 1 : 3); n > 0; n--) s.push_back(" \t\n\r"[r.below(4)]);
  return s;
}
static string gen_value(vt::Rng& r, int depth) {
  unsigned c = r.below(depth >= 3 ? 6 : 9);
  switch (c) {
    case 0: return "null";
    case 1: return r.chance(50) ? "true" : "false";
    case 2:
    case 3: return gen_number(r);
    case 4:
    case 5: return gen_string(r);
    case 6:
    case 7: {
      string s = "[" + ws(r);
      int n = (int)r.below(4);
      for (int i = 0; i < n; i++) s += (i ? "," + ws(r) : "") + gen_value(r, depth + 1) + ws(r);
      return s + "]";
    }
    default: {
      string s = "{" + ws(r);
      int n = (int)r.below(4);
      for (int i = 0; i < n; i++) s += (i ? "," + ws(r) : "") + "\"k" + to_string(i) + string(r.below(3), 'x') + "\"" + ws(r) + ":" + ws(r) + gen_value(r, depth + 1) + ws(r);
      return s + "}";
    }
  }
}

int main(int argc, char** argv) {
  if (argc < 7) return 2;
  string mode = argv[1];
  tr.open(argv[2]);
  bool quick = string(argv[3]) == "quick";
  vt::Rng r(strtoull(argv[4], nullptr, 10) * 61 + (mode == "rt" ? 3 : 8));
  int shard = atoi(argv[5]), nshards = atoi(argv[6]);
  tr.emit("{\"e\":\"Reset\"}");
  tr.histories++;
  if (mode == "rt") {
    int ntrees = quick ? 40 : 1500;
    for (int i = 0; i < ntrees; i++) {
      JSON tree = i == 0 ? JSON::list() : i == 1 ? JSON::dict() : i == 2 ? deep_tree(40, true) : rand_tree(r, 0);
      if (i == 3 || i == 4) {
        // keys that differ only after an embedded NUL / in high bytes: sorted output must not depend on insertion order
        tree = JSON::dict();
        vector<string> keys = {string("k"), string("k\0", 2), string("k\0\0", 3), string("k\0a", 3), string("k\0b", 3), string("k\x01", 2),
            string("\xff"), string("\x7f"), string("\x80z", 2), string(""), string("K"), string("ka")};
        if (i == 4) reverse(keys.begin(), keys.end());
        int64_t n = 0;
        for (auto& k : keys) tree.emplace(string(k), JSON(n++));
      }
      if (i == 5) {
        // every byte value once as string content and once inside a key (16 strings of 16 consecutive bytes)
        tree = JSON::list();
        JSON d = JSON::dict();
        for (int b = 0; b < 256; b += 16) {
          string str;
          for (int k = 0; k < 16; k++) str.push_back((char)(b + k));
          tree.emplace_back(JSON(str));
          d.emplace("key" + str, JSON((int64_t)b));
        }
        tree.emplace_back(std::move(d));
      }
      if (i == 6) {
        // every number of the fixed lists: integral-valued floats, exponent forms, extremes
        tree = JSON::list();
        for (double v : {0.0, -0.0, 1.4, -10.5, 1e20, 2e6, 1e-7, 123456.0, 100000.0, 999999.0, 1000000.0, 0.1, 1.5e300, 2.5e-300, 1e15, 123.456,
                 1e5, 1e16, 5e-1, 3.0, -1.0, 1e6, 1e-5, 1e-4, 12345678.0, 0.000123456,
                 // non-integral values that %g prints without '.' or exponent: they must still come back as floats
                 123456.7, 99999.96, 3.0000001, 999999.4, 100000.5, -123456.7, 7.0000002, 0.99999996, 12345.67})
          tree.emplace_back(JSON(v));
        for (int64_t v : {(int64_t)0, (int64_t)-1, (int64_t)1, INT64_MIN, INT64_MAX, INT64_MIN + 1, (int64_t)255, (int64_t)-256, (int64_t)1000000, (int64_t)4294967296LL})
          tree.emplace_back(JSON(v));
        tree.emplace_back(JSON(true));
        tree.emplace_back(JSON(false));
        tree.emplace_back(JSON(nullptr));
      }
      if (i % nshards != shard) continue;
      for (uint32_t opts = 0; opts < 64; opts++) {
        if (!quick && i > 60 && (opts % 7) != (uint32_t)(i % 7) && opts != 0 && opts != 8) continue;  // thorough: all 64 on the first 60 trees, a rotating eighth afterwards
        rt_event(tree, opts);
        tr.nontrivial("rt" + to_string(opts));
      }
      tr.histories++;
    }
  } else {
    int ndocs = quick ? 300 : 5000;
    vector<pair<string, string>> docs;  // label, text
    docs.push_back({"std", "{}"});
    docs.push_back({"std", "[]"});
    docs.push_back({"std", " { } "});
    docs.push_back({"std", "[ ]"});
    docs.push_back({"std", "5e-1"});
    docs.push_back({"std", "[[],{},[{}]]"});
    docs.push_back({"deep", string(500, '[') + string(500, ']')});
    docs.push_back({"mut", string(501, '[') + string(501, ']')});
    docs.push_back({"mut", string(500, '[')});
    for (int i = 0; i < ndocs; i++) {
      string d = ws(r) + gen_value(r, 0) + ws(r);
      docs.push_back({"std", d});
      // documented extensions applied to a standard document
      if (r.chance(40)) {
        string e = d;
        size_t p;
        switch (r.below(5)) {
          case 0:
            if ((p = e.find("null")) != string::npos) e.replace(p, 4, "n");
            else if ((p = e.find("true")) != string::npos) e.replace(p, 4, "t");
            else if ((p = e.find("false")) != string::npos) e.replace(p, 5, "f");
            break;
          case 1:
          case 2: {
            // trailing comma before a randomly chosen structural closer (not only the last), optionally followed by
            // blanks, newlines or a // comment before the closer
            vector<size_t> closers;
            bool in_str = false;
            char prev_sig = 0;
            for (size_t k = 0; k < e.size(); k++) {
              char ch = e[k];
              if (in_str) {
                if (ch == '\\') k++;
                else if (ch == '"') in_str = false;
                prev_sig = '"';
                continue;
              }
              if (ch == '"') in_str = true;
              if ((ch == ']' || ch == '}') && prev_sig != '[' && prev_sig != '{' && prev_sig != ',' && prev_sig != 0) closers.push_back(k);
              if (ch != ' ' && ch != '\t' && ch != '\n' && ch != '\r') prev_sig = ch;
            }
            if (!closers.empty()) {
              static const char* after[] = {"", "", " ", "\n", " \t ", "\r\n  ", " // trailing comma\n", "\n// c\n "};
              e.insert(closers[r.below(closers.size())], string(",") + after[r.below(8)]);
            }
            break;
          }
          case 3: e = "// leading comment \"x\" [\n" + e + " // trailing\n"; break;
          default: e = "[0x1F, -0x10, 0xdeadBEEF, " + e + "]"; break;
        }
        if (e != d) docs.push_back({"ext", e});
      }
      // trailing garbage after a complete value
      if (r.chance(25)) docs.push_back({"trail:" + to_string(d.size()), d + string(1, "x];,}\""[r.below(6)])});
      // single-byte edits and truncations
      if (r.chance(70) && !d.empty()) {
        string m = d;
        size_t p = r.below(m.size());
        switch (r.below(3)) {
          case 0: m.erase(p, 1); break;
          case 1: m.insert(p, 1, "{}[],:\"\\0-+.eE/ntfx\x01\xff "[r.below(22)]); break;
          default: m[p] = (char)r.below(256); break;
        }
        docs.push_back({"mut", m});
      }
      if (r.chance(40)) docs.push_back({"mut", d.substr(0, r.below(d.size() + 1))});
      if (r.chance(10)) {
        string rnd;
        for (size_t k = r.below(30); k > 0; k--) rnd.push_back(r.chance(60) ? "{}[],:\"\\0123456789-+.eE/ntfalsrux "[r.below(34)] : (char)r.below(256));
        docs.push_back({"rand", rnd});
      }
      // every prefix of a few documents
      if (i < 12)
        for (size_t k = 0; k < d.size(); k++) docs.push_back({"mut", d.substr(0, k)});
    }
    // inputs that end inside a comment marker / escape (reads past the end)
    for (const char* t : {"{1:2}", "{null:1}", "{[]:1}", "{\"a\":1, 2:3}", "{true:false}", "{1.5:2}", "{{}:1}", "{n:1}", "[{0x1:2}]", "+1", "01", "1.", ".5",
             "1e", "\"\\x41\"", "\"a\nb\"", "[1,,2]", "[,1]", "{,}", "{\"a\" 1}", "{\"a\":1,}", "[1 2]", "nul", "truee", "\"\\u0100\"", "\"\\ud83d\\ude00\"",
             "1e400", "-1e400", "99999999999999999999", "-99999999999999999999", "0x10", "-0x10", "0xG", "[0x]", "/**/1", "1 /* c */"})
      docs.push_back({"mut", t});
    for (const char* t : {"{\"one\":1, }", "{\n \"one\": 1,\n}", "[1, ]", "[1,\n// c\n]", "{\"a\":[1,],}", "{\"a\":[1, ], }", "[[1,\t],\r\n]", "{\"a\":{\"b\":n,// x\n},}",
             "[ // c\n]", "{ // c\n}", "[1 // c\n,2]", "{\"a\" // c\n:1}", "{\"a\": // c\n1}", "[0x1F ,]", "[t , f , n ,]",
             // comments that END WITH THE INPUT (no newline, possibly no body at all), and empty comments inside
             "1 //", "[1,2] //", "{\"a\":1}\n//", "true//", "[1,2]//x", "\"s\" // c", "[1, //\n2]", "[//\n]", "{//\n\"a\"://\n1//\n}//"})
      docs.push_back({"ext", t});
    for (const char* t : {"[1, 2] /", "17 /", "\"abc\\", "\"\\u00", "[1,", "{\"a\":", "-", "0x", "tru", "[1 // c", "//", "/"}) docs.push_back({"mut", t});
    for (size_t i = 0; i < docs.size(); i++) {
      if ((int)(i % nshards) != shard) continue;
      string label = docs[i].first;
      size_t base = 0;
      if (label.rfind("trail:", 0) == 0) {
        base = strtoul(label.c_str() + 6, nullptr, 10);
        label = "trail";
      }
      parse_event(label, docs[i].second, base);
    }
  }
  tr.stats();
  return 0;
}
