// C14 driver: file / stream reading helpers, scoped_fd, Poll (spec/FileIO).
//   drv_fileio <out> <tier> <seed> <workdir>
// read()/pread()/close() calls made by phosg are interposed at link time (-Wl,--wrap): reads on the script
// descriptor are served from a delivery plan (each call returns the next planned chunk, 0 at the end, or an
// injected error), closes of tracked descriptors are recorded instead of performed.  FILE* streams come from
// fopencookie with the same scripted chunking.
#include <dirent.h>
#include <errno.h>
#include <stddef.h>
#include <sys/un.h>
#include <sys/socket.h>
#include <fcntl.h>
#include <poll.h>
#include <sys/stat.h>

#include <algorithm>
#include <map>

#include <phosg/Filesystem.hh>

#include "trace.hh"

using namespace std;
using namespace phosg;

static vt::Trace tr;

// ---------------------------------------------------------------- scripted source
struct Script {
  int fd = -1;  // descriptor number the library is given
  string data;
  size_t pos = 0;
  vector<size_t> plan;  // chunk sizes; beyond the plan: everything that is left
  size_t step = 0;
  long err_at = -1;  // index of the call that fails with EIO
  vector<long> reqs, served;
  bool pread_mode = false;
  void start(const string& d, const vector<size_t>& p, long err = -1) {
    data = d;
    pos = 0;
    plan = p;
    step = 0;
    err_at = err;
    reqs.clear();
    served.clear();
  }
  ssize_t serve(void* buf, size_t n) {
    reqs.push_back((long)n);
    if ((long)step == err_at) {
      step++;
      served.push_back(-1);
      // the kind of failure rotates: an error is an error whatever its number ("would block" on a descriptor somebody
      // made non-blocking, an interrupted call, a bad descriptor) - never a reason to return what was read so far
      static const int ERRS[] = {EIO, EAGAIN, EINTR, EBADF, EWOULDBLOCK, ENOMEM};
      static unsigned which = 0;
      errno = ERRS[which++ % 6];
      return -1;
    }
    size_t left = data.size() - pos;
    size_t k = step < plan.size() ? plan[step] : left;
    step++;
    k = min(k, min(n, left));
    memcpy(buf, data.data() + pos, k);
    pos += k;
    served.push_back((long)k);
    return (ssize_t)k;
  }
};
static Script S;
static map<int, int> tracked;  // real fd -> logical id
static vector<int> closed_log;

extern "C" {
ssize_t __real_read(int, void*, size_t);
ssize_t __real_pread(int, void*, size_t, off_t);
int __real_close(int);
ssize_t __wrap_read(int fd, void* buf, size_t n) {
  if (fd == S.fd && fd >= 0) return S.serve(buf, n);
  return __real_read(fd, buf, n);
}
ssize_t __wrap_pread(int fd, void* buf, size_t n, off_t off) {
  if (fd == S.fd && fd >= 0) {
    S.pos = min<size_t>((size_t)off, S.data.size());
    return S.serve(buf, n);
  }
  return __real_pread(fd, buf, n, off);
}
int __wrap_close(int fd) {
  auto it = tracked.find(fd);
  if (it != tracked.end()) {
    closed_log.push_back(it->second);
    return 0;  // recorded, not performed: a second close of the same descriptor is seen too
  }
  return __real_close(fd);
}
}

static ssize_t cookie_read(void*, char* buf, size_t n) { return S.serve(buf, n); }
static FILE* script_stream() {
  cookie_io_functions_t io = {cookie_read, nullptr, nullptr, nullptr};
  FILE* f = fopencookie(nullptr, "r", io);
  return f;
}

static string pattern(size_t n, uint64_t salt) {
  string s(n, 0);
  uint64_t x = salt * 0x9E3779B97F4A7C15ULL + 1;
  for (size_t i = 0; i < n; i++) {
    x = x * 6364136223846793005ULL + 1442695040888963407ULL;
    s[i] = (char)(x >> 56);
  }
  return s;
}
template <typename F>
static string guarded(F f) {
  try {
    f();
    return "ok";
  } catch (const exception& e) {
    return string("exc");
  }
}
static string jl(const vector<long>& v) {
  string s = "[";
  for (size_t i = 0; i < v.size(); i++) {
    if (i) s += ",";
    s += to_string(v[i]);
  }
  return s + "]";
}

static void ev_read_all(bool via_fd, const string& data, const vector<size_t>& plan, long err_at) {
  S.start(data, plan, err_at);
  string ret;
  string out;
  if (via_fd) {
    out = guarded([&] { ret = read_all(S.fd); });
  } else {
    FILE* f = script_stream();
    out = guarded([&] { ret = read_all(f); });
    fclose(f);
  }
  size_t delivered = S.pos;
  bool eq = ret.size() <= data.size() && memcmp(ret.data(), data.data(), ret.size()) == 0;
  vt::J j;
  bool err_served = find(S.served.begin(), S.served.end(), -1L) != S.served.end();  // did a read really fail?
  j.str("e", "ra").str("via", via_fd ? "fd" : "file").num("srclen", (long long)data.size()).num("err", err_served);
  j.str("out", out).num("len", (long long)ret.size()).num("eq", eq).num("delivered", (long long)delivered);
  j.raw("reqs", jl(S.reqs)).raw("plan", jl(S.served));
  tr.emit(j);
  tr.histories++;
  tr.nontrivial(string("ra") + (via_fd ? "fd" : "file") + to_string(min<size_t>(S.served.size(), 5)) + out + to_string(data.size() >= 16384));
}

static void all_plans(size_t size, size_t k, function<void(const vector<size_t>&)> f) {
  // every composition of `size` into parts 1..k
  vector<size_t> cur;
  function<void(size_t)> rec = [&](size_t left) {
    if (left == 0) {
      f(cur);
      return;
    }
    for (size_t c = 1; c <= min(k, left); c++) {
      cur.push_back(c);
      rec(left - c);
      cur.pop_back();
    }
  };
  rec(size);
}

static void ev_fgets(vt::Rng& r, const vector<size_t>& lens, bool finalnl, const vector<size_t>& plan) {
  string data;
  vector<string> lines;
  for (size_t i = 0; i < lens.size(); i++) {
    string l;
    for (size_t k = 0; k < lens[i]; k++) l.push_back((char)('a' + (k + i) % 23));
    bool nl = i + 1 < lens.size() || finalnl;
    if (nl) l.push_back('\n');
    lines.push_back(l);
    data += l;
  }
  S.start(data, plan);
  FILE* f = script_stream();
  vector<long> got, eq;
  string out = guarded([&] {
    for (size_t i = 0; i < lens.size() + 3; i++) {
      string s = phosg::fgets(f);
      got.push_back((long)s.size());
      eq.push_back(i < lines.size() ? (s == lines[i]) : s.empty());
      if (s.empty()) break;
    }
  });
  fclose(f);
  vector<long> ll(lens.begin(), lens.end());
  vt::J j;
  j.str("e", "fgets").raw("lens", jl(ll)).num("finalnl", finalnl).str("out", out).raw("got", jl(got)).raw("eq", jl(eq));
  tr.emit(j);
  tr.histories++;
  size_t mx = 0;
  for (size_t x : lens) mx = max(mx, x);
  tr.nontrivial("fgets" + to_string(mx / 255) + to_string(mx % 255 == 0) + to_string(finalnl));
  (void)r;
}

static void ev_exact(const string& fn, size_t size, const string& data, const vector<size_t>& plan) {
  S.start(data, plan);
  string ret;
  string out;
  size_t avail = min(plan.empty() ? data.size() : plan[0], min(size, data.size()));
  if (fn == "readx") {
    ret.assign(size, '\xEE');
    out = guarded([&] { readx(S.fd, ret.data(), size); });
  } else if (fn == "readxs") {
    out = guarded([&] { ret = readx(S.fd, size); });
  } else if (fn == "preadx") {
    ret.assign(size, '\xEE');
    out = guarded([&] { preadx(S.fd, ret.data(), size, 0); });
  } else if (fn == "preadxs") {
    out = guarded([&] { ret = preadx(S.fd, size, 0); });
  } else if (fn == "read") {
    out = guarded([&] { ret = phosg::read(S.fd, size); });
  } else {
    FILE* f = script_stream();
    if (fn == "freadx") {
      ret.assign(size, '\xEE');
      out = guarded([&] { freadx(f, ret.data(), size); });
    } else if (fn == "freadxs") {
      out = guarded([&] { ret = freadx(f, size); });
    } else {
      out = guarded([&] { ret = phosg::fread(f, size); });
    }
    fclose(f);
  }
  if (out != "ok") ret.clear();
  bool eq = ret.size() <= data.size() && memcmp(ret.data(), data.data(), ret.size()) == 0;
  vt::J j;
  j.str("e", "exact").str("fn", fn).num("size", (long long)size).num("avail", (long long)avail).num("total", (long long)data.size());
  j.str("out", out).num("len", (long long)ret.size()).num("eq", eq);
  tr.emit(j);
  tr.nontrivial("exact" + fn + out);
}

// ---------------------------------------------------------------- scoped_fd
static int logical_of(int realfd) {
  if (realfd < 0) return 0;
  auto it = tracked.find(realfd);
  return it == tracked.end() ? -5 : it->second;
}
static void sfd_history(vt::Rng& r) {
  tr.emit("{\"e\":\"Reset\"}");
  tr.histories++;
  scoped_fd* slot[5] = {nullptr, nullptr, nullptr, nullptr, nullptr};
  // in a quarter of the histories descriptor number 0 is free, so that the first adopted descriptor IS 0
  // (a valid descriptor like any other)
  bool zero_free = r.chance(25);
  int saved0 = -1;
  if (zero_free) {
    saved0 = dup(0);
    __real_close(0);
  }
  vector<int> real_fds;
  vector<long> adopted;
  int next_logical = 1;
  auto fresh = [&]() {
    int fd = open("/dev/null", O_RDONLY);
    real_fds.push_back(fd);
    tracked[fd] = next_logical;
    adopted.push_back(next_logical);
    next_logical++;
    return fd;
  };
  auto emit = [&](const string& op, int a, int b, int fd_logical) {
    string held = "[";
    for (int s = 1; s <= 4; s++) {
      if (s > 1) held += ",";
      held += to_string(slot[s] ? logical_of((int)*slot[s]) : 0);
    }
    held += "]";
    vt::J j;
    j.str("e", "sfd").str("op", op).num("a", a).num("b", b).num("fd", fd_logical).ints("closed", closed_log).raw("held", held);
    tr.emit(j);
    tr.nontrivial("sfd" + op + to_string(closed_log.size()));
    closed_log.clear();
  };
  int nops = (int)r.range(3, 14);
  for (int i = 0; i < nops; i++) {
    int a = 1 + (int)r.below(4), b = 1 + (int)r.below(4);
    switch (r.below(7)) {
      case 6:
        // open() on an object that may already hold a descriptor: the old one is given up (closed once), the new one held
        if (slot[a]) {
          bool cstr = r.chance(50);
          if (cstr) slot[a]->open("/dev/null", O_RDONLY);
          else slot[a]->open(string("/dev/null"), O_RDONLY);
          int fd = (int)*slot[a];
          real_fds.push_back(fd);
          tracked[fd] = next_logical;
          adopted.push_back(next_logical);
          next_logical++;
          emit(cstr ? "open_c" : "open_s", a, 0, tracked[fd]);
        }
        break;
      case 0:
        if (!slot[a]) {
          int fd = fresh();
          slot[a] = new scoped_fd(fd);
          emit("adopt", a, 0, tracked[fd]);
        }
        break;
      case 1:
        if (!slot[a] && slot[b]) {
          slot[a] = new scoped_fd(std::move(*slot[b]));
          emit("move_ctor", a, b, 0);
        }
        break;
      case 2:
        if (slot[a] && slot[b] && a != b) {
          *slot[a] = std::move(*slot[b]);
          emit("move_assign", a, b, 0);
        }
        break;
      case 3:
        if (slot[a]) {
          int fd = fresh();
          *slot[a] = fd;
          emit("assign_int", a, 0, tracked[fd]);
        }
        break;
      case 4:
        if (slot[a]) {
          slot[a]->close();
          emit("close", a, 0, 0);
        }
        break;
      default:
        if (slot[a]) {
          delete slot[a];
          slot[a] = nullptr;
          emit("destroy", a, 0, 0);
        }
        break;
    }
  }
  for (int s = 1; s <= 4; s++)
    if (slot[s]) {
      delete slot[s];
      slot[s] = nullptr;
      emit("destroy", s, 0, 0);
    }
  vt::J j;
  j.str("e", "sfdend").ints("adopted", adopted);
  tr.emit(j);
  for (int fd : real_fds) {
    tracked.erase(fd);
    __real_close(fd);
  }
  if (zero_free && saved0 >= 0) {
    dup2(saved0, 0);
    __real_close(saved0);
  }
}

// ---------------------------------------------------------------- Poll
static void poll_history(vt::Rng& r) {
  tr.emit("{\"e\":\"Reset\"}");
  tr.histories++;
  int pa[2], pb[2];
  if (::pipe(pa) || ::pipe(pb)) return;
  int real[4] = {0, pa[0], pa[1], pb[0]};  // logical 1: read end of A, 2: write end of A, 3: read end of B
  for (int i = 1; i <= 3; i++) tracked[real[i]] = i;
  bool a_has_data = false, b_has_data = false;
  if (r.chance(60)) {
    (void)!::write(pa[1], "x", 1);
    a_has_data = true;
  }
  if (r.chance(40)) {
    (void)!::write(pb[1], "y", 1);
    b_has_data = true;
  }
  Poll p;
  map<int, short> model_for_must;  // only used to tell which registered descriptors are certainly ready
  auto emit = [&](const string& op, int fd, short events, bool cl, const vector<long>& ready) {
    vector<long> keys, evs, must;
    for (auto& pfd : p.poll_fds) {
      keys.push_back(logical_of(pfd.fd));
      evs.push_back(pfd.events);
    }
    for (auto& it : model_for_must) {
      if (it.first == 1 && (it.second & POLLIN) && a_has_data) must.push_back(1);
      if (it.first == 3 && (it.second & POLLIN) && b_has_data) must.push_back(3);
      if (it.first == 2 && (it.second & POLLOUT)) must.push_back(2);
    }
    if (op != "poll") must.clear();
    vt::J j;
    j.str("e", "poll").str("op", op).num("fd", fd).num("events", events).num("close", cl).ints("keys", keys).ints("evs", evs);
    j.num("empty", p.empty()).ints("closed", closed_log).ints("ready", ready).ints("must", must);
    tr.emit(j);
    tr.nontrivial("poll" + op + to_string(keys.size()) + to_string(closed_log.size()));
    closed_log.clear();
  };
  int nops = (int)r.range(2, 12);
  for (int i = 0; i < nops; i++) {
    int fd = 1 + (int)r.below(3);
    switch (r.below(5)) {
      case 0:
      case 1: {
        short ev = fd == 2 ? POLLOUT : (r.chance(80) ? POLLIN : (POLLIN | POLLPRI));
        p.add(real[fd], ev);
        model_for_must[fd] = ev;
        emit("add", fd, ev, false, {});
        break;
      }
      case 2: {
        bool cl = r.chance(40);
        p.remove(real[fd], cl);
        model_for_must.erase(fd);
        emit("remove", fd, 0, cl, {});
        break;
      }
      case 3: emit("empty", 0, 0, false, {}); break;
      default: {
        vector<long> ready;
        for (auto& it : p.poll(0)) ready.push_back(logical_of(it.first));
        sort(ready.begin(), ready.end());
        emit("poll", 0, 0, false, ready);
        break;
      }
    }
  }
  for (int i = 1; i <= 3; i++) tracked.erase(real[i]);
  __real_close(pa[0]);
  __real_close(pa[1]);
  __real_close(pb[0]);
  __real_close(pb[1]);
}

// ---------------------------------------------------------------- files, directories, paths
static void file_cases(vt::Rng& r, const string& dir, bool quick) {
  vector<size_t> sizes = {0, 1, 255, 256, 257, 16383, 16384, 16385, 32768, 65536, 200 * 1024};
  if (!quick)
    for (size_t s = 16380; s <= 16388; s++) sizes.push_back(s);
  string path = dir + "/f.bin";
  long prev = -1;
  // sizes in an order that alternates growing and shrinking (a shorter file written over a longer one)
  vector<size_t> order = sizes;
  for (size_t i = 0; i + 1 < order.size(); i += 2) swap(order[i], order[order.size() - 1 - i]);
  for (size_t sz : order) {
    string d = pattern(sz, sz + 7);
    string back;
    string out = guarded([&] {
      if (r.chance(50))
        save_file(path, d);
      else
        save_file(path, d.data(), d.size());
      back = load_file(path);
    });
    vt::J j;
    j.str("e", "file").num("size", (long long)sz).num("prev", prev).str("out", out).num("len", (long long)back.size()).num("eq", back == d);
    tr.emit(j);
    tr.nontrivial("file" + to_string(prev > (long)sz) + to_string(sz % 16384 == 0));
    prev = (long)sz;
  }
  // read_all on REAL descriptors of regular files, also after part of the file was already consumed (readx / lseek) and
  // at end of file: exactly the remaining bytes, nothing appended
  for (size_t sz : vector<size_t>{1, 100, 16384, 16385, 40000}) {
    string d = pattern(sz, sz + 3);
    save_file(path, d);
    for (size_t skip : vector<size_t>{0, 1, 16, sz / 2, sz - 1, sz}) {
      if (skip > sz) continue;
      int fd = ::open(path.c_str(), O_RDONLY);
      if (fd < 0) continue;
      bool via_seek = (skip + sz) % 2 == 0;
      string ret, out = guarded([&] {
        if (skip && via_seek) lseek(fd, (off_t)skip, SEEK_SET);
        else if (skip) readx(fd, skip);
        ret = read_all(fd);
      });
      __real_close(fd);
      string expect = d.substr(skip);
      vt::J j;
      j.str("e", "ra").str("via", "regular").num("srclen", (long long)expect.size()).num("err", 0).str("out", out);
      j.num("len", (long long)ret.size()).num("eq", ret == expect).num("delivered", (long long)expect.size()).raw("reqs", "[]").raw("plan", "[]");
      tr.emit(j);
      tr.nontrivial("raregular" + to_string(skip == 0) + to_string(skip == sz) + out);
    }
    // the FILE* form after part of the stream was consumed
    FILE* f = fopen(path.c_str(), "rb");
    if (f) {
      size_t skip = sz / 3;
      string ret, out = guarded([&] {
        if (skip) freadx(f, skip);
        ret = read_all(f);
      });
      fclose(f);
      string expect = d.substr(skip);
      vt::J j;
      j.str("e", "ra").str("via", "regular").num("srclen", (long long)expect.size()).num("err", 0).str("out", out);
      j.num("len", (long long)ret.size()).num("eq", ret == expect).num("delivered", (long long)expect.size()).raw("reqs", "[]").raw("plan", "[]");
      tr.emit(j);
    }
  }
  ::unlink(path.c_str());
  // directory listing and recursive unlink on generated trees
  for (int t = 0; t < (quick ? 3 : 20); t++) {
    string root = dir + "/tree" + to_string(t);
    mkdir(root.c_str(), 0755);
    string outside = dir + "/outside" + to_string(t);
    mkdir(outside.c_str(), 0755);
    save_file(outside + "/sentinel", "keep me");
    vector<string> names;
    int n = (int)r.below(9);
    // small scope: the first tree holds EVERY name of 1..3 characters over {'.', 'a', '-'} other than "." and ".." themselves
    vector<string> shorts;
    for (int len = 1; len <= 3; len++)
      for (int code = 0, lim = len == 1 ? 3 : len == 2 ? 9 : 27; code < lim; code++) {
        string nm;
        for (int k = 0, c = code; k < len; k++, c /= 3) nm.push_back(".a-"[c % 3]);
        if (nm != "." && nm != "..") shorts.push_back(nm);
      }
    if (t == 0) n = (int)shorts.size();
    for (int i = 0; i < n; i++) {
      string nm;
      if (t == 0) nm = shorts[i];
      else switch (r.below(7)) {
        case 6: nm = shorts[r.below(shorts.size())]; break;
        case 0: nm = "with space " + to_string(i); break;
        case 1: nm = ".hidden" + to_string(i); break;
        case 2: nm = string(255 - 2, 'L') + to_string(i % 10) + "x"; break;
        case 3: nm = "..." + to_string(i); break;
        case 4: nm = "\xC3\xA9\x01" + to_string(i); break;
        default: nm = "n" + to_string(i); break;
      }
      if (nm.size() > 255) nm.resize(255);
      if (find(names.begin(), names.end(), nm) != names.end()) continue;
      names.push_back(nm);
      string p = root + "/" + nm;
      if (r.chance(t == 0 ? 15 : 20) && nm.size() < 60) {
        // entries that are neither regular files nor directories: a FIFO, a bound unix-domain socket (their mode bits
        // share bits with S_IFDIR), a dangling symlink and a symlink to a directory (which must be removed, not followed)
        switch (r.below(4)) {
          case 0: mkfifo(p.c_str(), 0644); break;
          case 1: {
            int cwd = open(".", O_RDONLY);
            if (cwd >= 0 && chdir(root.c_str()) == 0) {
              int sk = socket(AF_UNIX, SOCK_STREAM, 0);
              struct sockaddr_un sa;
              memset(&sa, 0, sizeof sa);
              sa.sun_family = AF_UNIX;
              memcpy(sa.sun_path, nm.data(), nm.size());
              if (sk < 0 || bind(sk, (struct sockaddr*)&sa, (socklen_t)(offsetof(struct sockaddr_un, sun_path) + nm.size() + 1)) != 0)
                save_file(nm, "fallback");
              if (sk >= 0) __real_close(sk);
              if (fchdir(cwd) != 0) abort();
            } else
              save_file(p, "fallback");
            if (cwd >= 0) __real_close(cwd);
            break;
          }
          case 2:
            if (symlink("does-not-exist", p.c_str()) != 0) save_file(p, "fallback");
            break;
          default:
            // a symlink to a directory that lies OUTSIDE the tree (a sibling holding a sentinel file): the link is an
            // entry like any other - it is removed, never followed
            if (symlink(("../outside" + to_string(t)).c_str(), p.c_str()) != 0) save_file(p, "fallback");
            break;
        }
      } else if (r.chance(30)) {
        mkdir(p.c_str(), 0755);
        string deep = p;
        for (int d = 0; d < (int)r.below(5); d++) {
          deep += "/d" + to_string(d);
          mkdir(deep.c_str(), 0755);
          save_file(deep + "/leaf", "x");
        }
      } else
        save_file(p, "data");
    }
    // every tree also holds, deterministically, a link to the sibling directory with the sentinel; every second one a FIFO
    // and a dangling link as well
    if (symlink(("../outside" + to_string(t)).c_str(), (root + "/lnk_out").c_str()) == 0) names.push_back("lnk_out");
    if (t % 2 == 1) {
      if (mkfifo((root + "/fifo1").c_str(), 0644) == 0) names.push_back("fifo1");
      if (symlink("nowhere", (root + "/lnk_dangling").c_str()) == 0) names.push_back("lnk_dangling");
    }
    vector<string> listed, sorted_l;
    string out = guarded([&] {
      for (auto& s : list_directory(root)) listed.push_back(s);
      sorted_l = list_directory_sorted(root);
    });
    sort(listed.begin(), listed.end());
    auto jn = [](vector<string> v) {
      sort(v.begin(), v.end());
      string s = "[";
      for (size_t i = 0; i < v.size(); i++) {
        if (i) s += ",";
        s += vt::J::arr_bytes(v[i].data(), v[i].size());
      }
      return s + "]";
    };
    vt::J j;
    j.str("e", "dir").str("out", out).raw("created", jn(names)).raw("listed", jn(listed)).raw("sorted", jn(sorted_l));
    tr.emit(j);
    string out2 = guarded([&] { phosg::unlink(root, true); });
    struct stat st;
    vt::J k;
    k.str("e", "rmtree").str("out", out2).num("exists", stat(root.c_str(), &st) == 0);
    k.num("outside", stat((outside + "/sentinel").c_str(), &st) == 0);
    tr.emit(k);
    ::unlink((outside + "/sentinel").c_str());
    ::rmdir(outside.c_str());
    tr.nontrivial("dir" + to_string(names.size()));
  }
  // basename / dirname on every path up to length 6 over {a, /, .}
  {
    string ins = "[", bs = "[", ds = "[";
    bool first = true;
    const char A[] = {'a', '/', '.'};
    for (int len = 0; len <= (quick ? 5 : 7); len++) {
      vector<int> idx(len, 0);
      for (;;) {
        string p;
        for (int i : idx) p.push_back(A[i]);
        if (!first) {
          ins += ",";
          bs += ",";
          ds += ",";
        }
        first = false;
        ins += vt::J::arr_bytes(p.data(), p.size());
        string b = basename(p), d = dirname(p);
        bs += vt::J::arr_bytes(b.data(), b.size());
        ds += vt::J::arr_bytes(d.data(), d.size());
        int i = len - 1;
        while (i >= 0 && ++idx[i] == 3) idx[i--] = 0;
        if (i < 0) break;
      }
    }
    vt::J j;
    j.str("e", "paths").raw("ins", ins + "]").raw("base", bs + "]").raw("dir", ds + "]");
    tr.emit(j);
  }
}

int main(int argc, char** argv) {
  if (argc < 5) return 2;
  signal(SIGPIPE, SIG_IGN);
  tr.open(argv[1]);
  bool quick = string(argv[2]) == "quick";
  vt::Rng r(strtoull(argv[3], nullptr, 10) * 7 + 11);
  string dir = argv[4];
  S.fd = open("/dev/null", O_RDONLY);
  tr.emit("{\"e\":\"Reset\"}");

  // 1. read_all: every delivery plan (chunks 1..3) for sizes <= 6 (quick) / 9
  for (size_t size = 0; size <= (quick ? 6u : 9u); size++)
    all_plans(size, 3, [&](const vector<size_t>& plan) {
      ev_read_all(true, pattern(size, size), plan, -1);
      ev_read_all(false, pattern(size, size + 1), plan, -1);
    });
  // random plans around the 16 KiB block and larger
  vector<size_t> sizes = {255, 256, 257, 16383, 16384, 16385, 32767, 32768, 32769, 49152, 65536, 100000, 200 * 1024};
  for (size_t size : sizes)
    for (int rep = 0; rep < (quick ? 3 : 12); rep++) {
      vector<size_t> plan;
      size_t left = size;
      int style = (int)r.below(5);
      while (left > 0 && plan.size() < 4000) {
        size_t c = style == 0 ? 16384 : style == 1 ? 1 + r.below(16384) : style == 2 ? 1 + r.below(100)
            : style == 3 ? (r.chance(50) ? 16384 : 1 + r.below(16384)) : 16383 + r.below(3);
        c = min(c, left);
        plan.push_back(c);
        left -= c;
      }
      ev_read_all(true, pattern(size, size + rep), plan, -1);
      ev_read_all(false, pattern(size, size + rep + 99), plan, -1);
      if (rep % 3 == 0 && !plan.empty()) ev_read_all(true, pattern(size, size), plan, (long)r.below(plan.size() + 1));
      if (rep % 3 == 1 && !plan.empty()) ev_read_all(false, pattern(size, size + 7), plan, (long)r.below(plan.size() + 1));
    }
  // 2. fgets: every line length 0..1100 (quick: around the block boundaries), several chunkings
  vector<size_t> lens;
  if (quick) {
    for (size_t l : {0, 1, 2, 100, 253, 254, 255, 256, 257, 509, 510, 511, 512, 600, 764, 765, 766, 1019, 1020, 1021, 1100}) lens.push_back(l);
  } else
    for (size_t l = 0; l <= 1100; l++) lens.push_back(l);
  for (size_t l : lens)
    for (int finalnl = 0; finalnl <= 1; finalnl++) {
      ev_fgets(r, {l}, finalnl, {});
      ev_fgets(r, {3, l, 0, l}, finalnl, {1, 1, 1, 7, 100, 255, 256});
      if (l % 50 == 3 || l % 255 <= 1) {
        vector<size_t> plan;
        for (int k = 0; k < 3000; k++) plan.push_back(1 + r.below(300));
        ev_fgets(r, {l, 2, l}, finalnl, plan);
      }
    }
  // 3. exact-size families
  for (const char* fn : {"readx", "readxs", "preadx", "preadxs", "read", "freadx", "freadxs", "fread"})
    for (size_t size : {0, 1, 5, 4096, 20000}) {
      string data = pattern(size + 10, size);
      ev_exact(fn, size, data, {});                      // delivered at once
      if (size > 1) ev_exact(fn, size, data, {size - 1, 5}); // short first read (a 0-byte delivery would be end of data)
      if (size > 1) ev_exact(fn, size, data, {1, 1, size});
      ev_exact(fn, size, data.substr(0, size / 2), {});  // source ends early
      ev_exact(fn, size, data.substr(0, size), {});
    }
  // 4. scoped_fd and Poll histories
  for (int i = 0; i < (quick ? 150 : 3000); i++) sfd_history(r);
  for (int i = 0; i < (quick ? 150 : 3000); i++) poll_history(r);
  // exhaustive-ish Poll: add; add; remove sequences over one descriptor are part of the random ones above
  // 5. files, directories, paths
  file_cases(r, dir, quick);
  tr.stats();
  return 0;
}
