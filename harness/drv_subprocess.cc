// C15 driver: run_process / Subprocess::communicate against scripted children (spec/Subprocess).
//   drv_subprocess <out> <tier> <seed> <path of verif_child> <shard> <nshards>
// Each scenario runs in a forked driver process (so descriptor accounting and a watchdog are per scenario).
// The parent-side system calls phosg makes are interposed (-Wl,--wrap): they are logged as a token sequence
// (for the refinement check against the parent's control skeleton) and can be delayed according to a plan,
// which is how "child exits before the parent polls" and "output written just before exit" are produced
// deterministically.
#include <dirent.h>
#include <errno.h>
#include <poll.h>
#include <signal.h>
#include <sys/wait.h>

#include <phosg/Process.hh>

#include <fcntl.h>

#include "trace.hh"

using namespace std;
using namespace phosg;

static vt::Trace tr;

// ---------------------------------------------------------------- interposition
static string g_sys;            // token sequence
static int g_pipe_n = 0;
static int g_role[3][2];        // [pipe index][0 read end, 1 write end]
static int g_delay_wait_ms = 0, g_delay_poll_ms = 0, g_delay_read_ms = 0, g_first_wait_ms = 0;
static bool g_big_pipes = false;  // enlarge the three pipes to 1 MiB (F_SETPIPE_SZ): more than one read block can be left behind
static bool g_log = false;
static int g_nwait = 0;

static char role_of(int fd) {
  if (g_pipe_n >= 1 && fd == g_role[0][1]) return 'I';
  if (g_pipe_n >= 2 && fd == g_role[1][0]) return 'O';
  if (g_pipe_n >= 3 && fd == g_role[2][0]) return 'E';
  return 0;
}
static void tok(const string& t) {
  if (!g_log) return;
  if (!g_sys.empty()) g_sys += ",";
  g_sys += "\"" + t + "\"";
}
extern "C" {
int __real_pipe(int*);
pid_t __real_waitpid(pid_t, int*, int);
int __real_poll(struct pollfd*, nfds_t, int);
ssize_t __real_read(int, void*, size_t);
ssize_t __real_write(int, const void*, size_t);
int __real_close(int);
int __wrap_pipe(int* fds) {
  int r = __real_pipe(fds);
  if (g_log && r == 0 && g_big_pipes) fcntl(fds[1], F_SETPIPE_SZ, 1 << 20);
  if (g_log && r == 0 && g_pipe_n < 3) {
    g_role[g_pipe_n][0] = fds[0];
    g_role[g_pipe_n][1] = fds[1];
    g_pipe_n++;
  }
  return r;
}
pid_t __wrap_waitpid(pid_t pid, int* st, int opts) {
  if (g_log) {
    if (g_nwait == 0 && g_first_wait_ms) usleep(g_first_wait_ms * 1000);
    if (g_delay_wait_ms) usleep(g_delay_wait_ms * 1000);
    g_nwait++;
  }
  pid_t r = __real_waitpid(pid, st, opts);
  if (g_log) tok(r > 0 ? "w1" : r == 0 ? "w0" : "we");
  return r;
}
int __wrap_poll(struct pollfd* fds, nfds_t n, int timeout) {
  if (g_log && g_delay_poll_ms) usleep(g_delay_poll_ms * 1000);
  int r = __real_poll(fds, n, timeout);
  if (g_log) tok("p");
  return r;
}
ssize_t __wrap_read(int fd, void* buf, size_t n) {
  char role = g_log ? role_of(fd) : 0;
  if (role && g_delay_read_ms) usleep(g_delay_read_ms * 1000);
  ssize_t r = __real_read(fd, buf, n);
  if (role) tok(string("r") + role + (r > 0 ? "+" : r == 0 ? "0" : "-"));
  return r;
}
ssize_t __wrap_write(int fd, const void* buf, size_t n) {
  char role = g_log ? role_of(fd) : 0;
  ssize_t r = __real_write(fd, buf, n);
  if (role) tok(string("w") + role + (r > 0 ? "+" : r == 0 ? "0" : "-"));
  return r;
}
int __wrap_close(int fd) {
  char role = g_log ? role_of(fd) : 0;
  if (role) tok(string("c") + role);
  return __real_close(fd);
}
}

static int count_fds() {
  int n = 0;
  DIR* d = opendir("/proc/self/fd");
  while (readdir(d)) n++;
  closedir(d);
  return n;
}

struct Op {
  string op;
  long n;
};
struct Scenario {
  string api;  // run_process | communicate
  vector<Op> prog;
  long payload;  // -1: no stdin data given (run_process) / empty
  bool check;
  long timeout_usecs;
  string delay;  // none | w<ms> | p<ms> | r<ms> | f<ms>
};

static string payload_bytes(size_t n) {
  string s(n, 0);
  for (size_t i = 0; i < n; i++) s[i] = (char)(i * 127 + 3);
  return s;
}
static bool pattern_ok(const string& s, int stream, size_t from = 0) {
  for (size_t i = 0; i < s.size(); i++) {
    uint64_t pos = from + i;
    char e = (char)(stream == 1 ? (pos * 131 + 7) : (pos * 137 + 11));
    if (s[i] != e) return false;
  }
  return true;
}

static void run_scenario(const Scenario& sc, const string& child) {
  vector<string> cmd = {child};
  string progj = "[";
  bool has_cat = false;
  for (size_t i = 0; i < sc.prog.size(); i++) {
    auto& o = sc.prog[i];
    cmd.push_back(o.op + (o.op == "w1" || o.op == "w2" || o.op == "r" || o.op == "s" || o.op == "x" || o.op == "k" ? ":" + to_string(o.n) : ""));
    if (i) progj += ",";
    progj += "{\"op\":\"" + o.op + "\",\"n\":" + to_string(o.n) + "}";
    if (o.op == "cat") has_cat = true;
  }
  progj += "]";
  g_delay_wait_ms = g_delay_poll_ms = g_delay_read_ms = g_first_wait_ms = 0;
  if (sc.delay[0] == 'w') g_delay_wait_ms = atoi(sc.delay.c_str() + 1);
  if (sc.delay[0] == 'p') g_delay_poll_ms = atoi(sc.delay.c_str() + 1);
  if (sc.delay[0] == 'r') g_delay_read_ms = atoi(sc.delay.c_str() + 1);
  if (sc.delay[0] == 'f') g_first_wait_ms = atoi(sc.delay.c_str() + 1);
  g_big_pipes = sc.delay[0] == 'F';  // F<ms>: as f<ms>, with 1 MiB pipes
  if (sc.delay[0] == 'F') g_first_wait_ms = atoi(sc.delay.c_str() + 1);
  string payload = sc.payload > 0 ? payload_bytes(sc.payload) : string();
  // Z: descriptor 0 is free in the calling process, so one of the new pipe ends gets number 0 - the child must still
  // see that pipe as its standard input
  if (sc.delay[0] == 'Z') __real_close(0);
  int fds_before = count_fds();
  g_sys.clear();
  g_pipe_n = 0;
  g_nwait = 0;
  string out = "ok", so, se, what;
  int status = -1;
  pid_t child_pid = -1;
  g_log = true;
  try {
    if (sc.api == "run_process") {
      auto r = run_process(cmd, sc.payload >= 0 ? &payload : nullptr, sc.check, nullptr, nullptr, sc.timeout_usecs);
      so = r.stdout_contents;
      se = r.stderr_contents;
      status = r.exit_status;
    } else if (sc.api == "abandon") {
      // a Subprocess object destroyed while its child may still be running (timeout_usecs = pause before destruction):
      // the destructor must end and reap the child, whatever the child does about SIGTERM
      int fds[3];
      {
        Subprocess sp(cmd);
        child_pid = sp.pid();
        fds[0] = sp.stdin_fd(), fds[1] = sp.stdout_fd(), fds[2] = sp.stderr_fd();
        if (sc.timeout_usecs) usleep(sc.timeout_usecs);
      }
      // the object does not own its pipe ends beyond its life: close them for the accounting
      for (int fd : fds)
        if (fd >= 0) __real_close(fd);
    } else {
      string got_err;
      {
        // R: the Subprocess object is REUSED - it first ran another child to completion (exit status 3), then the
        // scenario's child is move-assigned into it
        Subprocess sp;
        if (sc.delay[0] == 'A') {
          // A: the object is re-assigned while its FIRST child is still running (asleep, ignoring SIGTERM): that child
          // must be ended and reaped like a child whose object is destroyed
          sp = Subprocess(vector<string>{child, "it", "s:100000", "x:0"});
          int old_fds[3] = {sp.stdin_fd(), sp.stdout_fd(), sp.stderr_fd()};
          usleep(30000);
          sp = Subprocess(cmd);
          for (int fd : old_fds)
            if (fd >= 0) __real_close(fd);
        } else if (sc.delay[0] == 'R') {
          sp = Subprocess(vector<string>{child, "x:3"});
          sp.wait();
          for (int fd : {sp.stdin_fd(), sp.stdout_fd(), sp.stderr_fd()})
            if (fd >= 0) __real_close(fd);
          sp = Subprocess(cmd);
        } else
          sp = Subprocess(cmd);
        child_pid = sp.pid();
        if (sc.payload > 0)
          so = sp.communicate(payload.data(), payload.size(), sc.timeout_usecs);
        else
          so = sp.communicate(nullptr, 0, sc.timeout_usecs);
        status = sp.wait();
        // the Subprocess object still owns its stderr pipe; read it so the descriptors can be compared
        if (sp.stderr_fd() >= 0) {
          char b[4096];
          ssize_t k;
          while ((k = __real_read(sp.stderr_fd(), b, sizeof b)) > 0) se.append(b, k);
        }
        // communicate does not promise to close the object's descriptors: close what is left for accounting
        for (int fd : {sp.stdin_fd(), sp.stdout_fd(), sp.stderr_fd()})
          if (fd >= 0) __real_close(fd);
      }
    }
  } catch (const exception& e) {
    out = vt::exc_name(e);
    what = string(e.what()).substr(0, 120);
  }
  g_log = false;
  int fds_after = count_fds();
  // any child of this process that can still be reaped was left as a zombie (or is still running)
  int zombies = 0, alive = 0;
  usleep(20000);
  for (;;) {
    int st;
    pid_t p = __real_waitpid(-1, &st, WNOHANG);
    if (p > 0)
      zombies++;
    else if (p == 0) {
      alive++;
      break;
    } else
      break;
  }
  // separate the GOT report from stderr
  long got_n = -1;
  unsigned long got_sum = 0;
  size_t gp = se.rfind("GOT ");
  if (gp != string::npos && se.size() - gp >= 26) {
    got_n = atol(se.c_str() + gp + 4);
    got_sum = strtoul(se.c_str() + gp + 15, nullptr, 10);
    se.erase(gp, 26);
  }
  unsigned long exp_sum = 0;
  for (unsigned char c : payload) exp_sum = (uint32_t)(exp_sum * 31 + c);
  // content check of stdout: generated segments follow the stream pattern; a cat segment is the payload
  bool so_eq = true;
  {
    size_t pos = 0, gen = 0;
    for (auto& o : sc.prog) {
      if (o.op == "w1") {
        size_t n = min<size_t>(o.n, so.size() - min(pos, so.size()));
        so_eq = so_eq && pattern_ok(so.substr(min(pos, so.size()), n), 1, gen);
        pos += o.n;
        gen += o.n;
      } else if (o.op == "cat") {
        size_t n = min<size_t>(payload.size(), so.size() - min(pos, so.size()));
        so_eq = so_eq && so.compare(min(pos, so.size()), n, payload, 0, n) == 0;
        pos += payload.size();
      }
    }
  }
  bool se_eq = pattern_ok(se, 2);
  vt::J j;
  j.str("e", "run").str("api", sc.api).raw("prog", progj).num("payload", sc.payload).num("check", sc.check);
  j.num("timeout", min<long>(sc.timeout_usecs, 1000000000L)).str("delay", sc.delay).str("out", out);   // (capped for the checker's integers)
  j.num("so_len", (long long)so.size()).num("so_eq", so_eq).num("se_len", (long long)se.size()).num("se_eq", se_eq);
  j.num("status", status).num("fds_before", fds_before).num("fds_after", fds_after).num("zombies", zombies).num("alive", alive);
  j.num("got_n", got_n).num("got_ok", got_n < 0 || got_sum == exp_sum).num("has_cat", has_cat).str("what", what).raw("sys", "[" + g_sys + "]");
  tr.emit(j);
  (void)child_pid;
}

int main(int argc, char** argv) {
  if (argc < 7) return 2;
  signal(SIGPIPE, SIG_IGN);
  tr.open(argv[1]);
  bool quick = string(argv[2]) == "quick";
  vt::Rng r(strtoull(argv[3], nullptr, 10) * 53 + 1);
  string child = argv[4];
  int shard = atoi(argv[5]), nshards = atoi(argv[6]);
  tr.emit("{\"e\":\"Reset\"}");

  typedef vector<Op> P;
  vector<pair<string, P>> progs = {
      {"readwrite", P{{"rall", 0}, {"rep", 0}, {"w1", 3000}, {"w2", 2000}, {"x", 0}}},
      {"writeread", P{{"w1", 5000}, {"rall", 0}, {"rep", 0}, {"w2", 10}, {"x", 3}}},
      {"cat", P{{"cat", 0}, {"rep", 0}, {"x", 0}}},
      {"quick", P{{"w1", 2000}, {"w2", 300}, {"x", 7}}},
      {"bigquick", P{{"w1", 60000}, {"w2", 60000}, {"x", 0}}},
      {"slowreader", P{{"s", 30}, {"r", 1000}, {"s", 30}, {"rall", 0}, {"rep", 0}, {"w1", 100}, {"x", 0}}},
      {"pausewrite", P{{"w1", 10}, {"s", 60}, {"w1", 70000}, {"w2", 5}, {"x", 0}}},
      {"lastgasp", P{{"rall", 0}, {"s", 20}, {"w1", 30000}, {"w2", 30000}, {"x", 2}}},
      {"big", P{{"rall", 0}, {"rep", 0}, {"w1", 300000}, {"w2", 200000}, {"x", 0}}},
      {"closeout", P{{"w1", 100}, {"co", 0}, {"rall", 0}, {"rep", 0}, {"w2", 50}, {"x", 1}}},
      {"signal", P{{"w1", 100}, {"w2", 100}, {"k", 9}}},
      {"sigterm", P{{"rall", 0}, {"w1", 5}, {"k", 15}}},
      {"closein", P{{"r", 10}, {"ci", 0}, {"w1", 500}, {"s", 30}, {"x", 0}}},
      {"noread", P{{"w1", 10}, {"s", 30}, {"x", 0}}},
  };
  vector<long> payloads = quick ? vector<long>{-1, 0, 1, 4096, 65537, 1 << 20}
                                : vector<long>{-1, 0, 1, 4095, 4096, 4097, 65535, 65536, 65537, 200000, 1 << 20};
  vector<string> delays = quick ? vector<string>{"none", "f80", "w15", "p10"} : vector<string>{"none", "f80", "f200", "w15", "p10", "r3"};
  vector<Scenario> all;
  for (auto& pg : progs)
    for (long pl : payloads)
      for (auto& d : delays) {
        bool epipe_prone = (pg.first == "closein" || pg.first == "noread" || pg.first == "quick" || pg.first == "bigquick" ||
            pg.first == "signal" || pg.first == "pausewrite");
        if (epipe_prone && pl > 4096 && quick && d != "none") continue;
        if (quick && d != "none" && pl != -1 && pl != 65537 && pl != 1) continue;
        all.push_back({"run_process", pg.second, pl, false, 0, d});
        if (d == "none" || d == "f80") all.push_back({"run_process", pg.second, pl, true, 0, d});
        // communicate() does not service the stderr pipe: a child writing more than a pipe-full to a piped stderr
        // blocks by construction, which is outside the statement (it promises the complete stdout)
        long err_volume = 0;
        for (auto& o : pg.second)
          if (o.op == "w2") err_volume += o.n;
        if (pl != -1 && pg.first != "closein" && pg.first != "noread" && err_volume <= 40000)
          all.push_back({"communicate", pg.second, pl < 0 ? 0 : pl, false, (d == "w15" ? 20000000 : 0), d});
      }
  // enlarged pipes: the child can leave several read blocks (128 KiB each) behind when it exits before the parent looks
  for (auto& d : vector<string>{"F150", "F400"}) {
    all.push_back({"run_process", P{{"w1", 400000}, {"w2", 300000}, {"x", 0}}, -1, false, 0, d});
    all.push_back({"run_process", P{{"w1", 131073}, {"x", 5}}, 0, false, 0, d});
    all.push_back({"run_process", P{{"w2", 262145}, {"w1", 1000000}, {"x", 0}}, 10, true, 0, d});
    all.push_back({"communicate", P{{"w1", 400000}, {"w2", 100}, {"x", 0}}, 0, false, 0, d});
    all.push_back({"communicate", P{{"rall", 0}, {"w1", 700000}, {"x", 0}}, 200000, false, 0, d});
  }
  for (const char* api : {"run_process", "communicate"}) {
    all.push_back({api, P{{"cat", 0}, {"rep", 0}, {"x", 0}}, 5000, false, 0, "Znone"});
    all.push_back({api, P{{"rall", 0}, {"rep", 0}, {"w1", 3000}, {"x", 0}}, 70000, false, 0, "Znone"});
  }
  all.push_back({"communicate", P{{"cat", 0}, {"rep", 0}, {"x", 0}}, 5000, false, 0, "Anone"});
  all.push_back({"communicate", P{{"rall", 0}, {"rep", 0}, {"w1", 70000}, {"x", 5}}, 100000, false, 0, "Anone"});
  all.push_back({"communicate", P{{"cat", 0}, {"rep", 0}, {"x", 0}}, 5000, false, 0, "Rnone"});
  all.push_back({"communicate", P{{"rall", 0}, {"rep", 0}, {"w1", 70000}, {"x", 5}}, 100000, false, 0, "Rnone"});
  // timeouts: a child that outlives the deadline is ended
  all.push_back({"run_process", P{{"w1", 10}, {"s", 5000}, {"x", 0}}, -1, false, 300000, "none"});
  all.push_back({"run_process", P{{"w1", 10}, {"s", 5000}, {"x", 0}}, -1, true, 300000, "none"});
  // deadlines far in the future (beyond 2^32 us = 71.6 min, with a small low word): the child simply runs to its end
  all.push_back({"run_process", P{{"w1", 10}, {"s", 1500}, {"w1", 5}, {"w2", 7}, {"x", 0}}, -1, true, 4294967296L + 200000, "none"});
  all.push_back({"run_process", P{{"rall", 0}, {"rep", 0}, {"s", 1200}, {"w1", 100}, {"x", 3}}, 5000, false, 2 * 4294967296L + 1, "none"});
  all.push_back({"communicate", P{{"cat", 0}, {"rep", 0}, {"s", 1200}, {"x", 0}}, 3000, false, 4294967296L + 100000, "none"});
  // a chatty child (output more often than the poll timeout, so every poll returns an event) is ended by the deadline too
  {
    P chatty;
    for (int i = 0; i < 40; i++) {
      chatty.push_back({"w1", 1});
      chatty.push_back({"s", 150});
    }
    chatty.push_back({"x", 0});
    all.push_back({"run_process", chatty, -1, false, 300000, "none"});
  }
  // a child that ignores SIGTERM must still be ended (the escalation to SIGKILL comes 5 s later)
  all.push_back({"run_process", P{{"it", 0}, {"w1", 10}, {"s", 30000}, {"x", 0}}, -1, false, 300000, "none"});
  // abandoned objects: child asleep (ignoring SIGTERM or not), blocked reading its input, blocked writing, already gone
  all.push_back({"abandon", P{{"it", 0}, {"w1", 10}, {"s", 100000}, {"x", 0}}, -1, false, 50000, "none"});
  all.push_back({"abandon", P{{"w1", 10}, {"s", 100000}, {"x", 0}}, -1, false, 50000, "none"});
  all.push_back({"abandon", P{{"it", 0}, {"rall", 0}, {"x", 0}}, -1, false, 30000, "none"});
  all.push_back({"abandon", P{{"it", 0}, {"w1", 1000000}, {"x", 0}}, -1, false, 30000, "none"});
  all.push_back({"abandon", P{{"x", 3}}, -1, false, 100000, "none"});
  all.push_back({"abandon", P{{"w1", 5}, {"x", 0}}, -1, false, 0, "none"});
  // repeated calls: no descriptor may be left behind however many times it is called
  for (int i = 0; i < (quick ? 5 : 40); i++) all.push_back({"run_process", progs[3].second, 0, false, 0, "none"});

  for (size_t i = 0; i < all.size(); i++) {
    if ((int)(i % nshards) != shard) continue;
    const Scenario& sc = all[i];
    int rc = vt::in_child([&] { run_scenario(sc, child); }, 40);
    if (rc != 0) {
      vt::J j;
      j.str("e", rc == SIGALRM ? "Hang" : "Crash").num("rc", rc).str("api", sc.api).num("payload", sc.payload).str("delay", sc.delay);
      string pj;
      for (auto& o : sc.prog) pj += o.op + ":" + to_string(o.n) + " ";
      j.str("prog", pj);
      tr.emit(j);
    }
    tr.histories++;
    tr.events++;
    string cls = sc.api + to_string(sc.payload > 4096) + sc.delay.substr(0, 1);
    for (auto& o : sc.prog) cls += o.op[0];
    tr.nontrivial(cls);
  }
  tr.stats();
  return 0;
}
